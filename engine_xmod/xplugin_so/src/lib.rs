//! The shared object: the plugin code plus its own tagging global allocator (tag 2).
#[global_allocator]
static ALLOC: xapi::tagalloc::TagAlloc = xapi::tagalloc::TagAlloc { tag: 2 };

#[no_mangle]
pub extern "C" fn xmod_api_table() -> xplugin::Api {
    xplugin::api_table()
}
