//! Tagging global allocator: every block carries the tag of the module that allocated it; freeing a
//! block with another module's tag is recorded and not executed.

use std::alloc::{GlobalAlloc, Layout, System};
use std::sync::atomic::{AtomicU64, Ordering::SeqCst};

pub struct TagAlloc {
    pub tag: u64,
}

pub static ALLOCS: AtomicU64 = AtomicU64::new(0);
pub static FREES: AtomicU64 = AtomicU64::new(0);
pub static FOREIGN_FREES: AtomicU64 = AtomicU64::new(0);
pub static LAYOUT_MISMATCH: AtomicU64 = AtomicU64::new(0);

const MAGIC: u64 = 0x7a67_0000_0000_0000;

fn pad(l: Layout) -> usize {
    l.align().max(32)
}

unsafe impl GlobalAlloc for TagAlloc {
    unsafe fn alloc(&self, l: Layout) -> *mut u8 {
        let p = pad(l);
        let base = System.alloc(Layout::from_size_align_unchecked(l.size() + p, p));
        if base.is_null() {
            return base;
        }
        ALLOCS.fetch_add(1, SeqCst);
        let user = base.add(p);
        (user.sub(8) as *mut u64).write(MAGIC | self.tag);
        (user.sub(16) as *mut u64).write(l.size() as u64);
        (user.sub(24) as *mut u64).write(p as u64);
        user
    }
    unsafe fn dealloc(&self, user: *mut u8, l: Layout) {
        let tag = (user.sub(8) as *const u64).read();
        if tag != (MAGIC | self.tag) {
            // not ours (another module's block, or garbage): record, do not free
            FOREIGN_FREES.fetch_add(1, SeqCst);
            return;
        }
        if (user.sub(16) as *const u64).read() != l.size() as u64 {
            LAYOUT_MISMATCH.fetch_add(1, SeqCst);
        }
        FREES.fetch_add(1, SeqCst);
        if (user.sub(24) as *const u64).read() != pad(l) as u64 {
            LAYOUT_MISMATCH.fetch_add(1, SeqCst);
        }
        // free with what the block was allocated with, whatever the caller claims
        let p = (user.sub(24) as *const u64).read() as usize;
        (user.sub(8) as *mut u64).write(0);
        System.dealloc(user.sub(p), Layout::from_size_align_unchecked((user.sub(16) as *const u64).read() as usize + p, p));
    }
}

/// (allocs, frees, foreign frees, layout mismatches) of this module
pub fn stats() -> [u64; 4] {
    [ALLOCS.load(SeqCst), FREES.load(SeqCst), FOREIGN_FREES.load(SeqCst), LAYOUT_MISMATCH.load(SeqCst)]
}
