//! Interface shared by the host and the plugin of the C05 cross-module harness. It is compiled twice,
//! once into each module, possibly by different compilers / profiles / layout seeds.

// cglue-gen hard-codes `crate::trait_group` for borrowed wrapped returns; harmless here
#[allow(unused_imports)]
use cglue::trait_group;

pub mod tagalloc;

use cglue::callback::OpaqueCallback;
use cglue::*;
use std::sync::atomic::{AtomicI64, Ordering::SeqCst};

/// live payload instances created by *this* module's copy of the code
pub static LIVE: AtomicI64 = AtomicI64::new(0);

/// Counts itself in the module that constructed it.
#[repr(C)]
pub struct Tracked {
    pub val: u64,
    /// address of the LIVE counter of the creating module (so that a drop executed by another module's
    /// code still decrements the right counter)
    live: &'static AtomicI64,
}

impl Tracked {
    pub fn new(val: u64) -> Self {
        LIVE.fetch_add(1, SeqCst);
        Tracked { val, live: &LIVE }
    }
}

impl Clone for Tracked {
    fn clone(&self) -> Self {
        Tracked::new(self.val + 1000)
    }
}

impl Drop for Tracked {
    fn drop(&mut self) {
        self.live.fetch_sub(1, SeqCst);
    }
}

#[cglue_trait]
pub trait Counter {
    fn get(&self) -> u64;
    fn add(&mut self, v: u64) -> u64;
    fn label(&self) -> &str;
    fn fold(&self, data: &[u64]) -> u64;
    fn fill(&self, out: &mut [u64]);
    fn feed(&self, cb: OpaqueCallback<u64>) -> usize;
    fn maybe(&self, v: Option<u64>) -> Result<u64, u32>;
    fn take(self) -> u64;
}

#[cglue_trait]
pub trait Spawner {
    #[wrap_with_obj(Counter)]
    type C: Counter + 'static;
    fn spawn(&self, start: u64) -> Self::C;
}

#[cglue_trait]
pub trait Tagger {
    fn tag(&self) -> u64;
}

cglue_trait_group!(Bundle, Counter, { Spawner, Tagger, Clone });

pub struct CounterImp {
    pub val: u64,
    pub label: String,
    pub heap: Vec<u64>,
    pub t: Tracked,
}

impl CounterImp {
    pub fn new(val: u64) -> Self {
        CounterImp { val, label: format!("c{}", val), heap: vec![val; 3], t: Tracked::new(val) }
    }
}

impl Clone for CounterImp {
    fn clone(&self) -> Self {
        CounterImp::new(self.val + 1000)
    }
}

impl Counter for CounterImp {
    fn get(&self) -> u64 {
        self.val
    }
    fn add(&mut self, v: u64) -> u64 {
        self.val = self.val.wrapping_add(v);
        self.heap.push(v);
        self.val
    }
    fn label(&self) -> &str {
        &self.label
    }
    fn fold(&self, data: &[u64]) -> u64 {
        data.iter().fold(self.val, |a, b| a.wrapping_mul(31).wrapping_add(*b))
    }
    fn fill(&self, out: &mut [u64]) {
        for (i, o) in out.iter_mut().enumerate() {
            *o = self.val + i as u64;
        }
    }
    fn feed(&self, mut cb: OpaqueCallback<u64>) -> usize {
        let mut n = 0;
        for v in self.heap.iter() {
            n += 1;
            if !cb.call(*v) {
                break;
            }
        }
        n
    }
    fn maybe(&self, v: Option<u64>) -> Result<u64, u32> {
        match v {
            Some(x) => Ok(x.wrapping_add(self.val)),
            None => Err(self.val as u32),
        }
    }
    fn take(self) -> u64 {
        self.val + self.heap.len() as u64
    }
}

impl Spawner for CounterImp {
    type C = CounterImp;
    fn spawn(&self, start: u64) -> CounterImp {
        CounterImp::new(self.val + start)
    }
}

impl Tagger for CounterImp {
    fn tag(&self) -> u64 {
        self.val ^ 0x5a5a
    }
}

macro_rules! variant {
    ($name:ident, { $($en:ident),* }) => {
        #[derive(Clone)]
        pub struct $name(pub CounterImp);
        impl Counter for $name {
            fn get(&self) -> u64 { self.0.get() }
            fn add(&mut self, v: u64) -> u64 { self.0.add(v) }
            fn label(&self) -> &str { self.0.label() }
            fn fold(&self, d: &[u64]) -> u64 { self.0.fold(d) }
            fn fill(&self, o: &mut [u64]) { self.0.fill(o) }
            fn feed(&self, cb: OpaqueCallback<u64>) -> usize { self.0.feed(cb) }
            fn maybe(&self, v: Option<u64>) -> Result<u64, u32> { self.0.maybe(v) }
            fn take(self) -> u64 { self.0.take() }
        }
        impl Spawner for $name { type C = CounterImp; fn spawn(&self, s: u64) -> CounterImp { self.0.spawn(s) } }
        impl Tagger for $name { fn tag(&self) -> u64 { self.0.tag() } }
        cglue_impl_group!($name, Bundle, { $($en),* });
    };
}
variant!(B0, {});
variant!(B1, { Spawner });
variant!(B2, { Tagger, Clone });
variant!(B3, { Spawner, Tagger, Clone });

pub type Ctx = cglue::arc::CArc<cglue::trait_group::c_void>;
