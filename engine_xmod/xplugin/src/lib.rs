//! The plugin side of the C05 harness. `imp::*` are the implementations (linked statically into the host as
//! the single-module reference); `export_all!()` turns them into the `#[no_mangle] extern "C"` surface
//! of the cdylib.

pub mod imp {
    use cglue::arc::CArc;
    use cglue::boxed::{CBox, CSliceBox};
    use cglue::callback::OpaqueCallback;
    use cglue::iter::CIterator;
    use cglue::vec::CVec;
    use cglue::*;
    use xapi::*;

    pub extern "C" fn make_counter(start: u64, ctx: Ctx) -> CounterArcBox<'static> {
        trait_obj!((CounterImp::new(start), ctx) as Counter)
    }

    pub extern "C" fn make_bundle(start: u64, ctx: Ctx, mask: u32) -> BundleArcBox<'static> {
        match mask & 3 {
            0 => group_obj!((B0(CounterImp::new(start)), ctx) as Bundle),
            1 => group_obj!((B1(CounterImp::new(start)), ctx) as Bundle),
            2 => group_obj!((B2(CounterImp::new(start)), ctx) as Bundle),
            _ => group_obj!((B3(CounterImp::new(start)), ctx) as Bundle),
        }
    }

    pub extern "C" fn make_vec(n: u64, spare: u64) -> CVec<u64> {
        let mut v: Vec<u64> = Vec::with_capacity((n + spare) as usize);
        v.extend(1..=n);
        v.into()
    }

    pub extern "C" fn make_vec_tracked(n: u64) -> CVec<Tracked> {
        (1..=n).map(Tracked::new).collect::<Vec<_>>().into()
    }

    pub extern "C" fn make_slicebox(n: u64) -> CSliceBox<'static, Tracked> {
        (1..=n).map(Tracked::new).collect::<Vec<_>>().into_boxed_slice().into()
    }

    pub extern "C" fn make_cbox(v: u64) -> CBox<'static, Tracked> {
        CBox::from(Tracked::new(v))
    }

    pub extern "C" fn make_arc(v: u64) -> CArc<Tracked> {
        CArc::from(Tracked::new(v))
    }

    /// operate on a vector that may have been created by the other module: grow it, shrink it, drop it
    pub extern "C" fn use_vec(mut v: CVec<u64>, script: u32) -> u64 {
        let mut h = v.len() as u64;
        for k in 0..4 {
            match (script >> (2 * k)) & 3 {
                0 => {}
                1 => {
                    for i in 0..9 {
                        v.push(100 + i);
                    }
                }
                2 => {
                    h = h.wrapping_mul(31).wrapping_add(v.pop().unwrap_or(7));
                }
                _ => v.reserve(40),
            }
        }
        for x in v.iter() {
            h = h.wrapping_mul(31).wrapping_add(*x);
        }
        h.wrapping_mul(31).wrapping_add(v.len() as u64)
    }

    pub extern "C" fn use_vec_tracked(mut v: CVec<Tracked>, script: u32) -> u64 {
        let mut h = v.len() as u64;
        if script & 1 != 0 {
            v.push(Tracked::new(77));
        }
        if script & 2 != 0 {
            h = h.wrapping_mul(31).wrapping_add(v.pop().map(|t| t.val).unwrap_or(3));
        }
        if script & 4 != 0 && !v.is_empty() {
            let t = v.remove(0);
            h = h.wrapping_mul(31).wrapping_add(t.val);
        }
        for x in v.iter() {
            h = h.wrapping_mul(31).wrapping_add(x.val);
        }
        h
    }

    /// operate on an object that may have been created by the other module, then consume or drop it
    pub extern "C" fn use_counter(mut o: CounterArcBox<'static>, script: u32) -> u64 {
        let mut h = o.get();
        if script & 1 != 0 {
            h = h.wrapping_mul(31).wrapping_add(o.add(5));
        }
        if script & 2 != 0 {
            h = h.wrapping_mul(31).wrapping_add(o.fold(&[1, 2, 3]));
            h = h.wrapping_mul(31).wrapping_add(o.label().len() as u64);
        }
        if script & 4 != 0 {
            let mut got = Vec::new();
            let n = o.feed((&mut got).into());
            h = h.wrapping_mul(31).wrapping_add(n as u64 + got.iter().sum::<u64>());
        }
        if script & 8 != 0 {
            h.wrapping_mul(31).wrapping_add(o.take())
        } else {
            drop(o);
            h
        }
    }

    pub extern "C" fn use_bundle(o: BundleArcBox<'static>, script: u32) -> u64 {
        let mut h = o.get();
        h = h.wrapping_mul(31).wrapping_add(o.check_impl_spawner() as u64 + 2 * o.check_impl_tagger() as u64 + 4 * o.check_impl_clone() as u64);
        if script & 1 != 0 {
            if let Some(s) = as_ref!(o impl Spawner) {
                let c = s.spawn(9);
                h = h.wrapping_mul(31).wrapping_add(c.get());
            }
        }
        if script & 2 != 0 {
            if let Some(c) = as_ref!(o impl Clone) {
                let d = c.clone();
                h = h.wrapping_mul(31).wrapping_add(d.get());
            }
        }
        if script & 4 != 0 {
            match cast!(o impl Tagger) {
                Some(t) => {
                    h = h.wrapping_mul(31).wrapping_add(t.tag());
                    let back = t.upcast();
                    h = h.wrapping_mul(31).wrapping_add(back.get());
                }
                None => h = h.wrapping_mul(31),
            }
        } else if script & 8 != 0 {
            h = h.wrapping_mul(31).wrapping_add(o.take());
        }
        h
    }

    pub extern "C" fn use_cbox(b: CBox<'static, Tracked>) -> u64 {
        b.val
    }

    pub extern "C" fn use_slicebox(b: CSliceBox<'static, Tracked>) -> u64 {
        b.iter().map(|t| t.val).sum::<u64>() + 1000 * b.len() as u64
    }

    pub extern "C" fn use_arc(a: CArc<Tracked>, clones: u32) -> u64 {
        let mut v = Vec::new();
        for _ in 0..clones {
            v.push(a.clone());
        }
        let r = a.as_ref().map(|t| t.val).unwrap_or(0);
        drop(v);
        r
    }

    pub extern "C" fn feed(mut cb: OpaqueCallback<u64>, n: u64) -> usize {
        let mut k = 0;
        for i in 0..n {
            k += 1;
            if !cb.call(i * 3) {
                break;
            }
        }
        k
    }

    pub extern "C" fn sum(it: CIterator<u64>) -> u64 {
        it.fold(0u64, |a, b| a.wrapping_mul(7).wrapping_add(b))
    }

    pub extern "C" fn live() -> i64 {
        xapi::LIVE.load(std::sync::atomic::Ordering::SeqCst)
    }

    pub extern "C" fn alloc_stats(out: &mut [u64; 4]) {
        *out = xapi::tagalloc::stats();
    }

    /// hash of size/align/offsets of the types that cross the boundary, as this module's compiler sees them
    pub extern "C" fn layout_sig() -> u64 {
        use std::mem::{align_of, size_of};
        let items: [(usize, usize); 8] = [
            (size_of::<CounterArcBox>(), align_of::<CounterArcBox>()),
            (size_of::<BundleArcBox>(), align_of::<BundleArcBox>()),
            (size_of::<CVec<u64>>(), align_of::<CVec<u64>>()),
            (size_of::<CSliceBox<Tracked>>(), align_of::<CSliceBox<Tracked>>()),
            (size_of::<CBox<Tracked>>(), align_of::<CBox<Tracked>>()),
            (size_of::<CArc<Tracked>>(), align_of::<CArc<Tracked>>()),
            (size_of::<OpaqueCallback<u64>>(), align_of::<OpaqueCallback<u64>>()),
            (size_of::<Tracked>(), align_of::<Tracked>()),
        ];
        let mut h = 0xcbf29ce484222325u64;
        for (a, b) in items {
            h = (h ^ a as u64).wrapping_mul(0x100000001b3);
            h = (h ^ b as u64).wrapping_mul(0x100000001b3);
        }
        h
    }
}

/// Function table used by the host: filled from `imp::*` (single-module reference) or from the symbols of
/// the loaded shared object.
#[repr(C)]
#[derive(Clone, Copy)]
pub struct Api {
    pub make_counter: extern "C" fn(u64, xapi::Ctx) -> xapi::CounterArcBox<'static>,
    pub make_bundle: extern "C" fn(u64, xapi::Ctx, u32) -> xapi::BundleArcBox<'static>,
    pub make_vec: extern "C" fn(u64, u64) -> cglue::vec::CVec<u64>,
    pub make_vec_tracked: extern "C" fn(u64) -> cglue::vec::CVec<xapi::Tracked>,
    pub make_slicebox: extern "C" fn(u64) -> cglue::boxed::CSliceBox<'static, xapi::Tracked>,
    pub make_cbox: extern "C" fn(u64) -> cglue::boxed::CBox<'static, xapi::Tracked>,
    pub make_arc: extern "C" fn(u64) -> cglue::arc::CArc<xapi::Tracked>,
    pub use_vec: extern "C" fn(cglue::vec::CVec<u64>, u32) -> u64,
    pub use_vec_tracked: extern "C" fn(cglue::vec::CVec<xapi::Tracked>, u32) -> u64,
    pub use_counter: extern "C" fn(xapi::CounterArcBox<'static>, u32) -> u64,
    pub use_bundle: extern "C" fn(xapi::BundleArcBox<'static>, u32) -> u64,
    pub use_cbox: extern "C" fn(cglue::boxed::CBox<'static, xapi::Tracked>) -> u64,
    pub use_slicebox: extern "C" fn(cglue::boxed::CSliceBox<'static, xapi::Tracked>) -> u64,
    pub use_arc: extern "C" fn(cglue::arc::CArc<xapi::Tracked>, u32) -> u64,
    pub feed: extern "C" fn(cglue::callback::OpaqueCallback<u64>, u64) -> usize,
    pub sum: extern "C" fn(cglue::iter::CIterator<u64>) -> u64,
    pub live: extern "C" fn() -> i64,
    pub alloc_stats: extern "C" fn(&mut [u64; 4]),
    pub layout_sig: extern "C" fn() -> u64,
}

pub fn local_api() -> Api {
    Api {
        make_counter: imp::make_counter,
        make_bundle: imp::make_bundle,
        make_vec: imp::make_vec,
        make_vec_tracked: imp::make_vec_tracked,
        make_slicebox: imp::make_slicebox,
        make_cbox: imp::make_cbox,
        make_arc: imp::make_arc,
        use_vec: imp::use_vec,
        use_vec_tracked: imp::use_vec_tracked,
        use_counter: imp::use_counter,
        use_bundle: imp::use_bundle,
        use_cbox: imp::use_cbox,
        use_slicebox: imp::use_slicebox,
        use_arc: imp::use_arc,
        feed: imp::feed,
        sum: imp::sum,
        live: imp::live,
        alloc_stats: imp::alloc_stats,
        layout_sig: imp::layout_sig,
    }
}

/// the whole table behind one exported symbol
pub extern "C" fn api_table() -> Api {
    local_api()
}
