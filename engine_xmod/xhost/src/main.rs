//! C05 host: loads the separately built plugin and replays lifecycle histories with creation on one side and
//! use / clone / cast / consume / drop on the other; every history is also run against the statically linked
//! copy of the same plugin code (single-module reference) and the observations must agree.

#[global_allocator]
static ALLOC: xapi::tagalloc::TagAlloc = xapi::tagalloc::TagAlloc { tag: 1 };

use cglue::arc::CArc;
use cglue::boxed::{CBox, CSliceBox};
use cglue::trait_group::Opaquable;
use cglue::vec::CVec;
use cglue::*;
use explore::driver::{CheckDef, Section};
use explore::{digest, hist, CaseOut, Cx, HistSut, StepOut, Tier};
use serde::{Deserialize, Serialize};
use serde_json::{json, Value};
use std::sync::atomic::Ordering::SeqCst;
use std::sync::Arc;
use xapi::*;
use xplugin::Api;

enum Ent {
    Counter(CounterArcBox<'static>),
    Bundle(BundleArcBox<'static>),
    VecU(CVec<u64>),
    VecT(CVec<Tracked>),
    Slice(CSliceBox<'static, Tracked>),
    Boxed(CBox<'static, Tracked>),
    Arc(CArc<Tracked>),
}

#[derive(Clone, Copy, Debug, Serialize, Deserialize, PartialEq, Eq, Hash, PartialOrd, Ord)]
enum Kind {
    Counter,
    Bundle(u8),
    /// empty vector that never allocated (capacity 0)
    VecEmpty,
    VecU,
    VecT,
    Slice,
    Boxed,
    Arc,
}

#[derive(Clone, Copy, Debug, Serialize, Deserialize, PartialEq, Eq, Hash)]
enum Op {
    /// created by the module under test (the plugin; in the reference run its statically linked copy)
    CreateP(Kind),
    /// created by the host's own code
    CreateH(Kind),
    /// non-consuming use by host code
    Use(usize),
    /// clone in the host (arc handles, bundles that enable Clone), child object through Spawner
    Clone(usize),
    Spawn(usize),
    /// consuming call made by host code (Counter::take)
    Take(usize),
    /// hand the value to the module under test, which uses and then consumes/drops it
    Hand(usize, u32),
    /// drop in the host
    Drop(usize),
    /// the module under test feeds a host callback / drains a host iterator
    Feed(u64, u64),
    Sum(u64),
}

struct Sut {
    remote: Api,
    local: Api,
    max_pool: usize,
}

fn host_stats() -> [u64; 4] {
    xapi::tagalloc::stats()
}

type V<T> = Result<T, (String, String)>;

struct RunOut {
    obs: Vec<u64>,
    kinds: Vec<Kind>,
}

impl Sut {
    fn enabled(&self, kinds: &[Kind]) -> Vec<Op> {
        let mut v = Vec::new();
        if kinds.len() < self.max_pool {
            for k in [Kind::Counter, Kind::Bundle(0), Kind::Bundle(1), Kind::Bundle(2), Kind::Bundle(3), Kind::VecEmpty, Kind::VecU, Kind::VecT, Kind::Slice, Kind::Boxed, Kind::Arc] {
                v.push(Op::CreateP(k));
            }
            for k in [Kind::Counter, Kind::Bundle(3), Kind::VecEmpty, Kind::VecU, Kind::VecT, Kind::Slice, Kind::Boxed, Kind::Arc] {
                v.push(Op::CreateH(k));
            }
        }
        for (i, k) in kinds.iter().enumerate() {
            v.push(Op::Use(i));
            match k {
                Kind::Counter => {
                    v.push(Op::Take(i));
                    for s in [0u32, 3, 4, 15] {
                        v.push(Op::Hand(i, s));
                    }
                }
                Kind::Bundle(m) => {
                    if kinds.len() < self.max_pool {
                        if m & 2 != 0 {
                            v.push(Op::Clone(i));
                        }
                    }
                    if m & 1 != 0 {
                        v.push(Op::Spawn(i));
                    }
                    for s in [0u32, 3, 4, 8] {
                        v.push(Op::Hand(i, s));
                    }
                }
                Kind::VecU | Kind::VecEmpty => {
                    for s in [0u32, 0b01, 0b1001, 0b11, 0b100111] {
                        v.push(Op::Hand(i, s));
                    }
                }
                Kind::VecT => {
                    for s in [0u32, 1, 2, 7] {
                        v.push(Op::Hand(i, s));
                    }
                }
                Kind::Arc => {
                    if kinds.len() < self.max_pool {
                        v.push(Op::Clone(i));
                    }
                    v.push(Op::Hand(i, 0));
                    v.push(Op::Hand(i, 2));
                }
                _ => v.push(Op::Hand(i, 0)),
            }
            v.push(Op::Drop(i));
        }
        v.push(Op::Feed(4, 0));
        v.push(Op::Feed(4, 2));
        v.push(Op::Sum(0));
        v.push(Op::Sum(3));
        v
    }

    /// One run of the history against `api`. `remote`: counters of the plugin are checked too.
    fn exec(&self, hist: &[Op], api: &Api, remote: bool) -> V<RunOut> {
        let arc = Arc::new(7u64);
        let mk_ctx = |a: &Arc<u64>| -> Ctx { CArc::<u64>::from(a.clone()).into_opaque() };
        let mut ents: Vec<(Ent, Kind)> = Vec::new();
        let mut obs = Vec::new();
        let host_live0 = xapi::LIVE.load(SeqCst);
        let plug_live0 = (api.live)();
        let host_stats0 = host_stats();
        let mut plug_stats0 = [0u64; 4];
        (api.alloc_stats)(&mut plug_stats0);
        let mut val = 10u64;
        for (step, op) in hist.iter().enumerate() {
            let at = |w: &str| format!("step {} {:?}: {}", step, op, w);
            val += 10;
            let o: u64 = match *op {
                Op::CreateP(k) | Op::CreateH(k) => {
                    let a = if matches!(op, Op::CreateP(_)) { api } else { &self.local };
                    let e = match k {
                        Kind::Counter => Ent::Counter((a.make_counter)(val, mk_ctx(&arc))),
                        Kind::Bundle(m) => Ent::Bundle((a.make_bundle)(val, mk_ctx(&arc), m as u32)),
                        Kind::VecEmpty => Ent::VecU((a.make_vec)(0, 0)),
                        Kind::VecU => Ent::VecU((a.make_vec)(3, if val % 20 == 0 { 0 } else { 2 })),
                        Kind::VecT => Ent::VecT((a.make_vec_tracked)(2)),
                        Kind::Slice => Ent::Slice((a.make_slicebox)(2)),
                        Kind::Boxed => Ent::Boxed((a.make_cbox)(val)),
                        Kind::Arc => Ent::Arc((a.make_arc)(val)),
                    };
                    ents.push((e, k));
                    1
                }
                Op::Use(i) => match &mut ents[i].0 {
                    Ent::Counter(c) => {
                        let mut got: Vec<u64> = Vec::new();
                        let n = c.feed((&mut got).into());
                        let mut buf = [0u64; 3];
                        c.fill(&mut buf[..2]);
                        digest(&(c.get(), c.add(3), c.label().to_string(), c.fold(&[4, 5]), n as u64, got, buf, c.maybe(Some(2)), c.maybe(None)))
                    }
                    Ent::Bundle(b) => {
                        let t = as_ref!(b impl Tagger).map(|t| t.tag());
                        let both = as_ref!(b impl Spawner + Tagger).map(|t| t.tag());
                        digest(&(b.get(), b.add(1), b.check_impl_spawner(), b.check_impl_tagger(), b.check_impl_clone(), t, both))
                    }
                    Ent::VecU(v) => {
                        // growing here runs the reserve function of the module that created the vector
                        for k in 0..6 {
                            v.push(50 + k);
                        }
                        let p = v.pop();
                        v.insert(1, 99);
                        let r = v.remove(0);
                        digest(&(v.to_vec(), p, r, v.len() as u64))
                    }
                    Ent::VecT(v) => {
                        v.push(Tracked::new(5));
                        let p = v.pop().map(|t| t.val);
                        digest(&(v.iter().map(|t| t.val).collect::<Vec<_>>(), p))
                    }
                    Ent::Slice(s) => digest(&s.iter().map(|t| t.val).collect::<Vec<_>>()),
                    Ent::Boxed(b) => b.val,
                    Ent::Arc(a) => {
                        // round trip through the non-optional form: the handle must keep the functions of its creator
                        let taken = a.take();
                        let v0 = taken.as_ref().map(|t| t.val).unwrap_or(0);
                        let some = match taken.transpose() {
                            Some(s) => s,
                            None => return Err(("xmod:arc_transpose".into(), at("transpose of a non-empty CArc gave None"))),
                        };
                        let c = some.clone();
                        let back = some.transpose();
                        let v1 = c.val;
                        drop(c);
                        *a = back;
                        digest(&(v0, v1, a.as_ref().map(|t| t.val)))
                    }
                },
                Op::Clone(i) => {
                    let (e, k) = match &ents[i] {
                        (Ent::Arc(a), k) => (Ent::Arc(a.clone()), *k),
                        (Ent::Bundle(b), k) => {
                            let c = match as_ref!(b impl Clone) {
                                Some(c) => c.clone(),
                                None => return Err(("xmod:cast".into(), at("as_ref!(impl Clone) failed although the type enables Clone"))),
                            };
                            // the clone keeps only Clone + mandatory: observe it, then let it go
                            let d = c.get();
                            drop(c);
                            obs.push(d);
                            continue;
                        }
                        _ => unreachable!(),
                    };
                    ents.push((e, k));
                    2
                }
                Op::Spawn(i) => {
                    // the child is created by the group's module, used and released here
                    match &ents[i].0 {
                        Ent::Bundle(b) => match as_ref!(b impl Spawner) {
                            Some(s) => {
                                let mut child = s.spawn(val);
                                let mut got: Vec<u64> = Vec::new();
                                let n = child.feed((&mut got).into());
                                let d = digest(&(child.get(), child.add(2), n as u64, got));
                                if val % 20 == 0 {
                                    digest(&(d, child.take()))
                                } else {
                                    drop(child);
                                    d
                                }
                            }
                            None => return Err(("xmod:cast".into(), at("as_ref!(impl Spawner) failed although the type enables Spawner"))),
                        },
                        _ => unreachable!(),
                    }
                }
                Op::Take(i) => {
                    let (e, _) = ents.remove(i);
                    match e {
                        Ent::Counter(c) => c.take(),
                        _ => unreachable!(),
                    }
                }
                Op::Hand(i, s) => {
                    let (e, _) = ents.remove(i);
                    match e {
                        Ent::Counter(c) => (api.use_counter)(c, s),
                        Ent::Bundle(b) => (api.use_bundle)(b, s),
                        Ent::VecU(v) => (api.use_vec)(v, s),
                        Ent::VecT(v) => (api.use_vec_tracked)(v, s),
                        Ent::Slice(b) => (api.use_slicebox)(b),
                        Ent::Boxed(b) => (api.use_cbox)(b),
                        Ent::Arc(a) => (api.use_arc)(a, s),
                    }
                }
                Op::Drop(i) => {
                    let (e, _) = ents.remove(i);
                    drop(e);
                    3
                }
                Op::Feed(n, stop) => {
                    let mut got: Vec<u64> = Vec::new();
                    let mut f = |x: u64| {
                        got.push(x);
                        stop == 0 || (got.len() as u64) < stop
                    };
                    let k = (api.feed)((&mut f).into(), n);
                    digest(&(k as u64, got))
                }
                Op::Sum(n) => {
                    let mut it = (0..n).map(|x| x * x + 1);
                    (api.sum)((&mut it).into())
                }
            };
            obs.push(o);
            // ---- per-step invariants
            let hs = host_stats();
            let mut ps = [0u64; 4];
            (api.alloc_stats)(&mut ps);
            if hs[2] != host_stats0[2] || hs[3] != host_stats0[3] {
                return Err(("xmod:host_freed_foreign_block".into(), at("the host's allocator was asked to free a block it did not allocate (or with a different layout): memory of the other module was released on the wrong side")));
            }
            if remote && (ps[2] != plug_stats0[2] || ps[3] != plug_stats0[3]) {
                return Err(("xmod:plugin_freed_foreign_block".into(), at("the plugin's allocator was asked to free a block it did not allocate (or with a different layout)")));
            }
            let ctx_holders = ents.iter().filter(|e| matches!(e.0, Ent::Counter(_) | Ent::Bundle(_))).count();
            if Arc::strong_count(&arc) != 1 + ctx_holders {
                return Err(("xmod:ctx_count".into(), at(&format!("context strong count {} with {} live objects holding it", Arc::strong_count(&arc), ctx_holders))));
            }
            obs.push(digest(&(Arc::strong_count(&arc) as u64, xapi::LIVE.load(SeqCst) - host_live0 + if remote { (api.live)() - plug_live0 } else { 0 })));
        }
        let kinds: Vec<Kind> = ents.iter().map(|e| e.1).collect();
        drop(ents);
        if Arc::strong_count(&arc) != 1 {
            return Err(("xmod:ctx_not_released".into(), format!("teardown: context strong count {} after all objects are gone", Arc::strong_count(&arc))));
        }
        let hl = xapi::LIVE.load(SeqCst) - host_live0;
        let pl = if remote { (api.live)() - plug_live0 } else { 0 };
        if hl != 0 || pl != 0 {
            return Err(("xmod:live_instances".into(), format!("teardown: live payload instances host {:+} plugin {:+} (must both be 0)", hl, pl)));
        }
        let hs = host_stats();
        let mut ps = [0u64; 4];
        (api.alloc_stats)(&mut ps);
        if hs[2] != host_stats0[2] || hs[3] != host_stats0[3] || (remote && (ps[2] != plug_stats0[2] || ps[3] != plug_stats0[3])) {
            return Err(("xmod:freed_on_wrong_side".into(), "teardown: a block was freed by the module that did not allocate it".into()));
        }
        if remote && (ps[0] - plug_stats0[0]) != (ps[1] - plug_stats0[1]) {
            return Err(("xmod:plugin_leak".into(), format!("teardown: plugin allocator: {} allocations, {} frees during this history", ps[0] - plug_stats0[0], ps[1] - plug_stats0[1])));
        }
        Ok(RunOut { obs, kinds })
    }
}

impl HistSut for Sut {
    type Op = Op;
    fn run(&self, hist: &[Op]) -> StepOut<Op> {
        let r = std::panic::catch_unwind(std::panic::AssertUnwindSafe(|| {
            let reference = self.exec(hist, &self.local, false)?;
            let remote = self.exec(hist, &self.remote, true)?;
            if reference.obs != remote.obs {
                let i = reference.obs.iter().zip(remote.obs.iter()).position(|(a, b)| a != b).unwrap_or(0);
                return Err(("xmod:observation".to_string(), format!("observation {} differs between the single-module reference and the two-module run (step {})", i, i / 2)));
            }
            Ok(remote)
        }));
        match r {
            Err(_) => StepOut { key: 0, enabled: vec![], obs: 0, violation: Some(("panic".into(), "panicked".into())) },
            Ok(Err(v)) => StepOut { key: 0, enabled: vec![], obs: 0, violation: Some(v) },
            Ok(Ok(out)) => {
                let mut sorted = out.kinds.clone();
                sorted.sort();
                StepOut { key: digest(&sorted), enabled: self.enabled(&out.kinds), obs: digest(&out.obs), violation: None }
            }
        }
    }
}

fn main() {
    // live-instance and allocator counters are process-global: histories must run one at a time
    std::env::set_var("RAYON_NUM_THREADS", "1");
    std::panic::set_hook(Box::new(|_| {}));
    let args: Vec<String> = std::env::args().collect();
    let plugin = args.iter().position(|a| a == "--plugin").map(|i| args[i + 1].clone()).expect("--plugin <path>");
    let pair = args.iter().position(|a| a == "--pair").map(|i| args[i + 1].clone()).unwrap_or_default();
    let pair: &'static str = Box::leak(pair.into_boxed_str());
    // the library stays loaded for the life of the process (objects created by it may be alive in any history)
    let lib: &'static libloading::Library = Box::leak(Box::new(unsafe { libloading::Library::new(&plugin).expect("load plugin") }));
    let table: libloading::Symbol<extern "C" fn() -> Api> = unsafe { lib.get(b"xmod_api_table").expect("symbol") };
    let remote: Api = table();
    let local = xplugin::local_api();
    let sig_ok = (remote.layout_sig)() == (local.layout_sig)();
    let mk = move |max_pool: usize| Sut { remote, local, max_pool };
    let sections = vec![
        Section {
            name: "histories_full",
            explore: Box::new(move |cx: &Cx| {
                let (pool, depth) = match cx.tier {
                    Tier::Quick => (2, 3),
                    Tier::Thorough => (3, 4),
                };
                cx.note("histories_full", "pair", json!(pair));
                cx.rule("histories_full", &format!("pair {}: all histories of length <= {} over {{create in plugin / in host: object, group (4 enabled sets), CVec<u64> (exact/spare capacity), CVec<payload>, boxed slice, CBox, CArc; use in host (calls with slices, strings, callbacks, out-buffers; vector growth through the creating module's reserve function; casts); clone; spawn child object; consuming call; hand over to the plugin which uses, grows, casts, consumes or drops it (scripts); drop in host; plugin feeds a host callback / drains a host iterator}} with a pool of <= {}; oracle: observations equal to the single-module reference run of the same history, no block freed by a module that did not allocate it (tagging allocators on both sides), no layout mismatch on free, context count == 1 + live objects, at teardown live payload counters 0 on both sides and plugin allocations == frees; the layout-signature hash of the boundary types must agree between the two compilers", pair, depth, pool));
                if !sig_ok {
                    cx.record("histories_full", || json!({"layout_sig": "mismatch"}), &CaseOut::bad("xmod:layout_sig", "size/alignment of the boundary types differ between host and plugin build"));
                }
                hist::full(&mk(pool), depth, cx, "histories_full");
            }),
            replay: Box::new(move |case: &Value| {
                let h: Vec<Op> = serde_json::from_value(case["history"].clone()).unwrap();
                let o = mk(6).run(&h);
                CaseOut { obs: o.obs, nontrivial: true, violation: o.violation }
            }),
        },
        Section {
            name: "histories_bfs",
            explore: Box::new(move |cx: &Cx| {
                let (pool, depth) = match cx.tier {
                    Tier::Quick => (2, 4),
                    Tier::Thorough => (3, 6),
                };
                cx.rule("histories_bfs", &format!("same alphabet, pool <= {}, BFS to depth {} with dedup on the sorted multiset of entry kinds", pool, depth));
                hist::bfs(&mk(pool), depth, cx, "histories_bfs", 300_000);
            }),
            replay: Box::new(move |case: &Value| {
                let h: Vec<Op> = serde_json::from_value(case["history"].clone()).unwrap();
                let o = mk(6).run(&h);
                CaseOut { obs: o.obs, nontrivial: true, violation: o.violation }
            }),
        },
    ];
    explore::run_main(CheckDef {
        property: "C05",
        level: "exploration",
        assumptions: vec![
            "both modules run on the same target ABI; unloading while another thread runs plugin code is not modelled".into(),
            "histories run sequentially in one process (counters are deltas per history)".into(),
        ],
        sections,
        no_isolation: false,
    });
}
