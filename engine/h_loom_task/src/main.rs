//! C19, concurrent half: the real `cglue/src/task/mod.rs` compiled against a loom-backed `tarc`
//! (no hook needed: the file names its reference-count type as `tarc::BaseArc`, and this crate's
//! dependency called `tarc` is the shim in ../tarc_shim). loom explores all interleavings of
//! threads that clone / wake / drop foreign-side wakers obtained inside one `with_waker` call.

#![allow(dead_code, unexpected_cfgs)]

#[path = "/repo/cglue/src/task/mod.rs"]
mod task;

use explore::driver::{CheckDef, Section};
use explore::{CaseOut, Cx, Tier};
use loom::sync::atomic::{AtomicI64, AtomicU64, Ordering::SeqCst};
use serde_json::{json, Value};
use std::task::{RawWaker, RawWakerVTable, Waker};
use task::CRefWaker;

struct Slot {
    refs: AtomicI64,
    wakes: AtomicU64,
    /// lowest value the count may reach: 1 while the caller keeps its own handle for the whole run, 0 in the
    /// scenarios where the caller drops it concurrently
    floor: i64,
    released: AtomicU64,
}

fn touch(s: &Slot, what: &str) {
    assert!(s.released.load(SeqCst) == 0, "{} on the caller's waker after its last reference had been released", what);
}

fn dec(s: &Slot) {
    touch(s, "release");
    let now = s.refs.fetch_sub(1, SeqCst) - 1;
    assert!(now >= s.floor, "the caller's waker was released more often than it was cloned (refcount {}, lowest legal value {})", now, s.floor);
    if now == 0 {
        s.released.store(1, SeqCst);
    }
}

static VT: RawWakerVTable = RawWakerVTable::new(
    |p| {
        let s = unsafe { &*(p as *const Slot) };
        touch(s, "clone");
        let before = s.refs.fetch_add(1, SeqCst);
        assert!(before >= 1, "clone of a released waker");
        RawWaker::new(p, &VT)
    },
    |p| {
        let s = unsafe { &*(p as *const Slot) };
        touch(s, "wake");
        s.wakes.fetch_add(1, SeqCst);
        dec(s);
    },
    |p| {
        let s = unsafe { &*(p as *const Slot) };
        touch(s, "wake_by_ref");
        assert!(s.refs.load(SeqCst) >= 1, "wake_by_ref on a released waker");
        s.wakes.fetch_add(1, SeqCst);
    },
    |p| {
        let s = unsafe { &*(p as *const Slot) };
        dec(s);
    },
);

#[derive(Clone, Copy, Debug)]
enum Act {
    Drop,
    Wake,
    WakeByRefDrop,
    CloneWakeDrop,
    CloneDropWake,
    CloneCloneDropAll,
    /// let go of the handle, then enter a NEW poll with the same caller waker (another thread polling the task again), retain
    /// the waker taken there, wake it by value
    DropRepollWake,
    /// the same, the new handle woken by reference and dropped
    RepollWakeByRefDropBoth,
}

/// the per-poll borrowed waker of the caller, usable from the worker threads (the caller's waker outlives them)
#[derive(Clone, Copy)]
struct SharedCref(CRefWaker<'static>);
unsafe impl Send for SharedCref {}

/// returns the number of wake operations performed
fn act(a: Act, w: Waker, cref: SharedCref) -> u64 {
    match a {
        Act::DropRepollWake => {
            drop(w);
            let h = cref.0.with_waker(|t| t.clone());
            h.wake();
            1
        }
        Act::RepollWakeByRefDropBoth => {
            let h = cref.0.with_waker(|t| t.clone());
            h.wake_by_ref();
            drop(w);
            drop(h);
            1
        }
        Act::Drop => {
            drop(w);
            0
        }
        Act::Wake => {
            w.wake();
            1
        }
        Act::WakeByRefDrop => {
            w.wake_by_ref();
            drop(w);
            1
        }
        Act::CloneWakeDrop => {
            let c = w.clone();
            c.wake();
            drop(w);
            1
        }
        Act::CloneDropWake => {
            let c = w.clone();
            drop(w);
            c.wake();
            1
        }
        Act::CloneCloneDropAll => {
            let c1 = w.clone();
            let c2 = c1.clone();
            drop(w);
            c2.wake_by_ref();
            drop(c1);
            drop(c2);
            1
        }
    }
}

/// (name, same_family, per-thread actions). same_family: the workers' wakers are clones of one
/// foreign-side waker (they share one CRawWaker); otherwise each is a separate cx.waker().clone().
const SCENARIOS: &[(&str, bool, &[Act])] = &[
    ("family_drop_vs_wake", true, &[Act::Drop, Act::Wake]),
    ("family_clonewake_vs_drop", true, &[Act::CloneWakeDrop, Act::Drop]),
    ("family_clonedropwake_vs_wakebyref", true, &[Act::CloneDropWake, Act::WakeByRefDrop]),
    ("family_three", true, &[Act::Wake, Act::CloneCloneDropAll, Act::Drop]),
    ("separate_wake_vs_clonewake", false, &[Act::Wake, Act::CloneWakeDrop]),
    ("separate_three", false, &[Act::Drop, Act::CloneDropWake, Act::WakeByRefDrop]),
    // a handle of the family is released while another thread polls the task again and takes a new handle
    ("family_lastdrop_vs_repoll", true, &[Act::Drop, Act::DropRepollWake]),
    ("family_wake_vs_repoll", true, &[Act::Wake, Act::RepollWakeByRefDropBoth]),
    ("separate_drop_vs_repoll", false, &[Act::Drop, Act::DropRepollWake]),
];

/// scenario index space: i < N as listed; i >= N = scenario i - N in which the caller drops its own waker
/// concurrently with the workers (a detached task: it lives on through the wakers it handed out)
fn scenario_name(idx: usize) -> String {
    let n = SCENARIOS.len();
    if idx < n { SCENARIOS[idx].0.to_string() } else { format!("{}_caller_drops", SCENARIOS[idx - n].0) }
}

fn run_scenario(idx: usize, bound: Option<usize>) -> u64 {
    let caller_drops = idx >= SCENARIOS.len();
    let (_n, family, acts) = SCENARIOS[idx % SCENARIOS.len()];
    let iters = std::sync::Arc::new(std::sync::atomic::AtomicU64::new(0));
    let it2 = iters.clone();
    let mut b = loom::model::Builder::new();
    b.preemption_bound = bound;
    b.check(move || {
        it2.fetch_add(1, std::sync::atomic::Ordering::Relaxed);
        let slot: &'static Slot = Box::leak(Box::new(Slot { refs: AtomicI64::new(1), wakes: AtomicU64::new(0), floor: if caller_drops { 0 } else { 1 }, released: AtomicU64::new(0) }));
        // (leaked: the worker threads may poll with it again; the caller's own handle is accounted for by `floor`)
        let caller: &'static Waker = Box::leak(Box::new(unsafe { Waker::from_raw(RawWaker::new(slot as *const Slot as *const (), &VT)) }));
        let cref: CRefWaker<'static> = CRefWaker::from(caller);
        let shared = SharedCref(cref);
        // inside the "poll": obtain the foreign-side wakers
        let handed: Vec<Waker> = cref.with_waker(|t| {
            if family {
                let first = t.clone();
                let mut v: Vec<Waker> = (1..acts.len()).map(|_| first.clone()).collect();
                v.push(first);
                v
            } else {
                acts.iter().map(|_| t.clone()).collect()
            }
        });
        let mut joins = Vec::new();
        for (a, w) in acts.iter().copied().zip(handed) {
            joins.push(loom::thread::spawn(move || act(a, w, shared)));
        }
        if caller_drops {
            // the caller lets go of its own handle (through the vtable) while the workers run
            drop(unsafe { std::ptr::read(caller) });
        }
        let mut wake_ops = 0;
        for j in joins {
            wake_ops += j.join().unwrap();
        }
        assert_eq!(slot.wakes.load(SeqCst), wake_ops, "caller woken a different number of times than wake operations were performed");
        if caller_drops {
            assert_eq!(slot.refs.load(SeqCst), 0, "the caller dropped its own waker: after all foreign-side wakers are gone nothing may hold it any more");
        } else {
            assert_eq!(slot.refs.load(SeqCst), 1, "after all foreign-side wakers are gone the caller's refcount must be back at its start value");
        }
        // the caller's own handle is never dropped through the vtable in the other scenarios (dec() asserts that the count
        // stays >= 1 for as long as the caller holds it)
    });
    iters.load(std::sync::atomic::Ordering::Relaxed)
}

fn child_run(idx: usize, bound: Option<usize>) -> (bool, u64, String) {
    let exe = std::env::current_exe().unwrap();
    let out = std::process::Command::new(exe).arg("--scenario").arg(idx.to_string()).arg("--bound").arg(bound.map(|b| b.to_string()).unwrap_or("none".into())).output().expect("spawn");
    let so = String::from_utf8_lossy(&out.stdout).to_string();
    let se = String::from_utf8_lossy(&out.stderr).to_string();
    let iters = so.lines().find_map(|l| l.strip_prefix("iterations=")).and_then(|v| v.parse().ok()).unwrap_or(0);
    let msg: String = se.lines().filter(|l| l.contains("panicked") || l.contains("caller") || l.contains("left") || l.contains("right") || l.contains("released")).take(6).collect::<Vec<_>>().join(" / ");
    (out.status.success(), iters, msg)
}

fn main() {
    let args: Vec<String> = std::env::args().collect();
    if let Some(p) = args.iter().position(|a| a == "--scenario") {
        let idx: usize = args[p + 1].parse().unwrap();
        let bound: Option<usize> = args.iter().position(|a| a == "--bound").and_then(|p| args[p + 1].parse().ok());
        println!("iterations={}", run_scenario(idx, bound));
        return;
    }
    let sections = vec![Section {
        name: "loom",
        explore: Box::new(|cx: &Cx| {
            let bound = match cx.tier {
                Tier::Quick => Some(3),
                Tier::Thorough => None,
            };
            cx.rule("loom", &format!("every interleaving (loom DPOR, preemption bound {:?}; None = unbounded) of 2-3 threads, each running a fixed list of clone/wake/wake_by_ref/drop on a foreign-side waker obtained inside one with_waker call — wakers of one family (sharing one CRawWaker) and separate clones — over the real task/mod.rs compiled against a loom-backed tarc::BaseArc; every scenario also with the caller dropping its own waker concurrently; oracle: caller's refcount never below 1 (0 when the caller drops), never touched after its last release, woken once per wake operation, refcount back to 1 (0) at the end; evaluations = schedules", bound));
            let mut total = 0;
            for i in 0..2 * SCENARIOS.len() {
                // no poll can follow once the caller has dropped its own waker: the re-polling scenarios have no such variant
                if i >= SCENARIOS.len() && SCENARIOS[i % SCENARIOS.len()].2.iter().any(|a| matches!(a, Act::DropRepollWake | Act::RepollWakeByRefDropBoth)) {
                    continue;
                }
                let name = &scenario_name(i);
                let (_, fam, acts) = &SCENARIOS[i % SCENARIOS.len()];
                let case = json!({"scenario": name, "index": i, "same_family": fam, "threads": format!("{:?}", acts), "preemption_bound": bound});
                let (ok, iters, msg) = child_run(i, bound);
                total += iters;
                cx.note("loom", &format!("schedules_{}", name), json!(iters));
                let out = if ok { CaseOut { obs: iters ^ (i as u64) << 48, nontrivial: true, violation: None } } else { CaseOut::bad(format!("loom:{}", name), format!("loom found a failing interleaving in scenario {}: {}", name, msg)) };
                cx.record("loom", || case, &out);
            }
            cx.add_states("loom", total, total, 0);
            cx.note("loom", "schedules_total", json!(total));
        }),
        replay: Box::new(|case: &Value| {
            let i = case["index"].as_u64().unwrap_or(0) as usize;
            let b = case["preemption_bound"].as_u64().map(|b| b as usize);
            let (ok, iters, msg) = child_run(i, b);
            if ok {
                CaseOut::ok(iters)
            } else {
                CaseOut::bad(format!("loom:{}", scenario_name(i)), msg)
            }
        }),
    }];
    explore::run_main(CheckDef {
        property: "C19",
        level: "model_checking",
        assumptions: vec!["the tarc shim (BaseArc over loom::sync::Arc) stands in for tarc's own atomics; weak-memory effects inside the real tarc are trusted".into()],
        sections,
        no_isolation: true,
    });
}
