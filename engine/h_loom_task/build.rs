fn main() {
    println!("cargo:rustc-check-cfg=cfg(feature, values(\"abi_stable\"))");
    println!("cargo:rerun-if-changed=/repo/cglue/src/task/mod.rs");
}
