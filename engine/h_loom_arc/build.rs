fn main() {
    // the hook guard is set for this crate only; it #[path]-includes /repo/cglue/src/arc.rs
    println!("cargo:rustc-cfg=h33p_cglue_verif");
    println!("cargo:rustc-check-cfg=cfg(h33p_cglue_verif)");
    println!("cargo:rustc-check-cfg=cfg(feature, values(\"abi_stable\"))");
    println!("cargo:rerun-if-changed=/repo/cglue/src/arc.rs");
}
