//! C10, concurrent half: the real `cglue/src/arc.rs`, compiled against `loom::sync::Arc`
//! (hook `h33p_cglue_verif`), explored over all interleavings up to a preemption bound.
//!
//! Each scenario runs in its own process (a loom failure panics / aborts); the parent turns a failing
//! scenario into a violation record whose replay is the scenario itself (loom is deterministic).

#![allow(dead_code, unexpected_cfgs)]

#[path = "/repo/cglue/src/arc.rs"]
mod arc;

/// what arc.rs imports from the crate root
mod trait_group {
    pub use cglue::trait_group::{c_void, Opaquable};
}

use arc::{CArc, CArcSome};
use explore::driver::{CheckDef, Section};
use explore::{CaseOut, Cx, Tier};
use loom::sync::atomic::{AtomicUsize, Ordering};
use loom::sync::Arc;
use serde_json::{json, Value};
use trait_group::Opaquable;

struct Payload {
    drops: Arc<AtomicUsize>,
    value: u64,
}

impl Drop for Payload {
    fn drop(&mut self) {
        self.drops.fetch_add(1, Ordering::SeqCst);
    }
}

fn alive(h: &CArcSome<Payload>, drops: &Arc<AtomicUsize>) {
    assert_eq!(drops.load(Ordering::SeqCst), 0, "payload dropped while a handle is alive");
    assert_eq!(h.value, 42, "handle reads a different value");
}

/// One per-thread operation list on a private handle.
#[derive(Clone, Copy, Debug)]
enum Act {
    CloneDrop,
    DropOnly,
    TakeDrop,
    TransposeTwiceDrop,
    OpaqueCloneDrop,
    CloneCloneDropDrop,
}

fn act(a: Act, h: CArcSome<Payload>, drops: &Arc<AtomicUsize>) {
    match a {
        Act::DropOnly => {
            alive(&h, drops);
            drop(h);
        }
        Act::CloneDrop => {
            let c = h.clone();
            alive(&c, drops);
            drop(h);
            alive(&c, drops);
            drop(c);
        }
        Act::TakeDrop => {
            let mut a: CArc<Payload> = h.transpose();
            let b = a.take();
            assert!(a.as_ref().is_none());
            drop(a);
            assert_eq!(drops.load(Ordering::SeqCst), 0);
            assert_eq!(b.as_ref().unwrap().value, 42);
            drop(b);
        }
        Act::TransposeTwiceDrop => {
            let a: CArc<Payload> = h.transpose();
            let c = a.clone();
            let s = a.transpose().expect("non-empty");
            alive(&s, drops);
            drop(c);
            alive(&s, drops);
            drop(s);
        }
        Act::OpaqueCloneDrop => {
            let o = h.into_opaque();
            let c = o.clone();
            drop(o);
            assert_eq!(drops.load(Ordering::SeqCst), 0);
            drop(c);
        }
        Act::CloneCloneDropDrop => {
            let c1 = h.clone();
            let c2 = c1.clone();
            drop(c1);
            alive(&c2, drops);
            drop(h);
            alive(&c2, drops);
            drop(c2);
        }
    }
}

const SCENARIOS: &[(&str, &[Act])] = &[
    ("clone_vs_drop", &[Act::CloneDrop, Act::DropOnly]),
    ("take_vs_clone", &[Act::TakeDrop, Act::CloneDrop]),
    ("transpose_vs_opaque", &[Act::TransposeTwiceDrop, Act::OpaqueCloneDrop]),
    ("three_way", &[Act::CloneDrop, Act::TakeDrop, Act::OpaqueCloneDrop]),
    ("clone_chain_vs_transpose", &[Act::CloneCloneDropDrop, Act::TransposeTwiceDrop]),
    ("three_way_drops", &[Act::DropOnly, Act::CloneCloneDropDrop, Act::DropOnly]),
];

/// scenario index space: i < N = with a retained loom Arc (the count is observable, the payload goes with
/// the retained Arc); i >= N = scenario i - N where the handles are the only owners (created by
/// From<T>), so that one of the concurrently released handles has to destroy the payload
fn scenario_name(idx: usize) -> String {
    let n = SCENARIOS.len();
    if idx < n { SCENARIOS[idx].0.to_string() } else { format!("{}_handles_only", SCENARIOS[idx - n].0) }
}

fn run_scenario(idx: usize, bound: Option<usize>) -> u64 {
    let owned = idx >= SCENARIOS.len();
    let (_name, acts) = SCENARIOS[idx % SCENARIOS.len()];
    let iters = std::sync::Arc::new(std::sync::atomic::AtomicU64::new(0));
    let it2 = iters.clone();
    let mut b = loom::model::Builder::new();
    b.preemption_bound = bound;
    b.check(move || {
        it2.fetch_add(1, std::sync::atomic::Ordering::Relaxed);
        let drops = Arc::new(AtomicUsize::new(0));
        let retained = if owned { None } else { Some(Arc::new(Payload { drops: drops.clone(), value: 42 })) };
        // the main thread's handle, created through From<Arc> / From<T>
        let root: CArcSome<Payload> = match &retained {
            Some(r) => CArcSome::from(r.clone()),
            None => CArcSome::from(Payload { drops: drops.clone(), value: 42 }),
        };
        let mut joins = Vec::new();
        for a in acts.iter().copied() {
            let h = root.clone();
            let d = drops.clone();
            joins.push(loom::thread::spawn(move || act(a, h, &d)));
        }
        // the main thread drops its own handle concurrently with the workers
        alive(&root, &drops);
        drop(root);
        for j in joins {
            j.join().unwrap();
        }
        if let Some(retained) = retained {
            assert_eq!(drops.load(Ordering::SeqCst), 0, "payload dropped although the retained Arc exists");
            assert_eq!(Arc::strong_count(&retained), 1, "strong count after all handles are gone");
            drop(retained);
        }
        assert_eq!(drops.load(Ordering::SeqCst), 1, "payload must be dropped exactly once, when the last handle goes away");
    });
    iters.load(std::sync::atomic::Ordering::Relaxed)
}

fn child_run(idx: usize, bound: Option<usize>) -> (bool, u64, String) {
    let exe = std::env::current_exe().unwrap();
    let out = std::process::Command::new(exe).arg("--scenario").arg(idx.to_string()).arg("--bound").arg(bound.map(|b| b.to_string()).unwrap_or("none".into())).output().expect("spawn");
    let so = String::from_utf8_lossy(&out.stdout).to_string();
    let se = String::from_utf8_lossy(&out.stderr).to_string();
    let iters = so.lines().find_map(|l| l.strip_prefix("iterations=")).and_then(|v| v.parse().ok()).unwrap_or(0);
    let msg: String = se.lines().filter(|l| l.contains("panicked") || l.contains("assert") || l.contains("left") || l.contains("right") || l.contains("payload") || l.contains("strong")).take(6).collect::<Vec<_>>().join(" / ");
    (out.status.success(), iters, msg)
}

fn main() {
    let args: Vec<String> = std::env::args().collect();
    if let Some(p) = args.iter().position(|a| a == "--scenario") {
        let idx: usize = args[p + 1].parse().unwrap();
        let bound: Option<usize> = args.iter().position(|a| a == "--bound").and_then(|p| args[p + 1].parse().ok());
        let n = run_scenario(idx, bound);
        println!("iterations={}", n);
        return;
    }
    let sections = vec![Section {
        name: "loom",
        explore: Box::new(|cx: &Cx| {
            let bound = match cx.tier {
                Tier::Quick => Some(3),
                Tier::Thorough => None,
            };
            cx.rule("loom", &format!("every interleaving (loom DPOR, preemption bound {:?}; None = unbounded) of 2-3 worker threads plus the main thread, each running a fixed operation list (clone, drop, take, transpose both ways, into_opaque) on its own handle to one shared allocation, over the real arc.rs compiled against loom::sync::Arc; every scenario twice: with a retained Arc (final strong count observable) and with the handles as the only owners (root from From<T>; the payload must be destroyed by whichever handle is released last); oracle: payload never dropped while a handle is alive, every handle reads the value, final strong count 1, payload dropped exactly once; evaluations = schedules executed", bound));
            let mut total = 0u64;
            for i in 0..2 * SCENARIOS.len() {
                let name = &scenario_name(i);
                let acts = SCENARIOS[i % SCENARIOS.len()].1;
                let case = json!({"scenario": name, "index": i, "threads": format!("{:?}", acts), "preemption_bound": bound});
                let (ok, iters, msg) = child_run(i, bound);
                total += iters;
                cx.note("loom", &format!("schedules_{}", name), json!(iters));
                let out = if ok {
                    CaseOut { obs: iters ^ (i as u64) << 48, nontrivial: true, violation: None }
                } else {
                    CaseOut::bad(format!("loom:{}", name), format!("loom found a failing interleaving in scenario {}: {}", name, msg))
                };
                cx.record("loom", || case, &out);
            }
            cx.add_states("loom", total, total, 0);
            cx.note("loom", "schedules_total", json!(total));
        }),
        replay: Box::new(|case: &Value| {
            let i = case["index"].as_u64().unwrap_or(0) as usize;
            let b = case["preemption_bound"].as_u64().map(|b| b as usize);
            let (ok, iters, msg) = child_run(i, b);
            if ok {
                CaseOut::ok(iters)
            } else {
                CaseOut::bad(format!("loom:{}", scenario_name(i)), msg)
            }
        }),
    }];
    explore::run_main(CheckDef {
        property: "C10",
        level: "model_checking",
        assumptions: vec!["loom's model of Arc / atomics (sequentially consistent exploration plus its C11 model); weak-memory effects inside the real std::sync::Arc are trusted to std".into()],
        sections,
        no_isolation: true,
    });
}
