//! Support + differential harness shared by the generated shard crates (hs_*) and the object bins.
#[global_allocator]
static GLOBAL: instr::TrackAlloc = instr::TrackAlloc;

pub mod support;
#[macro_use]
pub mod harness;
