//! Support code shared by the generated object harnesses: the stateful implementor, digests,
//! pointer bookkeeping and the observation record that is compared between a direct call sequence and
//! the same sequence made through an opaque cglue object.

use std::cell::RefCell;
use std::sync::{Arc, Mutex};

pub use explore::digest;
pub use instr::{alloc, DcHeap, DropScope};

/// By-value `#[repr(C)]` struct used as an argument / return shape.
#[repr(C)]
#[derive(Clone, Copy, Debug, PartialEq, Eq, Hash)]
pub struct S3 {
    pub a: u8,
    pub b: u16,
    pub c: u64,
}

/// Zero-sized slice element.
#[repr(C)]
#[derive(Clone, Copy, Debug, PartialEq, Eq, Hash)]
pub struct Z;

/// Mutable state of an implementor, shared with the harness through an `Arc`.
#[derive(Debug, Clone, PartialEq, Eq, Hash)]
pub struct State {
    pub acc: u64,
    pub words: [u64; 4],
    pub bytes: [u8; 4],
    pub text: [u8; 4],
    /// (method id, digest of the arguments as the callee saw them, acc at entry)
    pub log: Vec<(u32, u64, u64)>,
}

impl State {
    pub fn new(seed: u64) -> Self {
        State { acc: seed, words: [seed ^ 1, seed ^ 2, seed ^ 3, seed ^ 4], bytes: [1, 2, 3, 4], text: *b"ab\xc3\xa9", log: Vec::new() }
    }
}

/// The implementing value. `id` identifies the instance (must never change); state lives in the
/// struct itself (so that `&mut self` methods really mutate through the pointer they are given) plus
/// a shared log for `&self` methods.
pub struct Imp {
    pub id: u64,
    pub acc: u64,
    pub words: [u64; 4],
    pub bytes: [u8; 4],
    pub text: String,
    pub log: Arc<Mutex<Vec<(u32, u64, u64)>>>,
    pub dc: DcHeap,
}

/// Output in pieces of chosen sizes (selected by the current `sel`): a short head, then pieces around and far beyond
/// typical internal buffer sizes, then a short tail. `None`: the ordinary output is wanted.
fn sized_pieces(f: &mut std::fmt::Formatter<'_>, who: &str) -> Option<std::fmt::Result> {
    let sizes: &[usize] = match cur_sel() % 4 {
        1 => &[1, 2, 3, 5, 8, 13],
        2 => &[300],
        3 => &[127, 128, 129, 4096],
        _ => return None,
    };
    Some((|| {
        f.write_str(who)?;
        f.write_str("[")?;
        for (k, n) in sizes.iter().enumerate() {
            // multi-byte characters, so that a piece cut at a byte count is visible as well
            let piece: String = "\u{e4}\u{f6}x".chars().cycle().skip(k).take(*n).collect();
            f.write_str(&piece)?;
            f.write_str("|")?;
        }
        f.write_str("]end")
    })())
}

impl std::fmt::Debug for Imp {
    fn fmt(&self, f: &mut std::fmt::Formatter<'_>) -> std::fmt::Result {
        if let Some(r) = sized_pieces(f, "dbg") {
            return r;
        }
        f.debug_struct("Imp").field("id", &self.id).field("acc", &self.acc).field("words", &self.words).finish()
    }
}

impl std::fmt::Display for Imp {
    fn fmt(&self, f: &mut std::fmt::Formatter<'_>) -> std::fmt::Result {
        if let Some(r) = sized_pieces(f, "dsp") {
            return r;
        }
        // honours width / fill / alignment / precision through `pad`
        f.pad(&format!("imp-{}-{}", self.id, self.acc))
    }
}

impl Imp {
    pub fn new(id: u64) -> (Self, Arc<Mutex<Vec<(u32, u64, u64)>>>) {
        let log = alloc::untracked(|| Arc::new(Mutex::new(Vec::with_capacity(16))));
        (Imp { id, acc: id * 1000 + 7, words: [id ^ 1, id ^ 2, id ^ 3, id ^ 4], bytes: [1, 2, 3, 4], text: String::from("ab\u{e9}"), log: log.clone(), dc: DcHeap::new(id) }, log)
    }
    /// Called first thing by every generated method body.
    pub fn enter(&self, method: u32, args: u64) {
        alloc::untracked(|| self.log.lock().unwrap().push((method, args ^ self.id.wrapping_mul(0x9e37_79b9_7f4a_7c15), self.acc)));
    }
    pub fn state_digest(&self) -> u64 {
        digest(&(self.id, self.acc, self.words, self.bytes, self.text.as_bytes(), self.dc.val()))
    }
}

thread_local! {
    /// pointers the caller sent (in order) and pointers the callee saw (in order)
    static SENT: RefCell<Vec<usize>> = const { RefCell::new(Vec::new()) };
    static SEEN: RefCell<Vec<usize>> = const { RefCell::new(Vec::new()) };
}

pub fn ptr_reset() {
    alloc::untracked(|| {
        SENT.with(|s| s.borrow_mut().clear());
        SEEN.with(|s| s.borrow_mut().clear());
    });
}
pub fn sent<T: ?Sized>(p: *const T) {
    alloc::untracked(|| SENT.with(|s| s.borrow_mut().push(p as *const u8 as usize)));
}
pub fn seen<T: ?Sized>(p: *const T) {
    alloc::untracked(|| SEEN.with(|s| s.borrow_mut().push(p as *const u8 as usize)));
}
/// true when the callee saw exactly the pointers the caller sent
pub fn ptr_ok() -> bool {
    SENT.with(|a| SEEN.with(|b| *a.borrow() == *b.borrow()))
}

/// Digest of a value *as seen*, recording addresses of referenced data.
pub trait Dig {
    fn dig(&self) -> u64;
}
macro_rules! dig_plain {
    ($($t:ty),*) => {$(impl Dig for $t { fn dig(&self) -> u64 { digest(self) } })*};
}
dig_plain!(u8, u16, u32, u64, i64, usize, bool, (), S3, Z, DetErr);

/// An error type that CAN be integer-coded (it implements `IntError`) but loses its `detail` when it is: a method
/// that does not ask for integer results must carry it in a CResult, both fields intact.
#[repr(C)]
#[derive(Clone, Copy, Debug, PartialEq, Eq, Hash)]
pub struct DetErr {
    pub code: u32,
    pub detail: u32,
}
impl cglue::result::IntError for DetErr {
    fn into_int_err(self) -> ::core::num::NonZeroI32 {
        ::core::num::NonZeroI32::new((self.code as i32) | 1).unwrap()
    }
    fn from_int_err(err: ::core::num::NonZeroI32) -> Self {
        DetErr { code: err.get() as u32, detail: 0 }
    }
}
impl<T: Dig> Dig for [T] {
    fn dig(&self) -> u64 {
        seen(self.as_ptr());
        let mut h = digest(&(self.len() as u64));
        for e in self {
            h = digest(&(h, e.dig()));
        }
        h
    }
}
impl Dig for str {
    fn dig(&self) -> u64 {
        seen(self.as_ptr());
        digest(&self.as_bytes())
    }
}
impl<T: Dig + ?Sized> Dig for &T {
    fn dig(&self) -> u64 {
        (**self).dig()
    }
}
impl<T: Dig + ?Sized> Dig for &mut T {
    fn dig(&self) -> u64 {
        (**self).dig()
    }
}
impl<T: Dig> Dig for Option<T> {
    fn dig(&self) -> u64 {
        match self {
            None => 0x4e4f4e45,
            Some(v) => digest(&(1u8, v.dig())),
        }
    }
}
impl<T: Dig, E: Dig> Dig for Result<T, E> {
    fn dig(&self) -> u64 {
        match self {
            Ok(v) => digest(&(0u8, v.dig())),
            Err(e) => digest(&(1u8, e.dig())),
        }
    }
}
impl Dig for *const u8 {
    fn dig(&self) -> u64 {
        seen(*self);
        1
    }
}

/// Digest of a scalar reference argument that also records its address.
pub fn dig_ref<T: Dig>(r: &T) -> u64 {
    seen(r as *const T);
    r.dig()
}

/// What one call produced, from the caller's point of view.
#[derive(Debug, Clone, Copy, PartialEq, Eq, Hash)]
pub struct Obs {
    /// digest of the returned value
    pub ret: u64,
    /// digest of caller-side buffers after the call (callee writes must be visible)
    pub post: u64,
    /// callee saw exactly the addresses the caller sent
    pub ptr_ok: bool,
}

pub extern "C" fn fn_double(x: u64) -> u64 {
    x.wrapping_mul(2)
}
pub extern "C" fn fn_inc(x: u64) -> u64 {
    x.wrapping_add(1)
}

pub static BYTES0: [u8; 0] = [];
pub static BYTES1: [u8; 1] = [7];
pub static BYTES3: [u8; 3] = [1, 2, 3];
pub static WORDS2: [u64; 2] = [u64::MAX, 5];
pub static ZS2: [Z; 2] = [Z, Z];
pub static FIVE: u64 = 5;

thread_local! {
    static SEL: std::cell::Cell<u64> = const { std::cell::Cell::new(0) };
}
/// Selector of the return-value arm, set by the caller before each call (same for direct/opaque).
pub fn set_sel(v: u64) {
    SEL.with(|s| s.set(v));
}
pub fn cur_sel() -> u64 {
    SEL.with(|s| s.get())
}

/// Reinterpret a raw vtable word as the function-pointer type of the corresponding getter.
///
/// # Safety
/// `w` must be a function pointer of type `F`.
pub unsafe fn retype<F: Copy>(_like: &F, w: usize) -> F {
    assert_eq!(std::mem::size_of::<F>(), std::mem::size_of::<usize>());
    std::mem::transmute_copy(&w)
}

/// The object as a C caller sees it: a sequence of machine words.
pub fn words_of<T>(t: &T) -> Vec<usize> {
    let n = std::mem::size_of_val(t) / std::mem::size_of::<usize>();
    assert_eq!(std::mem::size_of_val(t) % std::mem::size_of::<usize>(), 0);
    unsafe { std::slice::from_raw_parts(t as *const T as *const usize, n) }.to_vec()
}

/// `vtbl->slot0(container)` for a vtable whose first entry is `extern "C" fn(&Cont) -> u64`.
///
/// # Safety
/// `vtbl_word` must point to such a vtable and `cont` to its container.
pub unsafe fn call_slot0(vtbl_word: usize, cont: *const std::ffi::c_void) -> u64 {
    let f: extern "C" fn(*const std::ffi::c_void) -> u64 = std::mem::transmute(*(vtbl_word as *const usize));
    f(cont)
}

/// Same for `extern "C" fn(&Cont, usize-or-u64) -> u64`.
///
/// # Safety
/// see `call_slot0`.
pub unsafe fn call_slot0_arg(vtbl_word: usize, cont: *const std::ffi::c_void, a: u64) -> u64 {
    let f: extern "C" fn(*const std::ffi::c_void, u64) -> u64 = std::mem::transmute(*(vtbl_word as *const usize));
    f(cont, a)
}

/// A text sink that rejects a WHOLE piece when it does not fit (and keeps what fitted before): where the pieces of a formatted
/// value begin and end, and at which piece formatting stops, is observable through it.
pub struct LimitedSink {
    pub buf: String,
    pub cap: usize,
    pub pieces: u32,
}

impl LimitedSink {
    pub fn new(cap: usize) -> Self {
        LimitedSink { buf: String::new(), cap, pieces: 0 }
    }
    pub fn outcome(&self, r: std::fmt::Result) -> u64 {
        digest(&(self.buf.as_str(), self.pieces, r.is_ok()))
    }
}

impl std::fmt::Write for LimitedSink {
    fn write_str(&mut self, s: &str) -> std::fmt::Result {
        if self.buf.len() + s.len() > self.cap {
            return Err(std::fmt::Error);
        }
        self.pieces += 1;
        self.buf.push_str(s);
        Ok(())
    }
}
