//! Differential harness: the same action sequence is run directly on the implementor and through
//! every opaque object that can carry the trait; observations, final state and call log must agree.

use crate::support::*;
use explore::{CaseOut, Cx};
use serde_json::{json, Value};

pub type Seq = [(usize, u64)];

#[derive(Debug, Clone, PartialEq, Eq, Default)]
pub struct Run {
    pub obs: Vec<Obs>,
    /// digest of the implementor's fields after the sequence, where the harness can still see it
    pub state: Option<u64>,
    pub log: Vec<(u32, u64, u64)>,
    /// harness-detected problem inside the run (drop counts, context count, allocator)
    pub problem: Option<(String, String)>,
}

pub struct TraitCase {
    pub idx: usize,
    pub desc: &'static str,
    pub actions: &'static [(bool, u64)],
    pub direct: fn(&Seq) -> Run,
    pub containers: Vec<(&'static str, fn(&Seq) -> Run)>,
}

/// Runs `body` (which creates the object from `imp`, performs the sequence and tears down) inside an
/// allocation window with drop accounting for the implementor's payload.
pub fn framed(owning: bool, body: impl FnOnce(Imp, &mut Vec<Obs>) -> (Option<u64>, Option<Imp>)) -> Run {
    let mut obs = Vec::with_capacity(8);
    alloc::begin();
    let drops = DropScope::new();
    instr::DcZst::reset();
    let (imp, log) = Imp::new(1);
    let id = imp.dc.id;
    let (state, back) = body(imp, &mut obs);
    let mut problem = None;
    // `back` is the implementor handed back by borrowing containers; owning containers dropped it
    if let Some(imp) = back {
        if drops.count(id) != 0 {
            problem = Some(("obj:borrowed_dropped".to_string(), "a by-reference object dropped the value it borrows".to_string()));
        }
        drop(imp);
    } else if owning && drops.count(id) != 1 {
        problem = Some(("obj:owned_drop_count".to_string(), format!("the owned value was dropped {} time(s) over the life of the object", drops.count(id))));
    }
    if problem.is_none() && drops.count(id) != 1 {
        problem = Some(("obj:drop_count".to_string(), format!("payload dropped {} time(s)", drops.count(id))));
    }
    // every counted value that crossed the boundary (results, success payloads of integer-coded results) is gone by
    // now and was destroyed exactly once, zero-sized ones included
    if problem.is_none() {
        let bad = alloc::untracked(|| drops.not_equal(1));
        if !bad.is_empty() {
            problem = Some(("obj:value_drop_count".to_string(), alloc::untracked(|| format!("counted values {:?} that crossed the boundary were not destroyed exactly once: {:?}", bad, drops.counts()))));
        }
        let (made, gone) = instr::DcZst::stats();
        if made != gone {
            problem = Some(("obj:zst_drop_count".to_string(), alloc::untracked(|| format!("{} zero-sized counted value(s) were created and {} destroyed", made, gone))));
        }
    }
    let logv = alloc::untracked(|| log.lock().unwrap().clone());
    drop(log);
    let rep = alloc::end();
    if problem.is_none() && !rep.clean() {
        problem = Some((format!("alloc:{}", rep.signature()), rep.describe()));
    }
    Run { obs, state, log: logv, problem }
}

#[macro_export]
macro_rules! seq_on {
    ($m:ident, $o:expr, $seq:expr, $obs:expr) => {{
        for &(a, s) in $seq.iter() {
            $obs.push($m::call(&mut $o, a, s));
        }
    }};
}

/// shared pieces of the three case macros
#[macro_export]
macro_rules! case_common {
    ($m:ident, $T:ident) => {
        #[allow(unused_imports)]
        use $m::*;
        #[allow(unused_imports)]
        use $crate::harness::*;
        #[allow(unused_imports)]
        use $crate::support::*;
        #[allow(unused_imports)]
        use cglue::*;
        #[allow(dead_code)]
        fn direct(seq: &Seq) -> Run {
            framed(false, |imp, obs| {
                let mut o = Some(imp);
                $crate::seq_on!($m, o, seq, obs);
                let st = o.as_ref().map(|i| i.state_digest());
                // a consuming action dropped the value; otherwise hand it back for the drop accounting
                (st, o)
            })
        }
        #[allow(dead_code)]
        fn boxed(seq: &Seq) -> Run {
            framed(true, |imp, obs| {
                let mut o = Some(trait_obj!(imp as $T));
                $crate::seq_on!($m, o, seq, obs);
                drop(o);
                (None, None)
            })
        }
        #[allow(dead_code)]
        fn arc_boxed(seq: &Seq) -> Run {
            framed(true, |imp, obs| {
                let arc = ::std::sync::Arc::new(());
                let ctx = cglue::arc::CArc::<()>::from(arc.clone());
                let mut o = Some(trait_obj!((imp, ctx) as $T));
                $crate::seq_on!($m, o, seq, obs);
                drop(o);
                if ::std::sync::Arc::strong_count(&arc) != 1 {
                    obs.push(Obs { ret: 0xbad, post: ::std::sync::Arc::strong_count(&arc) as u64, ptr_ok: false });
                }
                (None, None)
            })
        }
    };
}

#[macro_export]
macro_rules! case_own {
    ($m:ident, $T:ident, $idx:expr) => {{
        $crate::case_common!($m, $T);
        TraitCase { idx: $idx, desc: DESC, actions: ACTIONS, direct, containers: vec![("Box", boxed as fn(&Seq) -> Run), ("ArcBox", arc_boxed)] }
    }};
}

#[macro_export]
macro_rules! case_mut {
    ($m:ident, $T:ident, $idx:expr) => {{
        $crate::case_common!($m, $T);
        fn by_mut(seq: &Seq) -> Run {
            framed(false, |mut imp, obs| {
                {
                    let mut o = Some(trait_obj!(&mut imp as $T));
                    $crate::seq_on!($m, o, seq, obs);
                }
                (Some(imp.state_digest()), Some(imp))
            })
        }
        fn arc_mut(seq: &Seq) -> Run {
            framed(false, |mut imp, obs| {
                let arc = ::std::sync::Arc::new(());
                {
                    let ctx = cglue::arc::CArc::<()>::from(arc.clone());
                    let mut o = Some(trait_obj!((&mut imp, ctx) as $T));
                    $crate::seq_on!($m, o, seq, obs);
                }
                if ::std::sync::Arc::strong_count(&arc) != 1 {
                    obs.push(Obs { ret: 0xbad, post: ::std::sync::Arc::strong_count(&arc) as u64, ptr_ok: false });
                }
                (Some(imp.state_digest()), Some(imp))
            })
        }
        TraitCase { idx: $idx, desc: DESC, actions: ACTIONS, direct, containers: vec![("Box", boxed as fn(&Seq) -> Run), ("ArcBox", arc_boxed), ("Mut", by_mut), ("ArcMut", arc_mut)] }
    }};
}

#[macro_export]
macro_rules! case_ref {
    ($m:ident, $T:ident, $idx:expr) => {{
        $crate::case_common!($m, $T);
        fn by_mut(seq: &Seq) -> Run {
            framed(false, |mut imp, obs| {
                {
                    let mut o = Some(trait_obj!(&mut imp as $T));
                    $crate::seq_on!($m, o, seq, obs);
                }
                (Some(imp.state_digest()), Some(imp))
            })
        }
        fn by_ref(seq: &Seq) -> Run {
            framed(false, |imp, obs| {
                {
                    let mut o = Some(trait_obj!(&imp as $T));
                    $crate::seq_on!($m, o, seq, obs);
                }
                (Some(imp.state_digest()), Some(imp))
            })
        }
        fn arc_ref(seq: &Seq) -> Run {
            framed(false, |imp, obs| {
                let arc = ::std::sync::Arc::new(());
                {
                    let ctx = cglue::arc::CArc::<()>::from(arc.clone());
                    let mut o = Some(trait_obj!((&imp, ctx) as $T));
                    $crate::seq_on!($m, o, seq, obs);
                }
                if ::std::sync::Arc::strong_count(&arc) != 1 {
                    obs.push(Obs { ret: 0xbad, post: ::std::sync::Arc::strong_count(&arc) as u64, ptr_ok: false });
                }
                (Some(imp.state_digest()), Some(imp))
            })
        }
        fn arc_some(seq: &Seq) -> Run {
            framed(true, |imp, obs| {
                let mut o = Some(trait_obj!(cglue::arc::CArcSome::from(imp) as $T));
                $crate::seq_on!($m, o, seq, obs);
                drop(o);
                (None, None)
            })
        }
        TraitCase {
            idx: $idx,
            desc: DESC,
            actions: ACTIONS,
            direct,
            containers: vec![("Box", boxed as fn(&Seq) -> Run), ("ArcBox", arc_boxed), ("Mut", by_mut), ("Ref", by_ref), ("ArcRef", arc_ref), ("CArcSome", arc_some)],
        }
    }};
}

fn case_json(tc: &TraitCase, seq: &Seq, cont: &str) -> Value {
    json!({"trait": tc.idx, "shape": tc.desc, "container": cont, "seq": seq})
}

/// Compare one opaque run with the direct run.
pub fn compare(tc: &TraitCase, cont: &str, direct: &Run, other: &Run) -> CaseOut {
    let what = |s: &str| format!("trait T{} ({}) through {}: {}", tc.idx, tc.desc, cont, s);
    if let Some((sig, d)) = &other.problem {
        return CaseOut::bad(format!("{}:{}", sig, cont), what(d));
    }
    if let Some((sig, d)) = &direct.problem {
        return CaseOut::bad(format!("harness_direct:{}", sig), what(d));
    }
    for (i, (a, b)) in direct.obs.iter().zip(other.obs.iter()).enumerate() {
        if !b.ptr_ok {
            return CaseOut::bad(format!("address:{}", cont), what(&format!("step {}: the callee/caller did not see the address that was sent (slice/str/reference moved or re-created)", i)));
        }
        if a.ret != b.ret {
            return CaseOut::bad(format!("result:{}", cont), what(&format!("step {}: returned value differs from the direct call", i)));
        }
        if a.post != b.post {
            return CaseOut::bad(format!("caller_buffers:{}", cont), what(&format!("step {}: caller-side buffers after the call differ from the direct call (callee writes not visible / spurious writes)", i)));
        }
    }
    if direct.obs.len() != other.obs.len() {
        return CaseOut::bad(format!("context_count:{}", cont), what("the context reference count did not return to its start value"));
    }
    if direct.log != other.log {
        return CaseOut::bad(format!("dispatch:{}", cont), what(&format!("call log differs: direct {:?} vs object {:?} (wrong method, wrong instance, dropped or duplicated call, or different arguments seen)", direct.log, other.log)));
    }
    if let (Some(a), Some(b)) = (direct.state, other.state) {
        if a != b {
            return CaseOut::bad(format!("state:{}", cont), what("final state of the value differs from the direct call sequence"));
        }
    }
    CaseOut::ok(digest(&(tc.idx, cont, &other.obs, &other.log)))
}

/// All sequences of length `len` over (action, sel); a consuming action may only come last.
pub fn sequences(tc: &TraitCase, len: usize) -> Vec<Vec<(usize, u64)>> {
    let mut steps: Vec<(usize, u64, bool)> = Vec::new();
    for (a, (cons, nsel)) in tc.actions.iter().enumerate() {
        for s in 0..*nsel {
            steps.push((a, s, *cons));
        }
    }
    let mut out: Vec<Vec<(usize, u64)>> = vec![vec![]];
    for pos in 0..len {
        let mut next = Vec::new();
        for pre in &out {
            for (a, s, cons) in &steps {
                if *cons && pos + 1 != len {
                    continue;
                }
                let mut n = pre.clone();
                n.push((*a, *s));
                next.push(n);
            }
        }
        out = next;
    }
    out
}

pub fn run_one(cx: &Cx, section: &str, tc: &TraitCase, seq: &Seq) {
    let d = (tc.direct)(seq);
    for (cont, f) in &tc.containers {
        let case = case_json(tc, seq, cont);
        cx.eval(section, &case, || compare(tc, cont, &d, &f(seq)));
    }
}

pub fn replay(cases: &[TraitCase], case: &Value) -> CaseOut {
    let idx = case["trait"].as_u64().unwrap() as usize;
    let tc = match cases.iter().find(|c| c.idx == idx) {
        Some(t) => t,
        None => return CaseOut::bad("replay:no_such_trait", "the grammar tier of this build does not contain that trait index"),
    };
    let seq: Vec<(usize, u64)> = serde_json::from_value(case["seq"].clone()).unwrap();
    let cont = case["container"].as_str().unwrap();
    let d = (tc.direct)(&seq);
    let f = tc.containers.iter().find(|c| c.0 == cont).unwrap().1;
    compare(tc, cont, &d, &f(&seq))
}

/// One cell of the C08 cast matrix (generated by gen/groups_gen.py).
pub struct Cell {
    pub name: &'static str,
    pub group: &'static str,
    pub enabled: &'static str,
    pub requested: &'static str,
    pub container: &'static str,
    pub op: &'static str,
    pub expect: bool,
    pub run: fn() -> Result<u64, (String, String)>,
}

/// One cell of the C04 group layout matrix.
pub struct LayoutCell {
    pub name: &'static str,
    pub group: &'static str,
    pub enabled: &'static str,
    pub container: &'static str,
    pub context: bool,
    pub run: fn() -> Result<u64, (String, String)>,
}
