//! Process-level driver shared by all harness binaries.
//!
//! `<bin> --tier quick|thorough --out <report.json> [--only <section>]`
//!     parent: spawns itself as a child that does the exploration and journals every case before
//!     running it. If the child dies on a signal, each journaled case is re-run alone, twice, in a
//!     fresh process; a case that kills the process twice the same way is a violation
//!     (`crash:<section>:<signal>`), is put on the skip list, and the exploration is started again
//!     so that everything else is still covered. A death that cannot be attributed to a
//!     reproducible case is a machinery failure (exit 2), never a verdict.
//! `<bin> --replay <file>`
//!     re-executes exactly one recorded case, twice, and requires identical observations.
//!
//! Exit codes of the binary: 0 = report written (violations, if any, are inside the report),
//! 2 = machinery failure. For `--replay`: 1 = violation reproduced, 0 = no violation, 2 = flaky.

use crate::{CaseOut, Cx, Tier};
use serde_json::{json, Value};
use std::collections::HashSet;
use std::os::unix::process::ExitStatusExt;
use std::path::PathBuf;
use std::process::Command;

pub struct Section {
    pub name: &'static str,
    pub explore: Box<dyn Fn(&Cx) + Sync + Send>,
    pub replay: Box<dyn Fn(&Value) -> CaseOut + Sync + Send>,
}

pub struct CheckDef {
    pub property: &'static str,
    pub level: &'static str,
    pub assumptions: Vec<String>,
    pub sections: Vec<Section>,
    /// run the exploration in this process (no child); for harnesses that manage processes themselves
    pub no_isolation: bool,
}

fn arg_val(args: &[String], name: &str) -> Option<String> {
    args.iter().position(|a| a == name).and_then(|i| args.get(i + 1).cloned())
}

fn load_known(property: &str) -> HashSet<String> {
    let mut set = HashSet::new();
    if let Ok(p) = std::env::var("VERIF_KNOWN") {
        if let Ok(txt) = std::fs::read_to_string(p) {
            for line in txt.lines() {
                let line = line.trim();
                if !line.starts_with("finding:") {
                    continue;
                }
                let mut prop = None;
                let mut key = None;
                for tok in line.split_whitespace() {
                    if let Some(v) = tok.strip_prefix("property=") {
                        prop = Some(v.to_string());
                    }
                    if let Some(v) = tok.strip_prefix("key=") {
                        key = Some(v.to_string());
                    }
                }
                if let (Some(p), Some(k)) = (prop, key) {
                    if p == property {
                        set.insert(k);
                    }
                }
            }
        }
    }
    set
}

fn read_journal(dir: &PathBuf) -> Vec<String> {
    let mut v = Vec::new();
    if let Ok(rd) = std::fs::read_dir(dir) {
        for e in rd.flatten() {
            if let Ok(bytes) = std::fs::read(e.path()) {
                if bytes.len() < 11 {
                    continue;
                }
                if let Ok(len) = std::str::from_utf8(&bytes[..10]).unwrap_or("x").parse::<usize>() {
                    if bytes.len() >= 11 + len {
                        if let Ok(s) = std::str::from_utf8(&bytes[11..11 + len]) {
                            v.push(s.to_string());
                        }
                    }
                }
            }
        }
    }
    v.sort();
    v.dedup();
    v
}

fn describe_status(st: &std::process::ExitStatus) -> String {
    if let Some(sig) = st.signal() {
        format!("SIG{}", sig)
    } else {
        format!("exit{}", st.code().unwrap_or(-1))
    }
}

/// what the dead / hung child is known to have covered (progress markers of all attempts), folded into a report that
/// was assembled without a complete checkpoint
fn fold_progress(rep: &mut Value, base: &std::path::Path) {
    let (mut ev, mut dn) = (0u64, 0u64);
    if let Ok(rd) = std::fs::read_dir(base) {
        for e in rd.flatten() {
            if let Ok(t) = std::fs::read_to_string(e.path().join("progress.json")) {
                if let Ok(v) = serde_json::from_str::<Value>(&t) {
                    ev = ev.max(v["evaluations"].as_u64().unwrap_or(0));
                    dn = dn.max(v["distinct_nontrivial"].as_u64().unwrap_or(0));
                }
            }
        }
    }
    // the cases that were being executed when an attempt ended were attempted too
    let mut inflight: HashSet<String> = HashSet::new();
    if let Ok(rd) = std::fs::read_dir(base) {
        for e in rd.flatten() {
            if e.path().is_dir() {
                for l in read_journal(&e.path()) {
                    inflight.insert(l);
                }
            }
        }
    }
    ev = ev.max(inflight.len() as u64);
    dn = dn.max(inflight.len() as u64);
    if rep["coverage"]["evaluations"].as_u64().unwrap_or(0) < ev {
        rep["coverage"]["evaluations"] = json!(ev);
        rep["coverage"]["distinct_nontrivial"] = json!(dn.max(rep["coverage"]["distinct_nontrivial"].as_u64().unwrap_or(0)));
        rep["coverage"]["progress_note"] = json!("counts taken from the last progress marker of the exploring process (it died or hung before the section's checkpoint)");
    }
}

/// CPU time (user + system, clock ticks) of a process (all its threads), from /proc
fn cpu_ticks(pid: u32) -> Option<u64> {
    let txt = std::fs::read_to_string(format!("/proc/{}/stat", pid)).ok()?;
    let rest = &txt[txt.rfind(')')? + 2..];
    let f: Vec<&str> = rest.split(' ').collect();
    Some(f.get(11)?.parse::<u64>().ok()? + f.get(12)?.parse::<u64>().ok()?)
}

/// Run a child to completion, but kill it when it has stopped making progress: no CPU time consumed for STALL_S
/// seconds means it sits in a deadlock (a corrupted heap taking the allocator lock with it, a lost wake-up, ...).
/// -> (exit status description, success); a stalled child is reported as "hang".
#[allow(dead_code)]
fn run_watched(cmd: &mut Command, stall_s: u64) -> (String, bool) {
    run_watched_ext(cmd, stall_s, None, 0, 0)
}

/// latest modification time below `dir` (the per-thread journal files are rewritten at the start of every case)
fn dir_activity(dir: &std::path::Path) -> Option<std::time::SystemTime> {
    let mut latest = None;
    for e in std::fs::read_dir(dir).ok()?.flatten() {
        if let Ok(m) = e.metadata().and_then(|m| m.modified()) {
            if latest.map(|l| m > l).unwrap_or(true) {
                latest = Some(m);
            }
        }
    }
    latest
}

/// Like `run_watched`, and additionally: a child that burns CPU without starting a new case for `quiet_s` seconds (no journal
/// file under `journal` touched; 0 = not watched) or that runs longer than `wall_s` seconds (0 = unlimited) is killed and
/// reported as "hang" too - a spinning case never stalls.
fn run_watched_ext(cmd: &mut Command, stall_s: u64, journal: Option<&std::path::Path>, quiet_s: u64, wall_s: u64) -> (String, bool) {
    #[allow(non_snake_case)]
    let STALL_S: u64 = stall_s;
    let mut child = cmd.spawn().expect("spawn child");
    let pid = child.id();
    let mut last = cpu_ticks(pid).unwrap_or(0);
    let mut last_change = std::time::Instant::now();
    let started = std::time::Instant::now();
    let mut seen_activity = journal.and_then(dir_activity);
    let mut last_activity = std::time::Instant::now();
    loop {
        match child.try_wait() {
            Ok(Some(st)) => return (describe_status(&st), st.success()),
            Ok(None) => {}
            Err(_) => return ("wait_failed".to_string(), false),
        }
        std::thread::sleep(std::time::Duration::from_millis(200));
        let now = cpu_ticks(pid).unwrap_or(last);
        let mut kill = false;
        if now != last {
            last = now;
            last_change = std::time::Instant::now();
        } else if last_change.elapsed().as_secs() >= STALL_S {
            kill = true;
        }
        if let Some(j) = journal {
            let a = dir_activity(j);
            if a != seen_activity {
                seen_activity = a;
                last_activity = std::time::Instant::now();
            } else if quiet_s > 0 && last_activity.elapsed().as_secs() >= quiet_s {
                eprintln!("[driver] child has not started a new case for {} s while consuming CPU: treated as a hang", quiet_s);
                kill = true;
            }
        }
        if wall_s > 0 && started.elapsed().as_secs() >= wall_s {
            eprintln!("[driver] single case still running after {} s: treated as a hang", wall_s);
            kill = true;
        }
        if kill {
            let _ = child.kill();
            let _ = child.wait();
            return ("hang".to_string(), false);
        }
    }
}

pub fn run_main(def: CheckDef) -> ! {
    let args: Vec<String> = std::env::args().collect();
    let tier = match arg_val(&args, "--tier").as_deref() {
        Some("thorough") => Tier::Thorough,
        _ => Tier::Quick,
    };
    let seed: u64 = std::env::var("VERIF_SEED").ok().and_then(|s| s.parse().ok()).unwrap_or(0);
    let known = load_known(def.property);

    // ---- single case (crash attribution) -------------------------------------------------
    if let Some(f) = arg_val(&args, "--single") {
        let txt = std::fs::read_to_string(&f).expect("single file");
        let v: Value = serde_json::from_str(&txt).expect("single json");
        let sec = v["section"].as_str().unwrap_or("");
        let s = def.sections.iter().find(|s| s.name == sec).expect("section");
        let out = (s.replay)(&v["case"]);
        println!("single: violation={:?}", out.violation);
        // exit 3 + a side file: the case does not kill a fresh process, but it IS a violation on its own (the process that
        // explored it died later, e.g. of the heap damage it did)
        if let Some((sig, desc)) = &out.violation {
            let _ = std::fs::write(format!("{}.out", f), json!({"signature": sig, "desc": desc}).to_string());
            std::process::exit(3);
        }
        std::process::exit(0);
    }

    // ---- replay --------------------------------------------------------------------------
    if let Some(f) = arg_val(&args, "--replay") {
        let txt = std::fs::read_to_string(&f).expect("replay file");
        let v: Value = serde_json::from_str(&txt).expect("replay json");
        let sec = v["section"].as_str().unwrap_or("");
        let s = match def.sections.iter().find(|s| s.name == sec) {
            Some(s) => s,
            None => {
                eprintln!("unknown section {:?}", sec);
                std::process::exit(2);
            }
        };
        println!("replaying property={} section={} case={}", def.property, sec, v["case"]);
        let a = (s.replay)(&v["case"]);
        let b = (s.replay)(&v["case"]);
        println!("run 1: obs={:016x} violation={:?}", a.obs, a.violation);
        println!("run 2: obs={:016x} violation={:?}", b.obs, b.violation);
        let sa = a.violation.as_ref().map(|x| x.0.clone());
        let sb = b.violation.as_ref().map(|x| x.0.clone());
        if sa != sb || a.obs != b.obs {
            println!("NONDETERMINISTIC replay");
            std::process::exit(2);
        }
        if sa.is_some() {
            println!("violation reproduced: {}", a.violation.unwrap().1);
            std::process::exit(1);
        }
        println!("no violation");
        std::process::exit(0);
    }

    let out_path = arg_val(&args, "--out").unwrap_or_else(|| format!("/verif/.build/report-{}.json", def.property));
    let only = arg_val(&args, "--only");
    let is_child = args.iter().any(|a| a == "--child") || def.no_isolation;

    if is_child {
        let journal_dir = arg_val(&args, "--journal-dir").map(PathBuf::from);
        let mut skip = HashSet::new();
        let mut skip_recs: Vec<Value> = Vec::new();
        if let Some(sf) = arg_val(&args, "--skip-file") {
            if let Ok(txt) = std::fs::read_to_string(sf) {
                if let Ok(Value::Array(a)) = serde_json::from_str::<Value>(&txt) {
                    for e in a {
                        skip.insert(e["line"].as_str().unwrap_or("").to_string());
                        skip_recs.push(e);
                    }
                }
            }
        }
        let t0 = std::time::Instant::now();
        let cx = Cx::new(def.property, tier, seed, known, skip, journal_dir);
        for e in &skip_recs {
            let line: Value = serde_json::from_str(e["line"].as_str().unwrap_or("{}")).unwrap_or(Value::Null);
            cx.push_violation(
                line["section"].as_str().unwrap_or("?"),
                e["signature"].as_str().unwrap_or("crash"),
                e["desc"].as_str().unwrap_or("process died"),
                line["case"].clone(),
            );
        }
        for s in &def.sections {
            if let Some(o) = &only {
                if o != s.name {
                    continue;
                }
            }
            (s.explore)(&cx);
            // checkpoint: if a later section kills the process, what was covered so far survives
            let rep = cx.report(def.level, &def.assumptions, t0.elapsed().as_secs_f64());
            let _ = std::fs::write(format!("{}.partial", out_path), serde_json::to_string(&rep).unwrap());
        }
        let rep = cx.report(def.level, &def.assumptions, t0.elapsed().as_secs_f64());
        std::fs::write(&out_path, serde_json::to_string_pretty(&rep).unwrap()).expect("write report");
        std::process::exit(0);
    }

    // ---- parent --------------------------------------------------------------------------
    let exe = std::env::current_exe().expect("exe");
    let base = PathBuf::from(format!("/verif/.build/journal/{}-{}", def.property, std::process::id()));
    let _ = std::fs::remove_dir_all(&base);
    std::fs::create_dir_all(&base).expect("journal dir");
    let skip_file = base.join("skip.json");
    let mut skip_recs: Vec<Value> = Vec::new();
    let mut code = 2;
    let max_attempts = 4;
    // a reproducible hang ends the exploration at once (every further attempt would only wait for the next stall)
    let mut hang_found = false;
    for attempt in 0..=max_attempts {
        if attempt == max_attempts || hang_found {
            // still dying: stop exploring, report what is established (crash violations + the last checkpoint)
            let mut rep: Value = std::fs::read_to_string(format!("{}.partial", out_path))
                .ok()
                .and_then(|t| serde_json::from_str(&t).ok())
                .unwrap_or_else(|| {
                    json!({"property_id": def.property, "tier": tier.name(), "seed": seed, "level": def.level, "wall_s": 0.0,
                           "assumptions": def.assumptions,
                           "coverage": {"evaluations": skip_recs.len(), "distinct_nontrivial": skip_recs.len(), "rule": "crash attribution only", "samples": [], "exhaustive": false, "sections": []},
                           "violation_records": []})
                });
            rep["coverage"]["exhaustive"] = json!(false);
            rep["coverage"]["aborted"] = json!(if hang_found { "exploration stopped at a reproducible hang / at a death that no further single case explains; coverage is that of the last completed section checkpoint".to_string() } else { format!("exploration stopped after {} crashing attempts; coverage is that of the last completed section checkpoint", max_attempts) });
            let have: HashSet<String> = rep["violation_records"].as_array().map(|a| a.iter().map(|v| v["case"].to_string()).collect()).unwrap_or_default();
            for e in &skip_recs {
                let line: Value = serde_json::from_str(e["line"].as_str().unwrap_or("{}")).unwrap_or(Value::Null);
                if have.contains(&line["case"].to_string()) {
                    continue;
                }
                let sig = e["signature"].as_str().unwrap_or("crash").to_string();
                let dup = rep["violation_records"].as_array().unwrap().iter().any(|v| v["signature"] == json!(sig));
                if dup {
                    continue;
                }
                let known_hit = known.contains(&sig);
                rep["violation_records"].as_array_mut().unwrap().push(json!({"section": line["section"], "signature": sig, "desc": e["desc"], "case": line["case"], "count": 1, "known": known_hit}));
            }
            fold_progress(&mut rep, &base);
            std::fs::write(&out_path, serde_json::to_string_pretty(&rep).unwrap()).expect("write report");
            code = 0;
            break;
        }
        let jd = base.join(format!("a{}", attempt));
        std::fs::create_dir_all(&jd).unwrap();
        std::fs::write(&skip_file, serde_json::to_string(&skip_recs).unwrap()).unwrap();
        let _ = std::fs::remove_file(&out_path);
        let _ = std::fs::remove_file(format!("{}.partial", out_path));
        let mut cmd = Command::new(&exe);
        cmd.args(&args[1..]).arg("--child").arg("--journal-dir").arg(&jd).arg("--skip-file").arg(&skip_file).arg("--out").arg(&out_path);
        // a case that spins (CPU busy, no new case started) is a hang as well; thresholds by tier, overridable
        let envn = |k: &str, d: u64| std::env::var(k).ok().and_then(|v| v.parse().ok()).unwrap_or(d);
        let quiet_s = envn("VERIF_QUIET_S", if tier == Tier::Thorough { 10800 } else { 180 });
        let single_wall_s = envn("VERIF_SINGLE_WALL_S", if tier == Tier::Thorough { 10800 } else { 30 });
        let (st_desc, st_ok) = run_watched_ext(&mut cmd, 25, Some(&jd), quiet_s, 0);
        if st_ok && std::path::Path::new(&out_path).exists() {
            code = 0;
            break;
        }
        eprintln!("[driver] child ended with {}; attributing", st_desc);
        let cases = read_journal(&jd);
        let mut found = false;
        for (i, line) in cases.iter().enumerate() {
            let f = jd.join(format!("single{}.json", i));
            std::fs::write(&f, line).unwrap();
            let mut sts = Vec::new();
            for _ in 0..2 {
                let (d, _) = run_watched_ext(Command::new(&exe).arg("--single").arg(&f).stdout(std::process::Stdio::null()).stderr(std::process::Stdio::null()), 8, None, 0, single_wall_s);
                sts.push(d);
            }
            if sts[0] == sts[1] && sts[0] == "exit3" {
                // reproducible violation (not a crash) of a case that was in flight when the explorer died
                let o: Value = std::fs::read_to_string(format!("{}.out", f.display())).ok().and_then(|t| serde_json::from_str(&t).ok()).unwrap_or(Value::Null);
                let sig = o["signature"].as_str().unwrap_or("violation").to_string();
                eprintln!("[driver] in-flight case is a violation on its own: {} on {}", sig, line);
                skip_recs.push(json!({"line": line, "signature": sig, "desc": format!("{} (the exploring process died while or after executing this case)", o["desc"].as_str().unwrap_or(""))}));
                found = true;
                continue;
            }
            if sts[0] == sts[1] && sts[0] != "exit0" {
                let v: Value = serde_json::from_str(line).unwrap_or(Value::Null);
                let sig = format!("crash:{}:{}", v["section"].as_str().unwrap_or("?"), sts[0]);
                eprintln!("[driver] reproducible crash {} on {}", sig, line);
                skip_recs.push(json!({"line": line, "signature": sig, "desc": format!("process died ({}) while executing this case, twice in fresh processes", sts[0])}));
                found = true;
                if sts[0] == "hang" {
                    hang_found = true;
                    break;
                }
            }
        }
        if !found {
            // no case kills a fresh process on its own. If the child had already established violations before it died,
            // those stand (the violating case very likely damaged the process); otherwise this is a machinery failure.
            let early: Vec<Value> = std::fs::read_to_string(jd.join("violations.jsonl"))
                .map(|t| t.lines().filter_map(|l| serde_json::from_str::<Value>(l).ok()).collect())
                .unwrap_or_default();
            if early.is_empty() && !skip_recs.is_empty() {
                // earlier attempts of this run attributed violations / crashes to cases; the process still dies without them
                // (damage done by cases that do not fail on their own): report what is established
                eprintln!("[driver] child death ({}) not attributable to a further case; reporting the {} case(s) attributed so far", st_desc, skip_recs.len());
                hang_found = true;
                continue;
            }
            if early.is_empty() {
                eprintln!("[driver] child death ({}) not attributable to a reproducible case: machinery failure", st_desc);
                code = 2;
                break;
            }
            eprintln!("[driver] child death ({}) after {} established violation(s): reporting those", st_desc, early.len());
            let mut rep: Value = std::fs::read_to_string(format!("{}.partial", out_path)).ok().and_then(|t| serde_json::from_str(&t).ok()).unwrap_or_else(|| {
                json!({"property_id": def.property, "tier": tier.name(), "seed": seed, "level": def.level, "wall_s": 0.0, "assumptions": def.assumptions,
                       "coverage": {"evaluations": early.len(), "distinct_nontrivial": early.len(), "rule": "violations established before the process died", "samples": [], "exhaustive": false, "sections": []},
                       "violation_records": []})
            });
            rep["coverage"]["exhaustive"] = json!(false);
            rep["coverage"]["aborted"] = json!(format!("the exploring process died ({}) after these violations were established; coverage is that of the last completed section checkpoint", st_desc));
            for e in early {
                let dup = rep["violation_records"].as_array().unwrap().iter().any(|v| v["signature"] == e["signature"] && v["section"] == e["section"]);
                if !dup {
                    rep["violation_records"].as_array_mut().unwrap().push(json!({"section": e["section"], "signature": e["signature"], "desc": e["desc"], "case": e["case"], "count": 1, "known": e["known"]}));
                }
            }
            fold_progress(&mut rep, &base);
            std::fs::write(&out_path, serde_json::to_string_pretty(&rep).unwrap()).expect("write report");
            code = 0;
            break;
        }
    }
    let _ = std::fs::remove_dir_all(&base);
    let _ = std::fs::remove_file(format!("{}.partial", out_path));
    std::process::exit(code);
}
