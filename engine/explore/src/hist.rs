//! History exploration: the transition function is the real code.
//!
//! A state is identified by the history that reaches it. Live objects of the subject cannot be
//! copied, so every state is rebuilt by re-executing its history on fresh objects (`HistSut::run`),
//! in lock-step with the reference model, checking the oracle after every step and tearing
//! everything down at the end (quiescence checks).
//!
//! Two modes:
//!  * `full`: every sequence up to the depth, no merging (no abstraction argument needed).
//!  * `bfs`: breadth-first with deduplication on the canonical key returned by `run` (reference
//!    model state + the full observable state of the implementation); one shortest representative
//!    per key is extended.

use crate::{CaseOut, Cx};
use rayon::prelude::*;
use serde::Serialize;
use serde_json::{json, Value};
use std::collections::HashSet;
use std::sync::atomic::{AtomicU64, Ordering};

pub struct StepOut<Op> {
    /// canonical state key after the last step (before teardown)
    pub key: u64,
    /// operations enabled in that state, simplest first
    pub enabled: Vec<Op>,
    /// digest of all observations along the history, incl. teardown
    pub obs: u64,
    pub violation: Option<(String, String)>,
}

pub trait HistSut: Sync {
    type Op: Clone + Serialize + Send + Sync;
    /// Re-execute `hist` from scratch on fresh real objects.
    fn run(&self, hist: &[Self::Op]) -> StepOut<Self::Op>;
}

fn case_of<Op: Serialize>(hist: &[Op]) -> Value {
    json!({ "history": hist })
}

struct Counters {
    nodes: AtomicU64,
    edges: AtomicU64,
}

/// Enumerate every history of length <= depth.
pub fn full<S: HistSut>(sut: &S, depth: usize, cx: &Cx, section: &str) {
    let c = Counters { nodes: AtomicU64::new(0), edges: AtomicU64::new(0) };
    fn rec<S: HistSut>(sut: &S, hist: &mut Vec<S::Op>, depth: usize, cx: &Cx, section: &str, c: &Counters) {
        let case = case_of(hist);
        if !cx.journal(section, &case) {
            return;
        }
        let out = sut.run(hist);
        c.nodes.fetch_add(1, Ordering::Relaxed);
        let co = CaseOut { obs: out.obs, nontrivial: !hist.is_empty(), violation: out.violation.clone() };
        let violated = cx.record(section, || case, &co);
        if violated || hist.len() >= depth {
            return;
        }
        c.edges.fetch_add(out.enabled.len() as u64, Ordering::Relaxed);
        if hist.len() < 2 {
            out.enabled.par_iter().for_each(|op| {
                let mut h = hist.clone();
                h.push(op.clone());
                rec(sut, &mut h, depth, cx, section, c);
            });
        } else {
            for op in out.enabled {
                hist.push(op);
                rec(sut, hist, depth, cx, section, c);
                hist.pop();
            }
        }
    }
    rec(sut, &mut Vec::new(), depth, cx, section, &c);
    cx.add_states(section, c.nodes.load(Ordering::Relaxed), c.edges.load(Ordering::Relaxed), depth as u64);
    cx.note(section, "mode", json!(format!("full enumeration, depth <= {}", depth)));
}

/// Breadth-first search with canonical-state deduplication.
pub fn bfs<S: HistSut>(sut: &S, depth: usize, cx: &Cx, section: &str, max_states: usize) {
    let mut seen: HashSet<u64> = HashSet::new();
    let mut frontier: Vec<Vec<S::Op>> = vec![Vec::new()];
    let mut states = 0u64;
    let mut transitions = 0u64;
    let mut max_depth = 0u64;
    let mut level_sizes = Vec::new();
    // the root
    for d in 0..=depth {
        // run every history of the frontier (parallel), deterministic order afterwards
        let outs: Vec<(Vec<S::Op>, Option<StepOut<S::Op>>)> = frontier
            .par_iter()
            .map(|h| {
                let case = case_of(h);
                if !cx.journal(section, &case) {
                    return (h.clone(), None);
                }
                let out = sut.run(h);
                let co = CaseOut { obs: out.obs, nontrivial: !h.is_empty(), violation: out.violation.clone() };
                cx.record(section, || case, &co);
                (h.clone(), Some(out))
            })
            .collect();
        let mut next: Vec<Vec<S::Op>> = Vec::new();
        let mut new_here = 0u64;
        for (h, out) in outs {
            let out = match out {
                Some(o) => o,
                None => continue,
            };
            if d > 0 {
                transitions += 1;
            }
            if out.violation.is_some() {
                continue;
            }
            if !seen.insert(out.key) {
                continue;
            }
            states += 1;
            new_here += 1;
            max_depth = d as u64;
            if d < depth {
                for op in out.enabled {
                    let mut nh = h.clone();
                    nh.push(op);
                    next.push(nh);
                }
            }
        }
        level_sizes.push(new_here);
        if next.is_empty() {
            break;
        }
        if seen.len() > max_states {
            cx.cap_hit(section, &format!("state cap {} reached at depth {}; all states up to depth {} were expanded", max_states, d, d));
            break;
        }
        frontier = next;
    }
    cx.add_states(section, states, transitions, max_depth);
    cx.note(section, "mode", json!(format!("BFS with canonical-state dedup, depth <= {}", depth)));
    cx.note(section, "new_states_per_depth", json!(level_sizes));
}
