//! Bounded exhaustive exploration support shared by all harness binaries.
//!
//!  * `Cx`: per-run context: counts evaluations / distinct observations, keeps samples and
//!    violations (deduplicated by signature), journals the case that is about to run so that a
//!    crash can be attributed, knows the known-findings signatures.
//!  * `hist`: history explorer whose transition function is the real code (full enumeration up to a
//!    depth, and BFS with canonical-state deduplication).
//!  * `run_main`: process-level driver: parent/child crash isolation, replay, report writing.

pub mod hist;
pub mod driver;

use serde_json::{json, Map, Value};
use std::collections::{BTreeMap, HashSet};
use std::hash::{Hash, Hasher};
use std::sync::Mutex;

pub use driver::run_main;
pub use hist::{HistSut, StepOut};

#[derive(Clone, Copy, Debug, PartialEq, Eq)]
pub enum Tier {
    Quick,
    Thorough,
}

impl Tier {
    pub fn pick<T>(self, quick: T, thorough: T) -> T {
        match self {
            Tier::Quick => quick,
            Tier::Thorough => thorough,
        }
    }
    pub fn name(self) -> &'static str {
        self.pick("quick", "thorough")
    }
}

/// Result of executing one case (input / history / program / cell).
#[derive(Clone, Debug, Default)]
pub struct CaseOut {
    /// digest of everything observed (used to count distinct outcomes)
    pub obs: u64,
    /// non-trivial by the section's stated rule
    pub nontrivial: bool,
    /// (signature, description) when the oracle disagreed
    pub violation: Option<(String, String)>,
}

impl CaseOut {
    pub fn ok(obs: u64) -> Self {
        CaseOut { obs, nontrivial: true, violation: None }
    }
    pub fn trivial(obs: u64) -> Self {
        CaseOut { obs, nontrivial: false, violation: None }
    }
    pub fn bad(sig: impl Into<String>, desc: impl Into<String>) -> Self {
        CaseOut { obs: 0, nontrivial: true, violation: Some((sig.into(), desc.into())) }
    }
}

pub fn digest<T: Hash>(t: &T) -> u64 {
    // FNV-1a based, deterministic across processes (no RandomState)
    struct Fnv(u64);
    impl Hasher for Fnv {
        fn finish(&self) -> u64 {
            self.0
        }
        fn write(&mut self, bytes: &[u8]) {
            for b in bytes {
                self.0 ^= *b as u64;
                self.0 = self.0.wrapping_mul(0x100000001b3);
            }
        }
    }
    let mut h = Fnv(0xcbf29ce484222325);
    t.hash(&mut h);
    h.finish()
}

#[derive(Clone, Debug)]
pub struct ViolationRec {
    pub section: String,
    pub signature: String,
    pub desc: String,
    pub case: Value,
    pub count: u64,
    pub known: bool,
}

#[derive(Default)]
pub struct SectionStats {
    pub evaluations: u64,
    pub nontrivial: u64,
    pub distinct_obs: HashSet<u64>,
    /// distinct outcomes counted by a bulk sweep itself (too many to keep as a set)
    pub bulk_distinct: u64,
    pub states: u64,
    pub transitions: u64,
    pub max_depth: u64,
    pub samples: Vec<Value>,
    pub notes: Map<String, Value>,
    pub exhaustive: bool,
    pub caps: Vec<String>,
    pub rule: String,
}

struct Inner {
    sections: BTreeMap<String, SectionStats>,
    order: Vec<String>,
    violations: Vec<ViolationRec>,
}

pub struct Cx {
    pub property: String,
    pub tier: Tier,
    pub seed: u64,
    known: HashSet<String>,
    skip: HashSet<String>,
    journal_dir: Option<std::path::PathBuf>,
    inner: Mutex<Inner>,
}

thread_local! {
    static JOURNAL_FILE: std::cell::RefCell<Option<std::fs::File>> = const { std::cell::RefCell::new(None) };
}

static THREAD_IDX: std::sync::atomic::AtomicUsize = std::sync::atomic::AtomicUsize::new(0);

impl Cx {
    pub fn new(property: &str, tier: Tier, seed: u64, known: HashSet<String>, skip: HashSet<String>, journal_dir: Option<std::path::PathBuf>) -> Self {
        Cx {
            property: property.to_string(),
            tier,
            seed,
            known,
            skip,
            journal_dir,
            inner: Mutex::new(Inner { sections: BTreeMap::new(), order: Vec::new(), violations: Vec::new() }),
        }
    }

    pub fn is_known(&self, sig: &str) -> bool {
        self.known.contains(sig)
    }

    fn with_section<R>(&self, name: &str, f: impl FnOnce(&mut SectionStats) -> R) -> R {
        let mut g = self.inner.lock().unwrap();
        if !g.sections.contains_key(name) {
            g.order.push(name.to_string());
            g.sections.insert(name.to_string(), SectionStats { exhaustive: true, ..Default::default() });
        }
        f(g.sections.get_mut(name).unwrap())
    }

    /// Describe how the section enumerates and what counts as non-trivial.
    pub fn rule(&self, section: &str, rule: &str) {
        self.with_section(section, |s| s.rule = rule.to_string());
    }

    pub fn note(&self, section: &str, key: &str, v: Value) {
        self.with_section(section, |s| {
            s.notes.insert(key.to_string(), v);
        });
    }

    pub fn cap_hit(&self, section: &str, what: &str) {
        self.with_section(section, |s| {
            s.exhaustive = false;
            s.caps.push(what.to_string());
        });
    }

    pub fn add_states(&self, section: &str, states: u64, transitions: u64, max_depth: u64) {
        self.with_section(section, |s| {
            s.states += states;
            s.transitions += transitions;
            s.max_depth = s.max_depth.max(max_depth);
        });
    }

    /// Journal the case that is about to run (crash attribution). Returns false when the case is on
    /// the skip list (it crashed the process in an earlier attempt and is already recorded).
    pub fn journal(&self, section: &str, case: &Value) -> bool {
        let line = json!({"section": section, "case": case}).to_string();
        if self.skip.contains(&line) {
            return false;
        }
        if let Some(dir) = &self.journal_dir {
            JOURNAL_FILE.with(|jf| {
                let mut jf = jf.borrow_mut();
                if jf.is_none() {
                    let idx = THREAD_IDX.fetch_add(1, std::sync::atomic::Ordering::SeqCst);
                    let f = std::fs::OpenOptions::new().create(true).write(true).truncate(true).open(dir.join(format!("t{}", idx))).expect("journal");
                    *jf = Some(f);
                }
                use std::os::unix::fs::FileExt;
                let f = jf.as_ref().unwrap();
                let rec = format!("{:010}\n{}", line.len(), line);
                let _ = f.write_at(rec.as_bytes(), 0);
            });
        }
        true
    }

    /// Record the outcome of one case. Returns true when the case violated (known or not).
    pub fn record(&self, section: &str, case: impl FnOnce() -> Value, out: &CaseOut) -> bool {
        let mut g = self.inner.lock().unwrap();
        if !g.sections.contains_key(section) {
            g.order.push(section.to_string());
            g.sections.insert(section.to_string(), SectionStats { exhaustive: true, ..Default::default() });
        }
        let s = g.sections.get_mut(section).unwrap();
        s.evaluations += 1;
        if out.nontrivial {
            s.nontrivial += 1;
            s.distinct_obs.insert(out.obs);
        }
        // samples: first 3, then powers of 4
        let n = s.evaluations;
        if n % 1024 == 0 || n == 2 {
            // progress marker: if the process dies or hangs before the section's checkpoint, what it had covered is still known
            if let Some(dir) = &self.journal_dir {
                let (mut ev, mut dn) = (0u64, 0u64);
                for st in g.sections.values() {
                    ev += st.evaluations;
                    dn += st.distinct_obs.len() as u64;
                }
                let _ = std::fs::write(dir.join("progress.json"), serde_json::json!({"evaluations": ev, "distinct_nontrivial": dn}).to_string());
            }
        }
        let s = g.sections.get_mut(section).unwrap();
        let want_sample = n <= 3 || (n.is_power_of_two() && n.trailing_zeros() % 3 == 0 && s.samples.len() < 12);
        let mut case_val = None;
        if want_sample && out.violation.is_none() {
            let v = case();
            s.samples.push(v);
        } else if out.violation.is_some() {
            case_val = Some(case());
        }
        if let Some((sig, desc)) = &out.violation {
            let known = self.known.contains(sig);
            let cv = case_val.unwrap();
            if let Some(v) = g.violations.iter_mut().find(|v| v.signature == *sig && v.section == section) {
                v.count += 1;
                // keep the smallest (then lexicographically first) counterexample: deterministic
                // under parallel exploration and the easiest to read
                let (a, b) = (cv.to_string(), v.case.to_string());
                if (a.len(), &a) < (b.len(), &b) {
                    v.case = cv;
                    v.desc = desc.clone();
                }
            } else {
                // a first violation of a signature is also written out at once: the violating case may have damaged the
                // process (heap corruption) so that it dies later, in a case that is innocent on its own
                if let Some(dir) = &self.journal_dir {
                    use std::io::Write;
                    if let Ok(mut f) = std::fs::OpenOptions::new().create(true).append(true).open(dir.join("violations.jsonl")) {
                        let _ = writeln!(f, "{}", serde_json::json!({"section": section, "signature": sig, "desc": desc, "case": cv, "known": known}));
                    }
                }
                g.violations.push(ViolationRec {
                    section: section.to_string(),
                    signature: sig.clone(),
                    desc: desc.clone(),
                    case: cv,
                    count: 1,
                    known,
                });
            }
            return true;
        }
        false
    }

    /// Account for a sweep that is too large to record case by case: `evals` cases were executed,
    /// `distinct` of them had pairwise distinct observations (counted by the sweep), `violation`
    /// carries the first failing case of the chunk, if any.
    pub fn bulk(&self, section: &str, evals: u64, distinct: u64, sample: Value, violation: Option<(String, String, Value)>) {
        let mut g = self.inner.lock().unwrap();
        if !g.sections.contains_key(section) {
            g.order.push(section.to_string());
            g.sections.insert(section.to_string(), SectionStats { exhaustive: true, ..Default::default() });
        }
        let s = g.sections.get_mut(section).unwrap();
        s.evaluations += evals;
        s.nontrivial += evals;
        s.bulk_distinct += distinct;
        if s.samples.len() < 6 {
            s.samples.push(sample);
        }
        if let Some((sig, desc, case)) = violation {
            let known = self.known.contains(&sig);
            if let Some(v) = g.violations.iter_mut().find(|v| v.signature == sig && v.section == section) {
                v.count += 1;
            } else {
                g.violations.push(ViolationRec { section: section.to_string(), signature: sig, desc, case, count: 1, known });
            }
        }
    }

    /// Journal + run + record, for input/cell enumerations.
    pub fn eval(&self, section: &str, case: &Value, f: impl FnOnce() -> CaseOut) -> bool {
        if !self.journal(section, case) {
            return true;
        }
        let out = f();
        self.record(section, || case.clone(), &out)
    }

    /// Add an externally established violation (e.g. a crash found by the parent process).
    pub fn push_violation(&self, section: &str, sig: &str, desc: &str, case: Value) {
        let mut g = self.inner.lock().unwrap();
        let known = self.known.contains(sig);
        g.violations.push(ViolationRec { section: section.into(), signature: sig.into(), desc: desc.into(), case, count: 1, known });
    }

    pub fn violations(&self) -> Vec<ViolationRec> {
        self.inner.lock().unwrap().violations.clone()
    }

    /// Build the JSON report consumed by /verif/check.
    pub fn report(&self, level: &str, assumptions: &[String], wall_s: f64) -> Value {
        let g = self.inner.lock().unwrap();
        let mut evaluations = 0u64;
        let mut distinct = 0u64;
        let mut states = 0u64;
        let mut transitions = 0u64;
        let mut exhaustive = true;
        let mut samples: Vec<Value> = Vec::new();
        let mut sections = Vec::new();
        let mut rules = Vec::new();
        for name in &g.order {
            let s = &g.sections[name];
            evaluations += s.evaluations;
            distinct += s.distinct_obs.len() as u64 + s.bulk_distinct;
            states += s.states;
            transitions += s.transitions;
            exhaustive &= s.exhaustive;
            for (i, smp) in s.samples.iter().enumerate() {
                if i < 4 {
                    samples.push(json!({"section": name, "case": smp}));
                }
            }
            if !s.rule.is_empty() {
                rules.push(format!("[{}] {}", name, s.rule));
            }
            let mut o = Map::new();
            o.insert("section".into(), json!(name));
            o.insert("evaluations".into(), json!(s.evaluations));
            o.insert("nontrivial".into(), json!(s.nontrivial));
            o.insert("distinct_outcomes".into(), json!(s.distinct_obs.len() as u64 + s.bulk_distinct));
            if s.states > 0 {
                o.insert("states".into(), json!(s.states));
                o.insert("transitions".into(), json!(s.transitions));
                o.insert("max_depth".into(), json!(s.max_depth));
            }
            o.insert("exhaustive".into(), json!(s.exhaustive));
            if !s.caps.is_empty() {
                o.insert("caps_hit".into(), json!(s.caps));
            }
            for (k, v) in &s.notes {
                o.insert(k.clone(), v.clone());
            }
            sections.push(Value::Object(o));
        }
        let viol: Vec<Value> = g
            .violations
            .iter()
            .map(|v| json!({"section": v.section, "signature": v.signature, "desc": v.desc, "case": v.case, "count": v.count, "known": v.known}))
            .collect();
        json!({
            "property_id": self.property,
            "tier": self.tier.name(),
            "seed": self.seed,
            "level": level,
            "wall_s": wall_s,
            "assumptions": assumptions,
            "coverage": {
                "evaluations": evaluations,
                "distinct_nontrivial": distinct,
                "states": states,
                "transitions": transitions,
                "traces_validated_against_impl": evaluations,
                "rule": rules.join(" | "),
                "samples": samples,
                "exhaustive": exhaustive,
                "sections": sections,
            },
            "violation_records": viol,
        })
    }
}
