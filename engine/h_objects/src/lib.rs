//! Object harnesses over generated traits (C01, C02, C04, C06–C08, C13).
pub use h_objbase::{harness, support};
use h_objbase::harness::TraitCase;

pub type RawCheck = (usize, &'static str, fn() -> Result<u64, (String, String)>);

#[cfg(not(feature = "thorough"))]
macro_rules! shards {
    ($f:ident) => {{
        let mut v = Vec::new();
        v.extend(hs_q0::$f()); v.extend(hs_q1::$f()); v.extend(hs_q2::$f()); v.extend(hs_q3::$f());
        v.extend(hs_q4::$f()); v.extend(hs_q5::$f()); v.extend(hs_q6::$f()); v.extend(hs_q7::$f());
        v
    }};
}
#[cfg(feature = "thorough")]
macro_rules! shards {
    ($f:ident) => {{
        let mut v = Vec::new();
        v.extend(hs_t0::$f()); v.extend(hs_t1::$f()); v.extend(hs_t2::$f()); v.extend(hs_t3::$f());
        v.extend(hs_t4::$f()); v.extend(hs_t5::$f()); v.extend(hs_t6::$f()); v.extend(hs_t7::$f());
        v
    }};
}

/// every trait of the grammar tier this build was generated for
pub fn all_traits() -> Vec<TraitCase> {
    let mut v: Vec<TraitCase> = shards!(all);
    v.sort_by_key(|t| t.idx);
    v
}

pub fn all_raw_checks() -> Vec<RawCheck> {
    let mut v: Vec<RawCheck> = shards!(raw_checks);
    v.sort_by_key(|t| t.0);
    v
}

/// C08 cast matrix cells and C04 group layout cells of every generated group family
pub fn all_cells() -> Vec<harness::Cell> {
    let mut v = Vec::new();
    v.extend(hg_gn1::cells()); v.extend(hg_gn2::cells()); v.extend(hg_gn3::cells());
    #[cfg(feature = "thorough")]
    v.extend(hg_gn4::cells());
    v.extend(hg_gopt::cells()); v.extend(hg_gali::cells()); v.extend(hg_gmut::cells()); v.extend(hg_gord::cells()); v.extend(hg_gcase::cells()); v.extend(hg_gfwd::cells());
    v
}

pub fn all_layouts() -> Vec<harness::LayoutCell> {
    let mut v = Vec::new();
    v.extend(hg_gn1::layouts()); v.extend(hg_gn2::layouts()); v.extend(hg_gn3::layouts());
    #[cfg(feature = "thorough")]
    v.extend(hg_gn4::layouts());
    v.extend(hg_gopt::layouts()); v.extend(hg_gali::layouts()); v.extend(hg_gmut::layouts()); v.extend(hg_gord::layouts()); v.extend(hg_gcase::layouts()); v.extend(hg_gfwd::layouts());
    v
}
