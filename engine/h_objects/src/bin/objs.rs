//! C01 / C02 over the program grammar G.
use explore::driver::{CheckDef, Section};
use explore::Cx;
use h_objects::harness::*;
use rayon::prelude::*;

fn run_cell(f: fn() -> Result<u64, (String, String)>) -> explore::CaseOut {
    use h_objects::support::alloc;
    alloc::begin();
    let r = std::panic::catch_unwind(f);
    let rep = alloc::end();
    match r {
        Err(_) => explore::CaseOut::bad("panic", "panicked"),
        Ok(Err((sig, d))) => explore::CaseOut::bad(sig, d),
        Ok(Ok(obs)) => {
            if rep.clean() {
                explore::CaseOut::ok(obs)
            } else {
                explore::CaseOut::bad(format!("alloc:{}", rep.signature()), rep.describe())
            }
        }
    }
}

/// a matrix cell is its own case: fold its name into the observation digest
fn named(mut o: explore::CaseOut, name: &str) -> explore::CaseOut {
    o.obs ^= explore::digest(&name);
    o
}

fn main() {
    std::panic::set_hook(Box::new(|_| {}));
    let args: Vec<String> = std::env::args().collect();
    let prop = args.iter().position(|a| a == "--property").map(|i| args[i + 1].clone()).unwrap_or_else(|| "C01".to_string());
    let prop: &'static str = Box::leak(prop.into_boxed_str());
    let mut sections = Vec::new();
    if prop == "C02" || prop == "C01" {
        sections.push(Section {
            name: "values",
            explore: Box::new(|cx: &Cx| {
                let cases = h_objects::all_traits();
                cx.rule("values", "for every trait of the grammar tier (receiver x argument shape x return shape, every shape in positions 1 and 2) every single call over the whole value domain of its argument shapes (all listed slices incl. empty/zero-sized/offset, strings incl. empty/non-ASCII/interior NUL, None/Some extremes, Ok/Err extremes, extreme integers, impl Into sources, by-value struct, out-parameter, callbacks stopping at each position, iterators of length 0/1/4, fn pointer, raw pointer) x every return arm, through every container that can carry the trait {Box, ArcBox, Mut, ArcMut, Ref, ArcRef, CArcSome}; oracle: differential against the direct call — same returned value, same addresses seen, callee writes visible to the caller, same call log (method id, argument digest as seen by the callee, instance id, state at entry), same final state, payload dropped once, context count back to start, allocator balanced");
                cx.note("values", "traits", serde_json::json!(cases.len()));
                cases.par_iter().for_each(|tc| {
                    for seq in sequences(tc, 1) {
                        run_one(cx, "values", tc, &seq);
                    }
                });
            }),
            replay: Box::new(|c| replay(&h_objects::all_traits(), c)),
        });
    }
    if prop == "C01" {
        sections.push(Section {
            name: "sequences",
            explore: Box::new(|cx: &Cx| {
                let cases = h_objects::all_traits();
                let depth = cx.tier.pick(3, 4);
                cx.rule("sequences", &format!("for every trait of the grammar tier every call sequence of length 2..={} over (action, return arm), consuming calls last; same differential oracle as [values], compared step by step", depth));
                let mut nodes = 0u64;
                for d in 2..=depth {
                    let n: u64 = cases.par_iter().map(|tc| {
                        // depth 4 only for traits with few actions (the multi-method members are the point there)
                        if d >= 4 && tc.actions.len() > 6 {
                            return 0;
                        }
                        let seqs = sequences(tc, d);
                        for seq in &seqs {
                            run_one(cx, "sequences", tc, seq);
                        }
                        seqs.len() as u64
                    }).sum();
                    nodes += n;
                }
                cx.add_states("sequences", nodes, nodes, depth as u64);
            }),
            replay: Box::new(|c| replay(&h_objects::all_traits(), c)),
        });
    }
    if prop == "C01" {
        sections.push(Section {
            name: "builtin_fmt_traits",
            explore: Box::new(|cx: &Cx| {
                cx.rule("builtin_fmt_traits", "hand member xq: a type implements each of the nine built-in formatting traits (Display, Debug, Octal, LowerHex, UpperHex, Pointer, Binary, LowerExp, UpperExp) with its own distinct output; a group holding all nine (boxed, with and without a CArc context) is formatted with every specifier into a String - the text and the Ok/Err verdict must equal those of formatting the value directly, for an implementor that succeeds and for one that returns Err by itself after part of its output; built-in Write objects (by reference and boxed) over a sink that records every piece and refuses the k-th call: a script of write_str calls incl. empty strings gives the same per-call results, pieces and call count as on the sink directly");
                for (idx, desc, f) in h_objects::all_raw_checks() {
                    if !desc.starts_with("[C01]") {
                        continue;
                    }
                    let case = serde_json::json!({"trait": idx, "shape": desc, "raw": true});
                    cx.eval("builtin_fmt_traits", &case, || match std::panic::catch_unwind(f) {
                        Err(_) => explore::CaseOut::bad("panic", "panicked"),
                        Ok(Err((sig, d))) => explore::CaseOut::bad(sig, d),
                        Ok(Ok(obs)) => explore::CaseOut::ok(obs ^ idx as u64),
                    });
                }
            }),
            replay: Box::new(|c| {
                let idx = c["trait"].as_u64().unwrap() as usize;
                match h_objects::all_raw_checks().into_iter().find(|x| x.0 == idx) {
                    None => explore::CaseOut::bad("replay:no_such_trait", "not in this tier"),
                    Some((_, _, f)) => match f() {
                        Err((sig, d)) => explore::CaseOut::bad(sig, d),
                        Ok(o) => explore::CaseOut::ok(o),
                    },
                }
            }),
        });
    }
    if prop == "C13" {
        sections.push(Section {
            name: "int_result_traits",
            explore: Box::new(|cx: &Cx| {
                let cases: Vec<_> = h_objects::all_traits().into_iter().filter(|t| t.desc.contains("ret=int_") || t.desc.contains("ret=no_int") || t.desc.contains("int_result")).collect();
                let depth = cx.tier.pick(3, 3);
                cx.rule("int_result_traits", &format!("every trait of the grammar tier whose method uses #[int_result] (Result<u64,()>, Result<(),()>, Result<droppable,()>, Result<u64, io::Error> with OS and non-OS errors, Result<u64, fmt::Error>, a result alias via #[int_result(PResult)], #[no_int_result]) x every receiver x every call sequence of length <= {} over (argument value, Ok/Err arm) through Box/ArcBox/Mut/ArcMut/Ref/ArcRef/CArcSome objects; oracle: the caller's Result equals the callee's (differential against the direct call), payloads dropped exactly once, allocator balanced", depth));
                cx.note("int_result_traits", "traits", serde_json::json!(cases.len()));
                let mut nodes = 0u64;
                for d in 1..=depth {
                    let n: u64 = cases.par_iter().map(|tc| {
                        let seqs = sequences(tc, d);
                        for seq in &seqs {
                            run_one(cx, "int_result_traits", tc, seq);
                        }
                        seqs.len() as u64
                    }).sum();
                    nodes += n;
                }
                cx.add_states("int_result_traits", nodes, nodes, depth as u64);
            }),
            replay: Box::new(|c| replay(&h_objects::all_traits(), c)),
        });
    }
    if prop == "C13" {
        sections.push(Section {
            name: "int_result_signatures",
            explore: Box::new(|cx: &Cx| {
                cx.rule("int_result_signatures", "for every trait of the grammar tier with a method marked to use integer results (method-level, trait-level, with a result alias, both levels in one trait): the C signature of that vtable entry, as the compiler names it, returns the i32 code (and the entry sits in its declaration slot); hand member xi drives the raw entries of a trait-level int_result trait with ONE output slot per payload kind (plain, with a destructor, wrapped associated-type object): Err on a poisoned slot, Ok, Err again - every byte of the slot must be as before after a failed call, the success value is owned by the caller and dropped exactly once");
                for (idx, desc, f) in h_objects::all_raw_checks() {
                    if !(desc.contains("int_") || desc.contains("int_result")) {
                        continue;
                    }
                    let case = serde_json::json!({"trait": idx, "shape": desc, "raw": true});
                    cx.eval("int_result_signatures", &case, || match std::panic::catch_unwind(f) {
                        Err(_) => explore::CaseOut::bad("panic", "panicked"),
                        Ok(Err((sig, d))) => explore::CaseOut::bad(sig, d),
                        Ok(Ok(obs)) => explore::CaseOut::ok(obs ^ idx as u64),
                    });
                }
            }),
            replay: Box::new(|c| {
                let idx = c["trait"].as_u64().unwrap() as usize;
                match h_objects::all_raw_checks().into_iter().find(|x| x.0 == idx) {
                    None => explore::CaseOut::bad("replay:no_such_trait", "not in this tier"),
                    Some((_, _, f)) => match f() {
                        Err((sig, d)) => explore::CaseOut::bad(sig, d),
                        Ok(o) => explore::CaseOut::ok(o),
                    },
                }
            }),
        });
    }
    if prop == "C04" {
        sections.push(Section {
            name: "vtable_slots",
            explore: Box::new(|cx: &Cx| {
                let checks = h_objects::all_raw_checks();
                cx.rule("vtable_slots", "for every trait of the grammar tier: the static vtable of a Box container is reinterpreted as raw words; it must be exactly one function pointer per method, word i must be the entry of the i-th declared method, and *calling* word i the way a C caller would (container + wrapped arguments, incl. the int_result out-parameter) must run method i exactly once on the instance; the concrete (CBox<T>) and the opaque (CBox<c_void>) object must have equal size, alignment and bit pattern");
                for (idx, desc, f) in checks {
                    if desc.starts_with("[C01]") {
                        continue;
                    }
                    let case = serde_json::json!({"trait": idx, "shape": desc});
                    cx.eval("vtable_slots", &case, || match std::panic::catch_unwind(f) {
                        Err(_) => explore::CaseOut::bad("panic", "panicked"),
                        Ok(Err((sig, d))) => explore::CaseOut::bad(sig, d),
                        Ok(Ok(obs)) => explore::CaseOut::ok(obs ^ idx as u64),
                    });
                }
            }),
            replay: Box::new(|c| {
                let idx = c["trait"].as_u64().unwrap() as usize;
                match h_objects::all_raw_checks().into_iter().find(|x| x.0 == idx) {
                    None => explore::CaseOut::bad("replay:no_such_trait", "not in this tier"),
                    Some((_, _, f)) => match f() {
                        Err((sig, d)) => explore::CaseOut::bad(sig, d),
                        Ok(o) => explore::CaseOut::ok(o),
                    },
                }
            }),
        });
    }
    if prop == "C04" {
        sections.push(Section {
            name: "group_layout",
            explore: Box::new(|cx: &Cx| {
                cx.rule("group_layout", "matrix: generated group family (1-4 optional traits, no mandatory trait, aliased generic instantiations, traits with &mut methods, mandatory+optional traits declared out of name order) x every set of traits enabled by the implementing type x container {Box, Mut, Ref} x context {none, CArc}; the group object is read as raw machine words the way a C caller reads it: vtable pointers in name order (mandatory first, then optional, null when not enabled) — each non-null pointer is *called through* (vtbl->slot0(&container)) and must reach the trait it is supposed to be —, then instance, then context, no bytes of temporary storage; cast/upcast keep the bit pattern; the final (into!) form is mandatory + requested pointers + the same container");
                for c in h_objects::all_layouts() {
                    let case = serde_json::json!({"cell": c.name, "group": c.group, "enabled": c.enabled, "container": c.container, "context": c.context});
                    cx.eval("group_layout", &case, || named(run_cell(c.run), c.name));
                }
            }),
            replay: Box::new(|c| {
                let n = c["cell"].as_str().unwrap();
                match h_objects::all_layouts().into_iter().find(|x| x.name == n) {
                    None => explore::CaseOut::bad("replay:no_such_cell", "not in this tier"),
                    Some(cell) => run_cell(cell.run),
                }
            }),
        });
    }
    if prop == "C08" {
        sections.push(Section {
            name: "cast_matrix",
            explore: Box::new(|cx: &Cx| {
                cx.rule("cast_matrix", "matrix: generated group family (n = 1..N optional traits with a mandatory trait, a family without mandatory trait, aliased generic instantiations Tt<usize>/Tt<u64>, traits with &mut methods, out-of-order declarations) x all 2^n implementing types (one cglue_impl_group! each; the type implements every trait but enables only the subset) x all 2^n-1 requested subsets x {check, as_ref, as_mut, cast, into} x {Box, Mut, Ref}; oracle: success <=> requested subset of enabled; after success every mandatory and requested method returns the value of this instance and trait (instance id + per-trait constant), mutations reach the instance, cast+upcast gives a group for which check! holds for exactly the enabled set, boxed payload dropped exactly once / borrowed payload never dropped");
                let cells = h_objects::all_cells();
                cx.note("cast_matrix", "cells", serde_json::json!(cells.len()));
                cells.par_iter().for_each(|c| {
                    let case = serde_json::json!({"cell": c.name, "group": c.group, "enabled": c.enabled, "requested": c.requested, "container": c.container, "op": c.op, "expect_success": c.expect});
                    cx.eval("cast_matrix", &case, || named(run_cell(c.run), c.name));
                });
            }),
            replay: Box::new(|c| {
                let n = c["cell"].as_str().unwrap();
                match h_objects::all_cells().into_iter().find(|x| x.name == n) {
                    None => explore::CaseOut::bad("replay:no_such_cell", "not in this tier"),
                    Some(cell) => run_cell(cell.run),
                }
            }),
        });
    }
    explore::run_main(CheckDef {
        property: prop,
        level: if prop == "C01" { "exploration" } else { "exploration" },
        assumptions: vec![
            "programs outside the grammar (nested wrapped shapes, user custom_impl bodies) are not covered".into(),
            "call sequences longer than the depth bound are not covered".into(),
        ],
        sections,
        no_isolation: false,
    });
}
