//! Drives the real code generator (`cglue_gen`) as a library.
//!
//!   expander expand <in.rs> <out.rs>
//!       Every `#[cglue_trait]` / `#[cglue_trait_ext]` trait item and every `cglue_trait_group!` /
//!       `cglue_impl_group!` invocation in <in.rs> is replaced by what the generator produces for it;
//!       all other items are copied. The result is plain Rust without cglue proc-macro definitions (the
//!       cast/obj macros and helper attributes that the expansion itself uses still come from cglue).
//!   expander signature <in.rs>
//!       Prints the *layout signature* of the expansion as JSON: for every `#[repr(C)]`/transparent
//!       struct the ordered list of (field name, field type tokens).
//!
//! Must be run under cargo with CARGO_MANIFEST_DIR pointing at a crate that depends on `cglue`
//! (the generator finds the crate path through proc_macro_crate).

use quote::ToTokens;
use syn::visit::Visit;
use syn::{Item, ItemStruct};

fn has_attr(attrs: &[syn::Attribute], name: &str) -> bool {
    attrs.iter().any(|a| a.path.segments.last().map(|s| s.ident == name).unwrap_or(false))
}

fn expand_file(src: &str) -> proc_macro2::TokenStream {
    let file: syn::File = syn::parse_str(src).expect("parse input");
    let mut out = proc_macro2::TokenStream::new();
    for a in &file.attrs {
        a.to_tokens(&mut out);
    }
    expand_items(file.items, &mut out);
    out
}

fn expand_items(items: Vec<Item>, out: &mut proc_macro2::TokenStream) {
    for item in items {
        match item {
            Item::Trait(mut tr) if has_attr(&tr.attrs, "cglue_trait") || has_attr(&tr.attrs, "cglue_trait_ext") => {
                let ext = has_attr(&tr.attrs, "cglue_trait_ext");
                tr.attrs.retain(|a| {
                    let n = a.path.segments.last().map(|s| s.ident.to_string()).unwrap_or_default();
                    n != "cglue_trait" && n != "cglue_trait_ext"
                });
                let ts = if ext {
                    let id = quote::format_ident!("{}Ext", tr.ident);
                    cglue_gen::traits::gen_trait(tr, Some(&id))
                } else {
                    cglue_gen::traits::gen_trait(tr, None)
                };
                out.extend(ts);
            }
            Item::Macro(m) => {
                let name = m.mac.path.segments.last().map(|s| s.ident.to_string()).unwrap_or_default();
                match name.as_str() {
                    "cglue_trait_group" => {
                        let g: cglue_gen::trait_groups::TraitGroup = syn::parse2(m.mac.tokens.clone()).expect("parse group");
                        out.extend(g.create_group());
                    }
                    "cglue_impl_group" => {
                        let g: cglue_gen::trait_groups::TraitGroupImpl = syn::parse2(m.mac.tokens.clone()).expect("parse impl group");
                        out.extend(g.implement_group());
                    }
                    _ => m.to_tokens(out),
                }
            }
            Item::Mod(mut md) => {
                if let Some((brace, items)) = md.content.take() {
                    let mut inner = proc_macro2::TokenStream::new();
                    expand_items(items, &mut inner);
                    let parsed: syn::File = syn::parse2(inner).expect("reparse mod");
                    md.content = Some((brace, parsed.items));
                }
                md.to_tokens(out);
            }
            other => other.to_tokens(out),
        }
    }
}

fn print_items(items: &[Item], out: &mut String) {
    for item in items {
        match item {
            Item::Mod(md) if md.content.is_some() => {
                for a in md.attrs.iter().filter(|a| matches!(a.style, syn::AttrStyle::Outer)) {
                    out.push_str(&a.to_token_stream().to_string());
                    out.push('\n');
                }
                out.push_str(&format!("{} mod {} {{\n", md.vis.to_token_stream(), md.ident));
                for a in md.attrs.iter().filter(|a| !matches!(a.style, syn::AttrStyle::Outer)) {
                    out.push_str(&a.to_token_stream().to_string());
                    out.push('\n');
                }
                print_items(&md.content.as_ref().unwrap().1, out);
                out.push_str("}\n");
            }
            other => {
                out.push_str(&other.to_token_stream().to_string());
                out.push('\n');
            }
        }
    }
}

struct Sig(Vec<serde_json::Value>);

impl<'ast> Visit<'ast> for Sig {
    fn visit_item_struct(&mut self, s: &'ast ItemStruct) {
        let repr: Vec<String> = s
            .attrs
            .iter()
            .filter(|a| a.path.is_ident("repr"))
            .map(|a| a.tokens.to_string().replace(' ', ""))
            .collect();
        let fields: Vec<serde_json::Value> = s
            .fields
            .iter()
            .enumerate()
            .map(|(i, f)| {
                let name = f.ident.as_ref().map(|i| i.to_string()).unwrap_or_else(|| i.to_string());
                serde_json::json!([name, f.ty.to_token_stream().to_string()])
            })
            .collect();
        self.0.push(serde_json::json!({"struct": s.ident.to_string(), "generics": s.generics.to_token_stream().to_string(), "repr": repr, "fields": fields}));
        syn::visit::visit_item_struct(self, s);
    }
}

fn main() {
    let args: Vec<String> = std::env::args().collect();
    match args.get(1).map(|s| s.as_str()) {
        Some("expand") => {
            let src = std::fs::read_to_string(&args[2]).expect("read");
            let ts = expand_file(&src);
            // one item per line (modules recursively), so that compiler spans identify the item
            let file: syn::File = syn::parse2(ts).expect("reparse");
            let mut out = String::new();
            for a in &file.attrs {
                out.push_str(&a.to_token_stream().to_string());
                out.push('\n');
            }
            print_items(&file.items, &mut out);
            std::fs::write(&args[3], out).expect("write");
        }
        Some("signature") => {
            let src = std::fs::read_to_string(&args[2]).expect("read");
            let ts = expand_file(&src);
            let file: syn::File = syn::parse2(ts).expect("reparse");
            let mut sig = Sig(Vec::new());
            sig.visit_file(&file);
            println!("{}", serde_json::to_string(&sig.0).unwrap());
        }
        Some("signature-store") => {
            // the library's own built-in external traits (Clone, fmt::*, AsRef, ...; with the `task` / `futures`
            // features of cglue-gen also Future, Stream, Sink): what cglue_builtin_ext_traits!() expands to
            let ts = cglue_gen::ext::impl_store();
            let file: syn::File = syn::parse2(ts).expect("parse store");
            let mut out = proc_macro2::TokenStream::new();
            expand_items(file.items, &mut out);
            let file: syn::File = syn::parse2(out).expect("reparse store");
            let mut sig = Sig(Vec::new());
            sig.visit_file(&file);
            println!("{}", serde_json::to_string(&sig.0).unwrap());
        }
        _ => {
            eprintln!("usage: expander expand <in.rs> <out.rs> | signature <in.rs> | signature-store");
            std::process::exit(2);
        }
    }
}
