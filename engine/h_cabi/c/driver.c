/* C16 cross-check driver: knows the cglue runtime types ONLY through the published header. */
#include <stdio.h>
#include <string.h>
#include "bindings.h"

extern uint64_t vf_drops(void);
extern CBox_c_void vf_make_box(uint64_t v);
extern uint64_t vf_box_value(const void *instance);
extern CArc_c_void vf_make_arc(uint64_t v);
extern uint64_t vf_arc_count(const void *instance);
extern uint64_t vf_take_arc(CArc_c_void a);
extern void vf_take_box(CBox_c_void b);
extern struct CSliceRef_u8 vf_make_slice(uintptr_t n);
extern uint64_t vf_sum_slice(struct CSliceRef_u8 s);
extern uintptr_t vf_feed_kv(KeyValueCallback cb, uintptr_t n);
extern int64_t vf_sum_iter(struct CIterator_i32 it);

static int fails = 0;
#define CHECK(name, cond) do { if (cond) printf("ok %s\n", name); else { printf("FAIL %s\n", name); fails++; } } while (0)

static size_t stop_after;
static bool cb_stop(size_t *cnt, KeyValue kv) { (void)kv; return ++(*cnt) < stop_after; }

int main(void) {
    /* box = {instance, drop function} */
    uint64_t d0 = vf_drops();
    CBox_c_void b = vf_make_box(41);
    CHECK("box_instance_nonnull", b.instance != NULL && b.drop_fn != NULL);
    CHECK("box_value_through_instance", vf_box_value(b.instance) == 41);
    cont_box_drop(&b);                       /* the published helper: drop_fn(instance) */
    CHECK("box_release_drops_once", vf_drops() == d0 + 1);
    CBox_c_void b2 = vf_make_box(42);
    vf_take_box(b2);                         /* handed back by value */
    CHECK("box_by_value_roundtrip", vf_drops() == d0 + 2);

    /* arc = {instance, clone function, drop function} */
    CArc_c_void a = vf_make_arc(7);
    CHECK("arc_fields_nonnull", a.instance && a.clone_fn && a.drop_fn);
    CHECK("arc_count_1", vf_arc_count(a.instance) == 1);
    CArc_c_void a2 = ctx_arc_clone(&a);      /* published helper: instance = clone_fn(instance) */
    CHECK("arc_clone_same_instance", a2.instance == a.instance);
    CHECK("arc_count_2", vf_arc_count(a.instance) == 2);
    ctx_arc_drop(&a2);
    CHECK("arc_count_back_to_1", vf_arc_count(a.instance) == 1);
    uint64_t d1 = vf_drops();
    CHECK("arc_taken_by_rust", vf_take_arc(a) == 1);
    CHECK("arc_payload_dropped_once", vf_drops() == d1 + 1);
    CArc_c_void empty; memset(&empty, 0, sizeof empty);
    CHECK("arc_empty_is_noop", vf_take_arc(empty) == 0 && vf_drops() == d1 + 1);

    /* slices = {data, length} */
    struct CSliceRef_u8 s = vf_make_slice(3);
    CHECK("slice_fields", s.len == 3 && s.data[0] == 10 && s.data[2] == 30);
    struct CSliceRef_u8 e = vf_make_slice(0);
    CHECK("slice_empty", e.len == 0);
    CHECK("slice_from_c", vf_sum_slice(STR("abc")) == (uint64_t)('a' + 'b' + 'c') * 1000 + 3);
    CHECK("slice_from_c_empty", vf_sum_slice(REF_SLICE(u8, (const unsigned char *)"", 0)) == 0);

    /* callbacks = {context, function}; function returns true to continue */
    COLLECT_CB(KeyValue, col);
    CHECK("callback_collect_count", vf_feed_kv(col, 5) == 5 && col_base.size == 5);
    KeyValue *got = *col_data;
    CHECK("callback_items_in_order", got[0]._1 == 0 && got[4]._1 == 28 && got[1]._0.len == 2 && got[1]._0.data[0] == 'b');
    free(col_base.buf);
    size_t cnt = 0; stop_after = 3;
    Callback_c_void__KeyValue stop = CALLBACK(KeyValue, &cnt, cb_stop);
    CHECK("callback_stop_at_false", vf_feed_kv(stop, 9) == 3 && cnt == 3);

    /* iterators = {state, next function returning 0 for an item} */
    int32_t arr[4] = {1, 2, 3, 4};
    BUF_ITER_ARR_SPEC(i32, int32_t, it, arr);
    CHECK("iterator_items", vf_sum_iter(it) == 1234 * 100 + 4);
    BUF_ITER_SPEC(i32, int32_t, it0, arr, 0);
    CHECK("iterator_empty", vf_sum_iter(it0) == 0);

    printf("%s %d\n", fails ? "FAILED" : "ALL_OK", fails);
    return fails ? 1 : 0;
}
