//! C16 cross-check: factories and consumers of the runtime wrapper types, linked into a C program that knows
//! these types ONLY through the declarations published in /repo/examples/pregen-headers/bindings.h.

use cglue::arc::CArc;
use cglue::boxed::CBox;
use cglue::callback::OpaqueCallback;
use cglue::iter::CIterator;
use cglue::slice::CSliceRef;
use cglue::trait_group::{c_void, Opaquable};
use std::sync::atomic::{AtomicU64, Ordering::SeqCst};

static DROPS: AtomicU64 = AtomicU64::new(0);
static LIVE_ARC: AtomicU64 = AtomicU64::new(0);

struct Tracked(u64);
impl Drop for Tracked {
    fn drop(&mut self) {
        DROPS.fetch_add(1, SeqCst);
    }
}

/// the KeyValue of the published header: `struct KeyValue { struct CSliceRef_u8 _0; uintptr_t _1; }`
#[repr(C)]
pub struct KeyValue<'a>(pub CSliceRef<'a, u8>, pub usize);

#[no_mangle]
pub extern "C" fn vf_drops() -> u64 {
    DROPS.load(SeqCst)
}

#[no_mangle]
pub extern "C" fn vf_make_box(v: u64) -> CBox<'static, c_void> {
    CBox::from(Tracked(v)).into_opaque()
}

/// reads the payload through the instance pointer of a box that C still owns
#[no_mangle]
pub extern "C" fn vf_box_value(instance: *const c_void) -> u64 {
    unsafe { (*(instance as *const Tracked)).0 }
}

#[no_mangle]
pub extern "C" fn vf_make_arc(v: u64) -> CArc<c_void> {
    LIVE_ARC.store(0, SeqCst);
    CArc::from(Tracked(v)).into_opaque()
}

/// strong count of the allocation behind an arc handle that C owns
#[no_mangle]
pub extern "C" fn vf_arc_count(instance: *const c_void) -> u64 {
    unsafe {
        let a = std::sync::Arc::from_raw(instance as *const Tracked);
        let n = std::sync::Arc::strong_count(&a) as u64;
        std::mem::forget(a);
        n
    }
}

/// Rust takes ownership of an arc handle assembled/cloned by C and drops it
#[no_mangle]
pub extern "C" fn vf_take_arc(a: CArc<c_void>) -> u64 {
    let had = a.as_ref().is_some() as u64;
    drop(a);
    had
}

/// Rust takes ownership of a box handle that C holds and drops it
#[no_mangle]
pub extern "C" fn vf_take_box(b: CBox<'static, c_void>) {
    drop(b);
}

static BYTES: [u8; 5] = [10, 20, 30, 40, 50];

#[no_mangle]
pub extern "C" fn vf_make_slice(n: usize) -> CSliceRef<'static, u8> {
    CSliceRef::from(&BYTES[..n])
}

#[no_mangle]
pub extern "C" fn vf_sum_slice(s: CSliceRef<u8>) -> u64 {
    s.as_slice().iter().map(|b| *b as u64).sum::<u64>() * 1000 + s.len() as u64
}

/// feeds n key/value pairs into a callback built by C with the published macros
#[no_mangle]
pub extern "C" fn vf_feed_kv(mut cb: OpaqueCallback<KeyValue>, n: usize) -> usize {
    let keys: [&str; 4] = ["a", "bb", "ccc", "dddd"];
    let mut offered = 0;
    for i in 0..n {
        offered += 1;
        if !cb.call(KeyValue(CSliceRef::from(keys[i % 4]), i * 7)) {
            break;
        }
    }
    offered
}

/// drains an iterator built by C with the published macros
#[no_mangle]
pub extern "C" fn vf_sum_iter(it: CIterator<i32>) -> i64 {
    let mut acc = 0i64;
    let mut n = 0i64;
    for v in it {
        acc = acc * 10 + v as i64;
        n += 1;
    }
    acc * 100 + n
}
