//! Harness-side instrumentation: a layout-checking tracking allocator, drop-counting payloads
//! and small helpers. Nothing here touches /repo; all state is thread-local, so explorations can
//! run one case per worker thread in parallel.

pub mod alloc;
pub mod drops;

pub use alloc::{TrackAlloc, AllocReport};
pub use drops::{Dc, DcHeap, DcZst, DropScope};
