//! Drop-counting payloads. Each payload gets an id from a thread-local registry when it is
//! constructed; `Drop` increments the count of that id (never panics: drops may run inside
//! `extern "C"` functions where a panic would abort the process).

use std::cell::RefCell;

thread_local! {
    static REG: RefCell<Vec<u32>> = const { RefCell::new(Vec::new()) };
}

/// Opens a fresh registry on this thread; the previous content is discarded.
pub struct DropScope;

impl DropScope {
    pub fn new() -> Self {
        crate::alloc::untracked(|| REG.with(|r| { let mut r = r.borrow_mut(); r.clear(); r.reserve(64); }));
        reset_bogus();
        DropScope
    }
    /// number of ids handed out so far
    pub fn ids(&self) -> usize {
        REG.with(|r| r.borrow().len())
    }
    pub fn count(&self, id: usize) -> u32 {
        REG.with(|r| r.borrow().get(id).copied().unwrap_or(u32::MAX))
    }
    pub fn counts(&self) -> Vec<u32> {
        crate::alloc::untracked(|| REG.with(|r| r.borrow().clone()))
    }
    /// ids whose drop count is not exactly `want`
    pub fn not_equal(&self, want: u32) -> Vec<usize> {
        crate::alloc::untracked(|| {
            REG.with(|r| r.borrow().iter().enumerate().filter(|(_, &c)| c != want).map(|(i, _)| i).collect())
        })
    }
}

impl Default for DropScope {
    fn default() -> Self {
        Self::new()
    }
}

fn fresh() -> usize {
    crate::alloc::untracked(|| {
        REG.with(|r| {
            let mut r = r.borrow_mut();
            r.push(0);
            r.len() - 1
        })
    })
}

thread_local! {
    static BOGUS: std::cell::Cell<u64> = const { std::cell::Cell::new(0) };
}

/// Drops of payloads whose id was never handed out (i.e. a `Dc` fabricated from garbage memory).
pub fn bogus_drops() -> u64 {
    BOGUS.with(|b| b.get())
}

pub fn reset_bogus() {
    BOGUS.with(|b| b.set(0));
}

fn bump(id: usize) {
    // try_with: a payload leaked into thread teardown must not panic
    let _ = REG.try_with(|r| {
        if let Ok(mut r) = r.try_borrow_mut() {
            if let Some(c) = r.get_mut(id) {
                *c = c.saturating_add(1);
            } else {
                let _ = BOGUS.try_with(|b| b.set(b.get() + 1));
            }
        }
    });
}

/// Plain drop-counting payload (no heap state). `val` is free for the harness to use.
#[derive(Debug, PartialEq, Eq, Hash, PartialOrd, Ord)]
#[repr(C)]
pub struct Dc {
    pub id: usize,
    pub val: u64,
}

impl Dc {
    pub fn new(val: u64) -> Self {
        Dc { id: fresh(), val }
    }
}

impl Drop for Dc {
    fn drop(&mut self) {
        bump(self.id);
    }
}

/// Cloning makes a *new* payload (new id) with the same value.
impl Clone for Dc {
    fn clone(&self) -> Self {
        Dc::new(self.val)
    }
}

/// Drop-counting payload that owns heap memory (so a double drop is also a double free, and a
/// missing drop is also a leak, as seen by `TrackAlloc`).
#[derive(Debug)]
pub struct DcHeap {
    pub id: usize,
    pub boxed: Box<u64>,
}

impl DcHeap {
    pub fn new(val: u64) -> Self {
        DcHeap { id: fresh(), boxed: Box::new(val) }
    }
    pub fn val(&self) -> u64 {
        *self.boxed
    }
}

impl Drop for DcHeap {
    fn drop(&mut self) {
        bump(self.id);
    }
}

impl Clone for DcHeap {
    fn clone(&self) -> Self {
        DcHeap::new(*self.boxed)
    }
}

/// Zero-sized drop counter cannot carry an id; it counts into a single thread-local cell.
#[derive(Debug)]
pub struct DcZst;

thread_local! {
    static ZST_NEW: std::cell::Cell<u64> = const { std::cell::Cell::new(0) };
    static ZST_DROP: std::cell::Cell<u64> = const { std::cell::Cell::new(0) };
}

impl DcZst {
    pub fn new() -> Self {
        ZST_NEW.with(|c| c.set(c.get() + 1));
        DcZst
    }
    pub fn reset() {
        ZST_NEW.with(|c| c.set(0));
        ZST_DROP.with(|c| c.set(0));
    }
    /// (constructed, dropped)
    pub fn stats() -> (u64, u64) {
        (ZST_NEW.with(|c| c.get()), ZST_DROP.with(|c| c.get()))
    }
}

impl Default for DcZst {
    fn default() -> Self {
        Self::new()
    }
}

impl Clone for DcZst {
    fn clone(&self) -> Self {
        DcZst::new()
    }
}

impl Drop for DcZst {
    fn drop(&mut self) {
        let _ = ZST_DROP.try_with(|c| c.set(c.get() + 1));
    }
}
