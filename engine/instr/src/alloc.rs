//! Tracking global allocator.
//!
//! Between `begin()` and `end()` on a thread every allocation made on that thread is recorded
//! (pointer -> layout, with a sequence number) and gets a red zone appended. A deallocation
//!  * of a recorded pointer with a different layout   -> `LayoutMismatch` event (block is freed
//!    with the layout it was allocated with, so the heap stays sane),
//!  * of a pointer that was already freed in this window and not handed out again -> `DoubleFree`
//!    event, **not forwarded**,
//!  * whose red zone was overwritten -> `RedzoneCorrupt` event,
//!  * of an unknown pointer (allocated before the window / on another thread) -> forwarded.
//! Whatever is still recorded at `end()` is reported as leaked.
//!
//! Freed blocks are *quarantined* until `end()`: they are filled with 0xDD and not returned to the
//! system allocator while the window is open, so no address is reused inside a window, a
//! use-after-free cannot corrupt the real heap, and a write into freed memory is detected at
//! `end()` (`UseAfterFreeWrite`).
//!
//! The red zone is filled with 0xA5 and ends in a NUL byte, so a C-string scan that runs off the
//! end of a block terminates deterministically inside memory we own.
//!
//! Harness bookkeeping that must outlive the window is allocated inside `untracked(..)`.

use std::alloc::{GlobalAlloc, Layout, System};
use std::cell::Cell;
use std::collections::HashMap;

pub const REDZONE: usize = 32;

pub struct TrackAlloc;

#[derive(Debug, Clone, PartialEq, Eq)]
pub enum AllocEvent {
    LayoutMismatch { seq: u64, alloc_size: usize, alloc_align: usize, free_size: usize, free_align: usize },
    DoubleFree { seq: u64, size: usize },
    RedzoneCorrupt { seq: u64, size: usize, first_bad_offset: usize },
    UseAfterFreeWrite { seq: u64, size: usize, first_bad_offset: usize },
}

#[derive(Debug, Clone, Default, PartialEq, Eq)]
pub struct AllocReport {
    pub allocs: u64,
    pub frees: u64,
    pub events: Vec<AllocEvent>,
    /// (sequence number, size, align) of blocks still live at `end()`
    pub leaked: Vec<(u64, usize, usize)>,
}

impl AllocReport {
    pub fn clean(&self) -> bool {
        self.events.is_empty() && self.leaked.is_empty()
    }
    pub fn describe(&self) -> String {
        let mut s = String::new();
        for e in &self.events {
            s.push_str(&format!("{:?}; ", e));
        }
        if !self.leaked.is_empty() {
            let bytes: usize = self.leaked.iter().map(|l| l.1).sum();
            s.push_str(&format!(
                "leaked {} block(s), {} bytes, sizes {:?}",
                self.leaked.len(),
                bytes,
                self.leaked.iter().map(|l| l.1).collect::<Vec<_>>()
            ));
        }
        s
    }
    /// Stable signature (no addresses / sequence numbers).
    pub fn signature(&self) -> String {
        let mut parts: Vec<String> = Vec::new();
        for e in &self.events {
            parts.push(match e {
                AllocEvent::LayoutMismatch { .. } => "layout_mismatch".into(),
                AllocEvent::DoubleFree { .. } => "double_free".into(),
                AllocEvent::RedzoneCorrupt { .. } => "redzone".into(),
                AllocEvent::UseAfterFreeWrite { .. } => "use_after_free_write".into(),
            });
        }
        if !self.leaked.is_empty() {
            parts.push("leak".into());
        }
        parts.sort();
        parts.dedup();
        parts.join("+")
    }
}

struct Tracker {
    /// ptr -> (layout, seq, size of the underlying System block)
    live: HashMap<usize, (Layout, u64, usize)>,
    /// quarantine: ptr -> (seq, layout it was allocated with, size of the underlying System block)
    freed: HashMap<usize, (u64, Layout, usize)>,
    seq: u64,
    allocs: u64,
    frees: u64,
    events: Vec<AllocEvent>,
}

thread_local! {
    static TRACKER: Cell<*mut Tracker> = const { Cell::new(std::ptr::null_mut()) };
    static BYPASS: Cell<u32> = const { Cell::new(0) };
    /// 0: every growth relocates the block. n > 0: blocks are carved in size classes of n bytes and a
    /// `realloc` that stays inside the class keeps the address (what size-class allocators do).
    static CLASS: Cell<usize> = const { Cell::new(0) };
}

/// Choose how `realloc` behaves for blocks allocated from now on, on this thread: 0 = always relocate
/// (the default), n > 0 = grow in place while the new size fits the block's n-byte size class.
pub fn set_size_class(n: usize) {
    CLASS.with(|c| c.set(n));
}

struct BypassGuard;
impl BypassGuard {
    fn new() -> Self {
        BYPASS.with(|b| b.set(b.get() + 1));
        BypassGuard
    }
}
impl Drop for BypassGuard {
    fn drop(&mut self) {
        BYPASS.with(|b| b.set(b.get() - 1));
    }
}

/// Run `f` with allocation tracking suspended (frees of tracked blocks are still accounted).
pub fn untracked<R>(f: impl FnOnce() -> R) -> R {
    let _g = BypassGuard::new();
    f()
}

/// Is a window open on this thread?
pub fn active() -> bool {
    TRACKER.try_with(|t| !t.get().is_null()).unwrap_or(false)
}

/// Open a tracking window on the current thread.
pub fn begin() {
    let _g = BypassGuard::new();
    let t = Box::new(Tracker {
        live: HashMap::new(),
        freed: HashMap::new(),
        seq: 0,
        allocs: 0,
        frees: 0,
        events: Vec::new(),
    });
    TRACKER.with(|c| {
        assert!(c.get().is_null(), "nested alloc window");
        c.set(Box::into_raw(t));
    });
}

/// Number of live tracked blocks and their total size.
pub fn live() -> (usize, usize) {
    let _g = BypassGuard::new();
    TRACKER.with(|c| {
        let p = c.get();
        if p.is_null() {
            return (0, 0);
        }
        let t = unsafe { &*p };
        (t.live.len(), t.live.values().map(|v| v.0.size()).sum())
    })
}

/// Size of the live tracked block that starts at `ptr` (None: not a live tracked block start).
pub fn block_size(ptr: *const u8) -> Option<usize> {
    TRACKER.with(|c| {
        let p = c.get();
        if p.is_null() {
            return None;
        }
        unsafe { (*p).live.get(&(ptr as usize)).map(|(l, _, _)| l.size()) }
    })
}

/// Number of events recorded so far in this window.
pub fn events_so_far() -> usize {
    TRACKER.with(|c| {
        let p = c.get();
        if p.is_null() {
            0
        } else {
            unsafe { (*p).events.len() }
        }
    })
}

/// Close the window. Blocks still live are reported as leaked and stay allocated.
pub fn end() -> AllocReport {
    let _g = BypassGuard::new();
    let p = TRACKER.with(|c| c.replace(std::ptr::null_mut()));
    assert!(!p.is_null(), "alloc window not open");
    let mut t = unsafe { Box::from_raw(p) };
    let mut q: Vec<(usize, (u64, Layout, usize))> = t.freed.drain().collect();
    q.sort_by_key(|e| (e.1).0);
    for (ptr, (seq, al, phys)) in q {
        unsafe {
            let base = ptr as *const u8;
            for i in 0..al.size() {
                if *base.add(i) != 0xDD {
                    t.events.push(AllocEvent::UseAfterFreeWrite { seq, size: al.size(), first_bad_offset: i });
                    break;
                }
            }
            System.dealloc(ptr as *mut u8, Layout::from_size_align_unchecked(phys, al.align()));
        }
    }
    let mut leaked: Vec<(u64, usize, usize)> =
        t.live.values().map(|(l, s, _)| (*s, l.size(), l.align())).collect();
    leaked.sort();
    AllocReport { allocs: t.allocs, frees: t.frees, events: t.events.clone(), leaked }
}

/// Convenience: run `f` inside a fresh window.
pub fn scope<R>(f: impl FnOnce() -> R) -> (R, AllocReport) {
    begin();
    let r = f();
    let rep = end();
    (r, rep)
}

fn class_cap(size: usize) -> usize {
    let c = CLASS.try_with(|c| c.get()).unwrap_or(0);
    if c == 0 {
        size
    } else {
        size.div_ceil(c).max(1) * c
    }
}

fn padded(l: Layout) -> Layout {
    Layout::from_size_align(class_cap(l.size()) + REDZONE, l.align()).unwrap()
}

unsafe fn write_redzone(p: *mut u8, size: usize) {
    let rz = p.add(size);
    std::ptr::write_bytes(rz, 0xA5, REDZONE - 1);
    *rz.add(REDZONE - 1) = 0;
}

unsafe fn check_redzone(p: *const u8, size: usize) -> Option<usize> {
    let rz = p.add(size);
    for i in 0..REDZONE {
        let want = if i == REDZONE - 1 { 0 } else { 0xA5 };
        if *rz.add(i) != want {
            return Some(i);
        }
    }
    None
}

unsafe impl GlobalAlloc for TrackAlloc {
    unsafe fn alloc(&self, layout: Layout) -> *mut u8 {
        let tp = TRACKER.try_with(|c| c.get()).unwrap_or(std::ptr::null_mut());
        if tp.is_null() {
            return System.alloc(layout);
        }
        if BYPASS.try_with(|b| b.get()).unwrap_or(1) > 0 {
            return System.alloc(layout);
        }
        let _g = BypassGuard::new();
        let phys = padded(layout);
        let p = System.alloc(phys);
        if p.is_null() {
            return p;
        }
        write_redzone(p, layout.size());
        let t = &mut *tp;
        t.seq += 1;
        t.allocs += 1;
        t.live.insert(p as usize, (layout, t.seq, phys.size()));
        p
    }

    unsafe fn realloc(&self, ptr: *mut u8, layout: Layout, new_size: usize) -> *mut u8 {
        let tp = TRACKER.try_with(|c| c.get()).unwrap_or(std::ptr::null_mut());
        if !tp.is_null() && BYPASS.try_with(|b| b.get()).unwrap_or(1) == 0 {
            let _g = BypassGuard::new();
            let t = &mut *tp;
            if let Some(&(al, seq, phys)) = t.live.get(&(ptr as usize)) {
                // in place: the block was carved with slack (size-class mode) and the new size fits it
                if phys > al.size() + REDZONE && new_size + REDZONE <= phys && new_size > al.size() {
                    if al != layout {
                        t.events.push(AllocEvent::LayoutMismatch {
                            seq,
                            alloc_size: al.size(),
                            alloc_align: al.align(),
                            free_size: layout.size(),
                            free_align: layout.align(),
                        });
                    }
                    if let Some(i) = check_redzone(ptr, al.size()) {
                        t.events.push(AllocEvent::RedzoneCorrupt { seq, size: al.size(), first_bad_offset: i });
                    }
                    write_redzone(ptr, new_size);
                    let nl = Layout::from_size_align_unchecked(new_size, al.align());
                    t.live.insert(ptr as usize, (nl, seq, phys));
                    return ptr;
                }
            }
        }
        // relocate: allocate, copy, free (each step tracked as usual)
        let nl = Layout::from_size_align_unchecked(new_size, layout.align());
        let np = self.alloc(nl);
        if !np.is_null() {
            std::ptr::copy_nonoverlapping(ptr, np, layout.size().min(new_size));
            self.dealloc(ptr, layout);
        }
        np
    }

    unsafe fn dealloc(&self, ptr: *mut u8, layout: Layout) {
        let tp = TRACKER.try_with(|c| c.get()).unwrap_or(std::ptr::null_mut());
        if tp.is_null() {
            return System.dealloc(ptr, layout);
        }
        let _g = BypassGuard::new();
        let t = &mut *tp;
        match t.live.remove(&(ptr as usize)) {
            Some((al, seq, phys)) => {
                t.frees += 1;
                if al != layout {
                    t.events.push(AllocEvent::LayoutMismatch {
                        seq,
                        alloc_size: al.size(),
                        alloc_align: al.align(),
                        free_size: layout.size(),
                        free_align: layout.align(),
                    });
                }
                if let Some(i) = check_redzone(ptr, al.size()) {
                    t.events.push(AllocEvent::RedzoneCorrupt { seq, size: al.size(), first_bad_offset: i });
                }
                // quarantine + poison: use-after-free reads see 0xDD, writes are detected at end()
                std::ptr::write_bytes(ptr, 0xDD, al.size());
                t.freed.insert(ptr as usize, (seq, al, phys));
            }
            None => {
                if let Some(&(seq, al, _)) = t.freed.get(&(ptr as usize)) {
                    t.events.push(AllocEvent::DoubleFree { seq, size: al.size() });
                    // not forwarded
                } else {
                    System.dealloc(ptr, layout);
                }
            }
        }
    }
}
