//! Objects and groups whose payload is ZERO-SIZED and has a destructor: nothing is allocated for it, every shortcut for
//! "nothing to move" is tempting - and the value must still be destroyed exactly once over every path, including the paths that
//! hand it to a by-value method.
#![allow(clippy::all)]
use crate::defs::*;
use cglue::arc::CArc;
use cglue::trait_group::Opaquable;
use cglue::*;
use explore::digest;
use instr::DcZst;
use std::sync::Arc;

#[cglue_trait]
pub trait ZT {
    fn zv(&self) -> u64;
    fn zconsume(self) -> u64;
    fn zconsume_res(self, fail: bool) -> Result<u64, u32>;
}
pub struct ZPay(pub DcZst);
impl ZT for ZPay {
    fn zv(&self) -> u64 {
        3
    }
    fn zconsume(self) -> u64 {
        4
    }
    fn zconsume_res(self, fail: bool) -> Result<u64, u32> {
        if fail {
            Err(9)
        } else {
            Ok(5)
        }
    }
}
impl Extra for ZPay {
    fn extra(&self) -> u64 {
        6
    }
}
cglue_trait_group!(ZGrp, ZT, { Extra });
cglue_impl_group!(ZPay, ZGrp, { Extra });

pub const KINDS: [&str; 4] = ["object", "object + CArc context", "group", "group + CArc context"];
pub const PATHS: [&str; 9] = ["drop", "call, drop", "consume", "consume_res Ok", "consume_res Err", "cast, drop", "cast, consume", "cast, upcast, consume", "into!, consume"];

pub fn run(kind: usize, path: usize) -> Option<Result<u64, (String, String)>> {
    assert_eq!(::core::mem::size_of::<ZPay>(), 0);
    DcZst::reset();
    let arc = Arc::new(());
    let what = format!("{} over a zero-sized payload with a destructor / {}", KINDS[kind], PATHS[path]);
    let mut ret = 0u64;
    macro_rules! alive {
        () => {
            if DcZst::stats() != (1, 0) {
                return Some(Err(("zst:early_drop".into(), format!("{}: (constructed, destroyed) = {:?} while the object is alive", what, DcZst::stats()))));
            }
        };
    }
    macro_rules! obj_paths {
        ($o:expr) => {{
            let o = $o;
            alive!();
            match path {
                0 => drop(o),
                1 => {
                    ret = o.zv();
                    alive!();
                    drop(o)
                }
                2 => ret = o.zconsume(),
                3 => ret = o.zconsume_res(false).unwrap_or(99),
                4 => ret = o.zconsume_res(true).map(|_| 99u64).unwrap_or(7),
                _ => {
                    drop(o);
                    return None;
                }
            }
        }};
    }
    macro_rules! grp_paths {
        ($g:expr) => {{
            let g = $g;
            alive!();
            match path {
                0 => drop(g),
                1 => {
                    ret = g.zv();
                    alive!();
                    drop(g)
                }
                2 => ret = g.zconsume(),
                3 => ret = g.zconsume_res(false).unwrap_or(99),
                4 => ret = g.zconsume_res(true).map(|_| 99u64).unwrap_or(7),
                5 => {
                    let c = cast!(g impl Extra).unwrap();
                    ret = c.extra();
                    alive!();
                    drop(c)
                }
                6 => {
                    let c = cast!(g impl Extra).unwrap();
                    alive!();
                    ret = c.zconsume()
                }
                7 => {
                    let c = cast!(g impl Extra).unwrap();
                    let b = c.upcast();
                    alive!();
                    ret = b.zconsume()
                }
                _ => {
                    let f = into!(g impl Extra).unwrap();
                    alive!();
                    ret = f.zconsume()
                }
            }
        }};
    }
    match kind {
        0 => obj_paths!(trait_obj!(ZPay(DcZst::new()) as ZT)),
        1 => obj_paths!(trait_obj!((ZPay(DcZst::new()), CArc::<()>::from(arc.clone())) as ZT)),
        2 => grp_paths!(group_obj!(ZPay(DcZst::new()) as ZGrp)),
        _ => grp_paths!(group_obj!((ZPay(DcZst::new()), CArc::<()>::from(arc.clone())) as ZGrp)),
    }
    let (n, d) = DcZst::stats();
    if (n, d) != (1, 1) {
        return Some(Err(("zst:drop_count".into(), format!("{}: {} zero-sized payload(s) constructed, {} destroyed after the object is gone (exactly one destruction expected)", what, n, d))));
    }
    if Arc::strong_count(&arc) != 1 {
        return Some(Err(("zst:ctx".into(), format!("{}: context count {} after the object is gone", what, Arc::strong_count(&arc)))));
    }
    Some(Ok(digest(&(kind, path, ret))))
}
