//! Payloads WITHOUT drop glue (plain data): nothing counts their destruction, but the memory allocated for them must
//! still be freed, with the layout it was allocated with. Every (container kind, path) cell runs in its own allocation
//! window; the verdict is the allocator's (leaks, layout mismatches, double frees).
#![allow(clippy::all)]
use crate::defs::*;
use cglue::arc::CArc;
use cglue::boxed::{CBox, CSliceBox};
use cglue::trait_group::Opaquable;
use cglue::*;
use cglue_macro::check;
use explore::digest;
use std::sync::Arc;

#[derive(Clone, Copy)]
pub struct Pod {
    pub a: u64,
    pub b: [u8; 5],
}
impl Leaf for Pod {
    fn val(&self) -> u64 {
        self.a + self.b[0] as u64
    }
}
impl Extra for Pod {
    fn extra(&self) -> u64 {
        self.a + 1
    }
}
cglue_impl_group!(Pod, LeafGrp, { Extra, Clone });

pub const KINDS: [&str; 8] = ["CBox<[u64;3]>", "CBox<u8> from Box", "CSliceBox<u32> len 3", "CSliceBox<u64> len 0", "object over plain data", "object over plain data + CArc context", "group over plain data", "group over plain data + CArc context"];
pub const PATHS: [&str; 7] = ["drop", "into_opaque, drop", "use, drop", "cast to an enabled trait, drop", "cast, upcast, drop", "into! an enabled trait, drop", "clone, drop both"];

fn pod() -> Pod {
    Pod { a: 40, b: [2, 0, 0, 0, 0] }
}

/// -> None if the cell does not exist for this kind
pub fn run(kind: usize, path: usize) -> Option<Result<u64, (String, String)>> {
    let bad = |what: &str| Some(Err(("pod:value".to_string(), format!("{} / {}: {}", KINDS[kind], PATHS[path], what))));
    match kind {
        0 => {
            let b: CBox<[u64; 3]> = CBox::from([1u64, 2, 3]);
            match path {
                0 => drop(b),
                1 => drop(b.into_opaque()),
                2 => {
                    if b[1] != 2 {
                        return bad("element differs");
                    }
                    drop(b)
                }
                _ => {
                    std::mem::drop(b);
                    return None;
                }
            }
        }
        1 => {
            let b: CBox<u8> = CBox::from(Box::new(7u8));
            match path {
                0 => drop(b),
                1 => drop(b.into_opaque()),
                2 => {
                    if *b != 7 {
                        return bad("value differs");
                    }
                    drop(b)
                }
                _ => {
                    std::mem::drop(b);
                    return None;
                }
            }
        }
        2 | 3 => {
            let v: Vec<u32> = if kind == 2 { vec![5, 6, 7] } else { vec![] };
            let v64: Vec<u64> = vec![];
            if kind == 2 {
                let b = CSliceBox::from(v.into_boxed_slice());
                match path {
                    0 => drop(b),
                    1 => drop(b.into_opaque()),
                    2 => {
                        if b.len() != 3 || b[2] != 7 {
                            return bad("slice differs");
                        }
                        drop(b)
                    }
                    _ => {
                        std::mem::drop(b);
                        return None;
                    }
                }
            } else {
                let b = CSliceBox::from(v64.into_boxed_slice());
                match path {
                    0 => drop(b),
                    1 => drop(b.into_opaque()),
                    2 => {
                        if !b.is_empty() {
                            return bad("slice differs");
                        }
                        drop(b)
                    }
                    _ => {
                        std::mem::drop(b);
                        return None;
                    }
                }
            }
        }
        4 | 5 => {
            let arc = Arc::new(9u64);
            macro_rules! paths {
                ($o:expr) => {{
                    let o = $o;
                    match path {
                        0 => drop(o),
                        2 => {
                            if o.val() != 42 {
                                return bad("object answers differently");
                            }
                            drop(o)
                        }
                        _ => {
                            std::mem::drop(o);
                            return None;
                        }
                    }
                }};
            }
            if kind == 4 {
                paths!(trait_obj!(pod() as Leaf));
            } else {
                paths!(trait_obj!((pod(), CArc::<u64>::from(arc.clone())) as Leaf));
            }
            if Arc::strong_count(&arc) != 1 {
                return bad("context still referenced");
            }
        }
        _ => {
            let arc = Arc::new(9u64);
            macro_rules! paths {
                ($g:expr) => {{
                    let g = $g;
                    match path {
                        0 => drop(g),
                        2 => {
                            if g.val() != 42 || !check!(g impl Extra) {
                                return bad("group answers differently");
                            }
                            drop(g)
                        }
                        3 => match cast!(g impl Extra) {
                            Some(c) => {
                                if c.extra() != 41 {
                                    return bad("cast object answers differently");
                                }
                                drop(c)
                            }
                            None => return bad("cast to an enabled trait failed"),
                        },
                        4 => match cast!(g impl Extra) {
                            Some(c) => drop(c.upcast()),
                            None => return bad("cast to an enabled trait failed"),
                        },
                        5 => match into!(g impl Extra) {
                            Some(c) => drop(c),
                            None => return bad("into! an enabled trait failed"),
                        },
                        6 => match as_ref!(g impl Clone) {
                            Some(c) => {
                                let d = c.clone();
                                drop(d);
                                drop(g)
                            }
                            None => return bad("Clone is enabled but as_ref! failed"),
                        },
                        _ => {
                            std::mem::drop(g);
                            return None;
                        }
                    }
                }};
            }
            if kind == 6 {
                paths!(group_obj!(pod() as LeafGrp));
            } else {
                paths!(group_obj!((pod(), CArc::<u64>::from(arc.clone())) as LeafGrp));
            }
            if Arc::strong_count(&arc) != 1 {
                return bad("context still referenced");
            }
        }
    }
    Some(Ok(digest(&(kind, path))))
}
