//! Hand-written structure members: a tree of objects sharing one context.
#![allow(clippy::all)]
use cglue::*;
use instr::DcHeap;

thread_local! {
    static SEQ: std::cell::Cell<u64> = const { std::cell::Cell::new(0) };
    /// sequence number of the most recent payload (instance) destruction
    pub static LAST_PAYLOAD_DROP: std::cell::Cell<u64> = const { std::cell::Cell::new(0) };
}
pub fn next_seq() -> u64 {
    SEQ.with(|s| {
        s.set(s.get() + 1);
        s.get()
    })
}
fn note_payload_drop() {
    let n = next_seq();
    let _ = LAST_PAYLOAD_DROP.try_with(|c| c.set(n));
}
impl Drop for LeafImp {
    fn drop(&mut self) {
        note_payload_drop();
    }
}
impl Drop for NodeImp {
    fn drop(&mut self) {
        note_payload_drop();
    }
}

#[cglue_trait]
pub trait Leaf {
    fn val(&self) -> u64;
}

#[cglue_trait]
pub trait Extra {
    fn extra(&self) -> u64;
}

cglue_trait_group!(LeafGrp, Leaf, { Extra, Clone });
// by-reference groups cannot carry Clone (a clone of a borrowed container cannot be built)
cglue_trait_group!(LeafRGrp, Leaf, { Extra });

/// leaf payload; `E`/`C` decide which optional traits the group enables
pub struct LeafImp {
    pub dc: DcHeap,
}
impl LeafImp {
    pub fn new(v: u64) -> Self {
        LeafImp { dc: DcHeap::new(v) }
    }
}
impl Leaf for LeafImp {
    fn val(&self) -> u64 {
        self.dc.val()
    }
}
impl Extra for LeafImp {
    fn extra(&self) -> u64 {
        self.dc.val() + 1
    }
}
impl Clone for LeafImp {
    fn clone(&self) -> Self {
        LeafImp::new(self.dc.val() + 1000)
    }
}
cglue_impl_group!(LeafImp, LeafGrp, { Extra, Clone });
cglue_impl_group!(LeafImp, LeafRGrp, { Extra });

macro_rules! leaf_variant {
    ($name:ident, { $($en:ident),* }) => {
        pub struct $name(pub LeafImp);
        impl Leaf for $name { fn val(&self) -> u64 { self.0.val() } }
        impl Extra for $name { fn extra(&self) -> u64 { self.0.extra() } }
        impl Clone for $name { fn clone(&self) -> Self { $name(self.0.clone()) } }
        cglue_impl_group!($name, LeafGrp, { $($en),* });
    };
}
leaf_variant!(LeafNone, {});
leaf_variant!(LeafE, { Extra });
leaf_variant!(LeafC, { Clone });

#[cglue_trait]
pub trait Node {
    #[wrap_with_obj(Leaf)]
    type Owned: Leaf + 'static;
    #[wrap_with_group(LeafGrp)]
    type OwnedG: Leaf + 'static;
    #[wrap_with_obj_ref(Leaf)]
    type Borrowed: Leaf + 'static;
    #[wrap_with_obj_mut(Leaf)]
    type BorrowedM: Leaf + 'static;
    #[wrap_with_group_ref(LeafRGrp)]
    type BorrowedG: Leaf + 'static;

    fn plain(&self) -> u64;
    fn child(&self) -> Self::Owned;
    fn child_group(&self) -> Self::OwnedG;
    fn child_ref(&self) -> &Self::Borrowed;
    /// a second method returning a borrow of the same wrapped type (its result must not disturb the first one's)
    fn child_ref2(&self) -> &Self::Borrowed;
    fn child_mut(&mut self) -> &mut Self::BorrowedM;
    fn child_group_ref(&self) -> &Self::BorrowedG;
    fn consume(self) -> u64;
    /// by-value call with a plain Result (no wrapped value takes the context over)
    fn consume_res(self, fail: bool) -> Result<u64, u32>;
    fn consume_into(self) -> Self::Owned;
    /// Ok(child) when `made` (number of children handed out so far) is even, Err otherwise
    #[allow(clippy::result_unit_err)]
    fn consume_try(self) -> Result<Self::Owned, ()>;
    #[int_result]
    #[allow(clippy::result_unit_err)]
    fn consume_try_int(self) -> Result<Self::Owned, ()>;
}

pub struct NodeImp {
    pub dc: DcHeap,
    pub kid: LeafImp,
    pub kid_m: LeafImp,
    pub kid_g: LeafImp,
    pub made: std::cell::Cell<u64>,
}
impl NodeImp {
    pub fn new(v: u64) -> Self {
        NodeImp { dc: DcHeap::new(v), kid: LeafImp::new(v + 1), kid_m: LeafImp::new(v + 2), kid_g: LeafImp::new(v + 3), made: std::cell::Cell::new(0) }
    }
    fn fresh(&self) -> u64 {
        self.made.set(self.made.get() + 1);
        self.dc.val() + 10 * self.made.get()
    }
}
impl Node for NodeImp {
    type Owned = LeafImp;
    type OwnedG = LeafImp;
    type Borrowed = LeafImp;
    type BorrowedM = LeafImp;
    type BorrowedG = LeafImp;
    fn plain(&self) -> u64 {
        self.dc.val()
    }
    fn child(&self) -> LeafImp {
        LeafImp::new(self.fresh())
    }
    fn child_group(&self) -> LeafImp {
        LeafImp::new(self.fresh())
    }
    fn child_ref(&self) -> &LeafImp {
        &self.kid
    }
    fn child_ref2(&self) -> &LeafImp {
        &self.kid_m
    }
    fn child_mut(&mut self) -> &mut LeafImp {
        &mut self.kid_m
    }
    fn child_group_ref(&self) -> &LeafImp {
        &self.kid_g
    }
    fn consume(self) -> u64 {
        self.dc.val() + 5
    }
    fn consume_res(self, fail: bool) -> Result<u64, u32> {
        if fail {
            Err(7)
        } else {
            Ok(self.dc.val() + 6)
        }
    }
    fn consume_into(mut self) -> LeafImp {
        std::mem::replace(&mut self.kid, LeafImp::new(0))
    }
    fn consume_try(mut self) -> Result<LeafImp, ()> {
        if self.made.get() % 2 == 0 {
            Ok(std::mem::replace(&mut self.kid, LeafImp::new(0)))
        } else {
            Err(())
        }
    }
    fn consume_try_int(self) -> Result<LeafImp, ()> {
        self.consume_try()
    }
}
