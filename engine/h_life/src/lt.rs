//! Owned wrapped children whose associated type is bounded by the trait's lifetime parameter
//! (`type View: Leaf + 'a`, the `for<'a> PluginInner<'a>` pattern): every such child must hold its own
//! clone of the parent's context, for as long as it lives.
//!
//! The children borrow the parent, so they cannot live in the pooled history explorer; this section
//! enumerates every operation sequence up to a depth over one parent and up to three live children.
#![allow(clippy::all)]
use crate::defs::*;
use cglue::arc::CArc;
use cglue::*;
use explore::{digest, CaseOut};
use instr::{DcHeap, DropScope};
use std::sync::Arc;

pub struct Store {
    pub dc: DcHeap,
    pub data: [u64; 3],
}

/// owned object that borrows from the store: boxed and returned by value, but bounded by `'a`
pub struct LtView<'a> {
    store: &'a Store,
    idx: usize,
    dc: DcHeap,
}

impl<'a> Leaf for LtView<'a> {
    fn val(&self) -> u64 {
        self.store.data[self.idx] + self.dc.val()
    }
}
impl<'a> Extra for LtView<'a> {
    fn extra(&self) -> u64 {
        self.val() + 1
    }
}
impl<'a> Clone for LtView<'a> {
    fn clone(&self) -> Self {
        LtView { store: self.store, idx: self.idx, dc: DcHeap::new(self.dc.val()) }
    }
}
cglue_impl_group!(LtView<'a>, LeafGrp, { Extra });

#[cglue_trait]
pub trait Viewer<'a> {
    #[wrap_with_obj(Leaf)]
    type View: Leaf + 'a;
    #[wrap_with_group(LeafGrp)]
    type ViewG: Leaf + 'a;

    fn view(&'a self, idx: usize) -> Self::View;
    fn view_group(&'a self, idx: usize) -> Self::ViewG;
    fn try_view(&'a self, idx: usize) -> Result<Self::View, usize>;
    fn total(&self) -> u64;
}

impl<'a> Viewer<'a> for Store {
    type View = LtView<'a>;
    type ViewG = LtView<'a>;
    fn view(&'a self, idx: usize) -> LtView<'a> {
        LtView { store: self, idx, dc: DcHeap::new(100 * (idx as u64 + 1)) }
    }
    fn view_group(&'a self, idx: usize) -> LtView<'a> {
        LtView { store: self, idx, dc: DcHeap::new(1000 * (idx as u64 + 1)) }
    }
    fn try_view(&'a self, idx: usize) -> Result<LtView<'a>, usize> {
        if idx < self.data.len() {
            Ok(self.view(idx))
        } else {
            Err(idx)
        }
    }
    fn total(&self) -> u64 {
        self.data.iter().sum::<u64>() + self.dc.val()
    }
}

pub struct CtxP(pub DcHeap);

pub const NOPS: u8 = 8;
pub const OP_NAMES: [&str; 8] = ["view", "view_group", "try_view_ok", "try_view_err", "drop_oldest", "drop_newest", "use_all", "parent_call"];
pub const MAX_KIDS: usize = 3;

/// is `op` enabled with `n` live children?
pub fn enabled(op: u8, n: usize) -> bool {
    match op {
        0 | 1 | 2 => n < MAX_KIDS,
        4 | 5 => n > 0,
        _ => true,
    }
}

pub fn run_seq(ops: &[u8]) -> CaseOut {
    match exec(ops) {
        Ok(d) => CaseOut { obs: d, nontrivial: !ops.is_empty(), violation: None },
        Err((s, d)) => CaseOut::bad(s, d),
    }
}

fn leak<T>(v: T) -> &'static T {
    Box::leak(Box::new(v))
}
unsafe fn unleak<T>(p: &'static T) {
    drop(Box::from_raw(p as *const T as *mut T));
}

fn exec(ops: &[u8]) -> Result<u64, (String, String)> {
    let drops = DropScope::new();
    let ctx_payload = CtxP(DcHeap::new(1));
    let ctx_id = ctx_payload.0.id;
    let arc = Arc::new(ctx_payload);
    let store = Store { dc: DcHeap::new(7), data: [10, 20, 30] };
    let store_id = store.dc.id;
    // the children borrow the parent for one fixed lifetime: it lives in a leaked box that is freed by hand at teardown
    let parent = leak(trait_obj!((store, CArc::<CtxP>::from(arc.clone())) as Viewer));
    // (child, expected value)
    let mut kids: Vec<(Box<dyn Leaf + '_>, u64)> = Vec::new();
    let mut obs: Vec<u64> = Vec::new();
    macro_rules! bail {
        ($sig:expr, $($fmt:tt)*) => {{
            // a broken count means an owner without a reference: nothing may run its destructor any more
            let d = format!($($fmt)*);
            std::mem::forget(kids);
            std::mem::forget(arc);
            return Err(($sig.to_string(), d));
        }};
    }
    for (step, op) in ops.iter().enumerate() {
        let name = OP_NAMES[*op as usize];
        let idx = step % 3;
        match *op {
            0 => {
                let c = parent.view(idx);
                kids.push((Box::new(c), [10, 20, 30][idx] + 100 * (idx as u64 + 1)));
            }
            1 => {
                let g = parent.view_group(idx);
                kids.push((Box::new(g), [10, 20, 30][idx] + 1000 * (idx as u64 + 1)));
            }
            2 => match parent.try_view(idx) {
                Ok(c) => kids.push((Box::new(c), [10, 20, 30][idx] + 100 * (idx as u64 + 1))),
                Err(_) => bail!("ltctx:result", "step {} {}: Ok came back as Err", step, name),
            },
            3 => match parent.try_view(7) {
                Err(7) => {}
                Err(e) => bail!("ltctx:result", "step {} {}: Err(7) came back as Err({})", step, name, e),
                Ok(c) => {
                    std::mem::forget(c);
                    bail!("ltctx:result", "step {} {}: Err came back as Ok", step, name)
                }
            },
            4 => {
                let k = kids.remove(0);
                drop(k);
            }
            5 => {
                let k = kids.pop();
                drop(k);
            }
            6 => {}
            _ => {
                if parent.total() != 67 {
                    bail!("ltctx:value", "step {} {}: the parent answers {}", step, name, parent.total());
                }
            }
        }
        let count = Arc::strong_count(&arc);
        if count != 2 + kids.len() {
            bail!("ltctx:count", "step {} {}: context count {} with the parent and {} lifetime-bounded owned child(ren) alive (expected 1 retained + 1 + {})", step, name, count, kids.len(), kids.len());
        }
        for (i, (k, want)) in kids.iter().enumerate() {
            if k.val() != *want {
                bail!("ltctx:value", "step {} {}: child {} answers {} instead of {}", step, name, i, k.val(), want);
            }
        }
        if drops.count(ctx_id) != 0 || drops.count(store_id) != 0 {
            bail!("ltctx:early_drop", "step {} {}: the context payload / the parent's instance was destroyed while the parent is alive", step, name);
        }
        obs.push(digest(&(count, kids.len())));
    }
    // teardown: children (newest first), then the parent, then the retained Arc
    while let Some(k) = kids.pop() {
        drop(k);
        let count = Arc::strong_count(&arc);
        if count != 2 + kids.len() {
            bail!("ltctx:count", "teardown: context count {} with the parent and {} child(ren) left", count, kids.len());
        }
    }
    drop(kids);
    unsafe { unleak(parent) };
    if Arc::strong_count(&arc) != 1 {
        let c = Arc::strong_count(&arc);
        std::mem::forget(arc);
        return Err(("ltctx:not_released".into(), format!("teardown: context count {} after the parent and all children are gone (expected 1)", c)));
    }
    if drops.count(store_id) != 1 {
        return Err(("ltctx:instance_drop".into(), format!("teardown: the parent's instance was destroyed {} time(s)", drops.count(store_id))));
    }
    drop(arc);
    let bad = drops.not_equal(1);
    if !bad.is_empty() {
        return Err(("ltctx:payload_drop".into(), format!("teardown: payload ids {:?} not destroyed exactly once: {:?}", bad, drops.counts())));
    }
    Ok(digest(&obs))
}
