//! C06 / C07 — lifecycle histories over a tree of objects sharing one reference-counted context.
//!
//! Every history is re-executed from scratch on fresh real objects, in lock-step with a reference
//! model: the set of live payload ids (C06) and the number of live context holders (C07).

// the generated code for wrap_with_*_ref/_mut refers to `crate::trait_group` (cglue-gen/src/traits.rs:285,312
// hard-codes `crate::` instead of the crate path), so the module must be visible at the crate root
#[allow(unused_imports)]
use cglue::trait_group;
mod defs;
mod lt;
mod pod;
mod zst;

use cglue::arc::CArc;
use cglue::boxed::{CBox, CSliceBox};
use cglue::trait_group::{c_void, Opaquable};
use cglue::*;
use cglue_macro::check;
use defs::*;
use explore::driver::{CheckDef, Section};
use explore::{digest, hist, CaseOut, Cx, HistSut, StepOut, Tier};
use instr::{alloc, DcHeap, DcZst, DropScope};
use serde::{Deserialize, Serialize};
use serde_json::{json, Value};
use std::sync::atomic::{AtomicU64, Ordering::SeqCst};
use std::sync::Arc;

#[global_allocator]
static GLOBAL: instr::TrackAlloc = instr::TrackAlloc;

type Ctx = CArc<c_void>;
type GC = LeafGrpWithClone<'static, CBox<'static, c_void>, Ctx>;
type GE = LeafGrpWithExtra<'static, CBox<'static, c_void>, Ctx>;
type GCE = LeafGrpWithCloneExtra<'static, CBox<'static, c_void>, Ctx>;

trait DynLeaf {
    fn dval(&self) -> u64;
}
impl<T: Leaf> DynLeaf for T {
    fn dval(&self) -> u64 {
        self.val()
    }
}

/// payload of the context: its drop is the "library unload"
struct CtxP {
    /// set to 1 + (was a cglue_wrapped_ frame on the stack?) when dropped
    dropped: Arc<AtomicU64>,
}
thread_local! {
    /// capture a backtrace when the context payload is dropped (only the consume_last section needs it)
    static CAPTURE: std::cell::Cell<bool> = const { std::cell::Cell::new(false) };
    /// sequence number of the context payload's destruction (see defs::next_seq)
    static CTX_SEQ: std::cell::Cell<u64> = const { std::cell::Cell::new(0) };
}

impl Drop for CtxP {
    fn drop(&mut self) {
        let inside = CAPTURE.with(|c| c.get()) && alloc::untracked(|| std::backtrace::Backtrace::force_capture().to_string().contains("cglue_wrapped_"));
        let n = defs::next_seq();
        let _ = CTX_SEQ.try_with(|c| c.set(n));
        self.dropped.store(if inside { 2 } else { 1 }, SeqCst);
    }
}

enum Ent {
    Node(NodeArcBox<'static>),
    Leaf(LeafArcBox<'static>),
    Grp(LeafGrpArcBox<'static>),
    GC(GC),
    GE(GE),
    GCE(GCE),
    Fin(Box<dyn DynLeaf>),
    Boxed(CBox<'static, DcHeap>),
    Slice(CSliceBox<'static, DcHeap>),
    /// zero-sized payloads with a destructor
    BoxedZ(CBox<'static, DcZst>),
    SliceZ(CSliceBox<'static, DcZst>),
    /// opaque forms (into_opaque)
    OBoxed(CBox<'static, c_void>),
    OSlice(CSliceBox<'static, c_void>),
}

#[derive(Clone, Copy, Debug, Serialize, Deserialize, PartialEq, Eq, Hash)]
enum Sub {
    C,
    E,
    CE,
}

#[derive(Clone, Copy, Debug, Serialize, Deserialize, PartialEq, Eq, Hash)]
enum Op {
    NewNode,
    /// group over a leaf payload enabling: 0 = none, 1 = Extra, 2 = Clone, 3 = both
    NewGroup(u8),
    NewLeaf,
    NewCBox,
    NewSliceBox(usize),
    NewCBoxZst,
    NewSliceBoxZst(usize),
    /// into_opaque of a CBox / CSliceBox entry
    IntoOpaque(usize),
    /// plain call on entry i (any kind)
    Call(usize),
    Child(usize),
    ChildGroup(usize),
    ChildRef(usize),
    /// two borrowed children of the same wrapped type held at the same time
    BothRefs(usize),
    ChildMut(usize),
    ChildGroupRef(usize),
    Consume(usize),
    ConsumeInto(usize),
    /// by-value call returning Result<wrapped child, ()> (CResult / integer-coded); Err when an odd number of
    /// children was handed out before
    ConsumeTry(usize),
    ConsumeTryInt(usize),
    Check(usize, Sub),
    AsRef(usize, Sub),
    AsMut(usize, Sub),
    /// clone through as_ref!(impl Clone)
    CloneVia(usize),
    Cast(usize, Sub),
    Into(usize, Sub),
    Upcast(usize),
    /// clone of a cast object that has Clone
    CloneCast(usize),
    Drop(usize),
}

#[derive(Clone, Debug, PartialEq, Eq, Hash, PartialOrd, Ord)]
enum Kind {
    Node,
    Leaf,
    Grp(u8),
    GC(u8),
    GE(u8),
    GCE(u8),
    Fin,
    Boxed,
    Slice,
    BoxedZ,
    SliceZ(usize),
    OBoxed(usize),
    OSlice(usize),
}

struct Meta {
    /// zero-sized payloads owned
    zst: usize,
    kind: Kind,
    owned: Vec<usize>,
    holds_ctx: bool,
    /// value the leaf-ish entry reports
    val: u64,
}

struct Sut {
    max_pool: usize,
    /// the borrowed-child context leak (DESIGN 5.1) is present on this tree: expectations are adjusted and
    /// the finding is reported once by the section
    leak_mode: bool,
    with_plain_boxes: bool,
}

type V<T> = Result<T, (String, String)>;

fn sub_set(s: Sub) -> u8 {
    // bit 0 = Extra, bit 1 = Clone
    match s {
        Sub::E => 1,
        Sub::C => 2,
        Sub::CE => 3,
    }
}

struct World {
    /// per node (keyed by its first payload id): number of owned children handed out (mirrors NodeImp::made)
    kids_made: std::collections::HashMap<usize, u64>,
    arc: Arc<CtxP>,
    ents: Vec<(Ent, Meta)>,
    borrowed_calls: u64,
    /// borrowed-child slots that may legitimately hold a context clone while the parent lives (strict mode)
    ctx_drop_flag: Arc<AtomicU64>,
}

impl World {
    fn ctx(&self) -> Ctx {
        CArc::<CtxP>::from(self.arc.clone()).into_opaque()
    }
}

impl Sut {
    fn enabled(&self, metas: &[Kind]) -> Vec<Op> {
        let mut v = Vec::new();
        let room = metas.len() < self.max_pool;
        if room {
            v.push(Op::NewNode);
            for e in 0..4 {
                v.push(Op::NewGroup(e));
            }
            v.push(Op::NewLeaf);
            if self.with_plain_boxes {
                v.push(Op::NewCBox);
                v.push(Op::NewSliceBox(0));
                v.push(Op::NewSliceBox(2));
                v.push(Op::NewCBoxZst);
                v.push(Op::NewSliceBoxZst(0));
                v.push(Op::NewSliceBoxZst(3));
            }
        }
        for (i, k) in metas.iter().enumerate() {
            v.push(Op::Call(i));
            match k {
                Kind::Node => {
                    if room {
                        v.push(Op::Child(i));
                        v.push(Op::ChildGroup(i));
                    }
                    v.push(Op::ChildRef(i));
                    v.push(Op::BothRefs(i));
                    v.push(Op::ChildMut(i));
                    v.push(Op::ChildGroupRef(i));
                    v.push(Op::Consume(i));
                    v.push(Op::ConsumeInto(i));
                    v.push(Op::ConsumeTry(i));
                    v.push(Op::ConsumeTryInt(i));
                }
                Kind::Grp(en) => {
                    for s in [Sub::C, Sub::E, Sub::CE] {
                        v.push(Op::Check(i, s));
                        v.push(Op::AsRef(i, s));
                        v.push(Op::AsMut(i, s));
                        v.push(Op::Cast(i, s));
                        v.push(Op::Into(i, s));
                    }
                    if room && en & 2 != 0 {
                        v.push(Op::CloneVia(i));
                    }
                }
                Kind::GC(_) | Kind::GCE(_) => {
                    v.push(Op::Upcast(i));
                    if room {
                        v.push(Op::CloneCast(i));
                    }
                }
                Kind::GE(_) => v.push(Op::Upcast(i)),
                Kind::Boxed | Kind::Slice | Kind::BoxedZ | Kind::SliceZ(_) => v.push(Op::IntoOpaque(i)),
                _ => {}
            }
            v.push(Op::Drop(i));
        }
        v
    }

    fn exec(&self, hist: &[Op], obs: &mut Vec<u64>) -> V<(u64, Vec<Kind>)> {
        let drops = DropScope::new();
        DcZst::reset();
        let flag = alloc::untracked(|| Arc::new(AtomicU64::new(0)));
        let arc = Arc::new(CtxP { dropped: flag.clone() });
        // leaked, not dropped, when a violation makes us return early
        let mut w = std::mem::ManuallyDrop::new(World { kids_made: alloc::untracked(std::collections::HashMap::new), arc, ents: Vec::new(), borrowed_calls: 0, ctx_drop_flag: flag });
        let mut next_val = 100u64;
        for (step, op) in hist.iter().enumerate() {
            let at = |what: &str| format!("step {} {:?}: {}", step, op, what);
            let ids_before = drops.ids();
            next_val += 100;
            match *op {
                Op::NewNode => {
                    let imp = NodeImp::new(next_val);
                    let o = trait_obj!((imp, w.ctx()) as Node);
                    let owned = (ids_before..drops.ids()).collect();
                    w.ents.push((Ent::Node(o), Meta { zst: 0, kind: Kind::Node, owned, holds_ctx: true, val: next_val }));
                }
                Op::NewGroup(en) => {
                    let ctx = w.ctx();
                    let g = match en {
                        0 => group_obj!((LeafNone(LeafImp::new(next_val)), ctx) as LeafGrp),
                        1 => group_obj!((LeafE(LeafImp::new(next_val)), ctx) as LeafGrp),
                        2 => group_obj!((LeafC(LeafImp::new(next_val)), ctx) as LeafGrp),
                        _ => group_obj!((LeafImp::new(next_val), ctx) as LeafGrp),
                    };
                    let owned = (ids_before..drops.ids()).collect();
                    w.ents.push((Ent::Grp(g), Meta { zst: 0, kind: Kind::Grp(en), owned, holds_ctx: true, val: next_val }));
                }
                Op::NewLeaf => {
                    let o = trait_obj!((LeafImp::new(next_val), w.ctx()) as Leaf);
                    let owned = (ids_before..drops.ids()).collect();
                    w.ents.push((Ent::Leaf(o), Meta { zst: 0, kind: Kind::Leaf, owned, holds_ctx: true, val: next_val }));
                }
                Op::NewCBox => {
                    let b = CBox::from(DcHeap::new(next_val));
                    let owned = (ids_before..drops.ids()).collect();
                    w.ents.push((Ent::Boxed(b), Meta { zst: 0, kind: Kind::Boxed, owned, holds_ctx: false, val: next_val }));
                }
                Op::NewSliceBox(n) => {
                    let v: Vec<DcHeap> = (0..n as u64).map(|k| DcHeap::new(next_val + k)).collect();
                    let b = CSliceBox::from(v.into_boxed_slice());
                    let owned = (ids_before..drops.ids()).collect();
                    w.ents.push((Ent::Slice(b), Meta { zst: 0, kind: Kind::Slice, owned, holds_ctx: false, val: n as u64 }));
                }
                Op::NewCBoxZst => {
                    let b = CBox::from(DcZst::new());
                    w.ents.push((Ent::BoxedZ(b), Meta { zst: 1, kind: Kind::BoxedZ, owned: vec![], holds_ctx: false, val: 0 }));
                }
                Op::NewSliceBoxZst(n) => {
                    let v: Vec<DcZst> = (0..n).map(|_| DcZst::new()).collect();
                    let b = CSliceBox::from(v.into_boxed_slice());
                    w.ents.push((Ent::SliceZ(b), Meta { zst: n, kind: Kind::SliceZ(n), owned: vec![], holds_ctx: false, val: n as u64 }));
                }
                Op::IntoOpaque(i) => {
                    let (e, m) = w.ents.remove(i);
                    let ne = match e {
                        Ent::Boxed(b) => (Ent::OBoxed(b.into_opaque()), Kind::OBoxed(0)),
                        Ent::BoxedZ(b) => (Ent::OBoxed(b.into_opaque()), Kind::OBoxed(1)),
                        Ent::Slice(b) => (Ent::OSlice(b.into_opaque()), Kind::OSlice(0)),
                        Ent::SliceZ(b) => (Ent::OSlice(b.into_opaque()), Kind::OSlice(1)),
                        _ => unreachable!(),
                    };
                    w.ents.insert(i, (ne.0, Meta { kind: ne.1, ..m }));
                }
                Op::Call(i) => {
                    let (e, m) = &w.ents[i];
                    let got = match e {
                        Ent::Node(o) => o.plain(),
                        Ent::Leaf(o) => o.val(),
                        Ent::Grp(o) => o.val(),
                        Ent::GC(o) => o.val(),
                        Ent::GE(o) => o.val() + o.extra() - o.val() - 1,
                        Ent::GCE(o) => o.val() + o.extra() - o.val() - 1,
                        Ent::Fin(o) => o.dval(),
                        Ent::Boxed(b) => b.val(),
                        Ent::BoxedZ(_) | Ent::OBoxed(_) | Ent::OSlice(_) => m.val,
                        Ent::SliceZ(b) => b.len() as u64,
                        Ent::Slice(b) => {
                            let mut k = 0;
                            for (j, d) in b.iter().enumerate() {
                                if d.val() % 100 != j as u64 {
                                    return Err(("life:slice_contents".into(), at("boxed slice element differs")));
                                }
                                k += 1;
                            }
                            k
                        }
                    };
                    if got != m.val {
                        return Err(("life:dispatch".into(), at(&format!("call returned {} expected {}", got, m.val))));
                    }
                }
                Op::Child(i) | Op::ChildGroup(i) => {
                    let is_group = matches!(op, Op::ChildGroup(_));
                    let (e, _m) = &w.ents[i];
                    let node = match e {
                        Ent::Node(o) => o,
                        _ => unreachable!(),
                    };
                    let (ent, kind, val) = if is_group {
                        let g = node.child_group();
                        let v = g.val();
                        (Ent::Grp(g), Kind::Grp(3), v)
                    } else {
                        let l = node.child();
                        let v = l.val();
                        (Ent::Leaf(l), Kind::Leaf, v)
                    };
                    let node_key = w.ents[i].1.owned[0];
                    alloc::untracked(|| *w.kids_made.entry(node_key).or_insert(0) += 1);
                    let owned: Vec<usize> = (ids_before..drops.ids()).collect();
                    if owned.len() != 1 {
                        return Err(("life:child_payloads".into(), at(&format!("obtaining an owned child created {} payloads", owned.len()))));
                    }
                    w.ents.push((ent, Meta { zst: 0, kind, owned, holds_ctx: true, val }));
                }
                Op::BothRefs(i) => {
                    let base = w.ents[i].1.val;
                    let node = match &w.ents[i].0 {
                        Ent::Node(o) => o,
                        _ => unreachable!(),
                    };
                    let l = node.child_ref();
                    let l0 = l.val();
                    let r = node.child_ref2();
                    let got = (l0, r.val(), l.val());
                    if got != (base + 1, base + 2, base + 1) {
                        return Err(("life:borrowed_alias".into(), at(&format!("two borrowed children held together read {:?}, expected ({}, {}, {}): the second call disturbed the first result", got, base + 1, base + 2, base + 1))));
                    }
                    w.borrowed_calls += 2;
                }
                Op::ChildRef(i) | Op::ChildMut(i) | Op::ChildGroupRef(i) => {
                    let base = w.ents[i].1.val;
                    let (e, _m) = &mut w.ents[i];
                    let node = match e {
                        Ent::Node(o) => o,
                        _ => unreachable!(),
                    };
                    let (got, want) = match op {
                        Op::ChildRef(_) => (node.child_ref().val(), base + 1),
                        Op::ChildMut(_) => (node.child_mut().val(), base + 2),
                        _ => {
                            let g = node.child_group_ref();
                            let ok = check!(g impl Extra);
                            if !ok {
                                return Err(("life:borrowed_group_cast".into(), at("borrowed wrapped group lacks the traits its type enables")));
                            }
                            (g.val(), base + 3)
                        }
                    };
                    if got != want {
                        return Err(("life:borrowed_dispatch".into(), at(&format!("borrowed child returned {} expected {}", got, want))));
                    }
                    w.borrowed_calls += 1;
                }
                Op::ConsumeTry(i) | Op::ConsumeTryInt(i) => {
                    let (e, m) = w.ents.remove(i);
                    let node = match e {
                        Ent::Node(o) => o,
                        _ => unreachable!(),
                    };
                    // children handed out so far: ids created after the node's own four, tracked in `val` of the meta? no:
                    // the implementor counts them itself; the model mirrors it in `kids_made`
                    let expect_ok = w.kids_made.get(&m.owned[0]).copied().unwrap_or(0) % 2 == 0;
                    let r = if matches!(op, Op::ConsumeTry(_)) { node.consume_try() } else { node.consume_try_int() };
                    match r {
                        Ok(l) => {
                            if !expect_ok {
                                std::mem::forget(l);
                                return Err(("life:consume_result".into(), at("consuming call returned Ok where the direct call returns Err")));
                            }
                            let v = l.val();
                            if v != m.val + 1 {
                                return Err(("life:consume_result".into(), at("consuming call returned a wrong child")));
                            }
                            w.ents.push((Ent::Leaf(l), Meta { zst: 0, kind: Kind::Leaf, owned: vec![m.owned[1]], holds_ctx: true, val: v }));
                        }
                        Err(()) => {
                            if expect_ok {
                                return Err(("life:consume_result".into(), at("consuming call returned Err where the direct call returns Ok")));
                            }
                        }
                    }
                }
                Op::Consume(i) | Op::ConsumeInto(i) => {
                    let (e, m) = w.ents.remove(i);
                    let node = match e {
                        Ent::Node(o) => o,
                        _ => unreachable!(),
                    };
                    if matches!(op, Op::Consume(_)) {
                        let r = node.consume();
                        if r != m.val + 5 {
                            return Err(("life:consume_result".into(), at("consuming call returned a wrong value")));
                        }
                    } else {
                        let l = node.consume_into();
                        let v = l.val();
                        if v != m.val + 1 {
                            return Err(("life:consume_result".into(), at("consuming call returned a wrong child")));
                        }
                        // the kid payload (second id of the node) moves into the new leaf object
                        w.ents.push((Ent::Leaf(l), Meta { zst: 0, kind: Kind::Leaf, owned: vec![m.owned[1]], holds_ctx: true, val: v }));
                    }
                }
                Op::Check(i, s) | Op::AsRef(i, s) | Op::AsMut(i, s) => {
                    let en = match w.ents[i].1.kind {
                        Kind::Grp(en) => en,
                        _ => unreachable!(),
                    };
                    let val = w.ents[i].1.val;
                    let expect = sub_set(s) & en == sub_set(s);
                    let g = match &mut w.ents[i].0 {
                        Ent::Grp(g) => g,
                        _ => unreachable!(),
                    };
                    let got: Option<u64> = match (*op, s) {
                        (Op::Check(..), Sub::C) => Some(check!(g impl Clone) as u64),
                        (Op::Check(..), Sub::E) => Some(check!(g impl Extra) as u64),
                        (Op::Check(..), Sub::CE) => Some(check!(g impl Clone + Extra) as u64),
                        (Op::AsRef(..), Sub::C) => as_ref!(g impl Clone).map(|x| x.val()),
                        (Op::AsRef(..), Sub::E) => as_ref!(g impl Extra).map(|x| x.extra() - 1),
                        (Op::AsRef(..), Sub::CE) => as_ref!(g impl Clone + Extra).map(|x| x.extra() - 1),
                        (Op::AsMut(..), Sub::C) => as_mut!(g impl Clone).map(|x| x.val()),
                        (Op::AsMut(..), Sub::E) => as_mut!(g impl Extra).map(|x| x.extra() - 1),
                        (_, _) => as_mut!(g impl Clone + Extra).map(|x| x.extra() - 1),
                    };
                    let ok = match op {
                        Op::Check(..) => got == Some(expect as u64),
                        _ => got == if expect { Some(val) } else { None },
                    };
                    if !ok {
                        return Err(("life:cast_decision".into(), at(&format!("got {:?}, enabled set {:#b}", got, en))));
                    }
                }
                Op::CloneVia(i) => {
                    let val = w.ents[i].1.val;
                    let g = match &w.ents[i].0 {
                        Ent::Grp(g) => g,
                        _ => unreachable!(),
                    };
                    let c = match as_ref!(g impl Clone) {
                        Some(x) => x.clone(),
                        None => return Err(("life:cast_decision".into(), at("as_ref!(impl Clone) failed on a group that enables Clone"))),
                    };
                    if c.val() != val + 1000 {
                        return Err(("life:clone_value".into(), at("clone reads a wrong value")));
                    }
                    let owned: Vec<usize> = (ids_before..drops.ids()).collect();
                    w.ents.push((Ent::Fin(Box::new(c)), Meta { zst: 0, kind: Kind::Fin, owned, holds_ctx: true, val: val + 1000 }));
                }
                Op::Cast(i, s) | Op::Into(i, s) => {
                    let (e, m) = w.ents.remove(i);
                    let en = match m.kind {
                        Kind::Grp(en) => en,
                        _ => unreachable!(),
                    };
                    let g = match e {
                        Ent::Grp(g) => g,
                        _ => unreachable!(),
                    };
                    let expect = sub_set(s) & en == sub_set(s);
                    let res: Option<(Ent, Kind)> = match (*op, s) {
                        (Op::Cast(..), Sub::C) => cast!(g impl Clone).map(|x| (Ent::GC(x), Kind::GC(en))),
                        (Op::Cast(..), Sub::E) => cast!(g impl Extra).map(|x| (Ent::GE(x), Kind::GE(en))),
                        (Op::Cast(..), Sub::CE) => cast!(g impl Clone + Extra).map(|x| (Ent::GCE(x), Kind::GCE(en))),
                        (_, Sub::C) => into!(g impl Clone).map(|x| (Ent::Fin(Box::new(x)), Kind::Fin)),
                        (_, Sub::E) => into!(g impl Extra).map(|x| (Ent::Fin(Box::new(x)), Kind::Fin)),
                        (_, Sub::CE) => into!(g impl Clone + Extra).map(|x| (Ent::Fin(Box::new(x)), Kind::Fin)),
                    };
                    match res {
                        Some((ent, kind)) => {
                            if !expect {
                                std::mem::forget(ent);
                                return Err(("life:cast_decision".into(), at("cast succeeded although a requested trait is not enabled")));
                            }
                            w.ents.insert(i, (ent, Meta { zst: 0, kind, owned: m.owned, holds_ctx: true, val: m.val }));
                        }
                        None => {
                            if expect {
                                return Err(("life:cast_decision".into(), at("cast failed although every requested trait is enabled")));
                            }
                            // a failed by-value cast consumes the group: its payload must be gone now (checked below)
                        }
                    }
                }
                Op::Upcast(i) => {
                    let (e, m) = w.ents.remove(i);
                    let (g, en) = match (e, &m.kind) {
                        (Ent::GC(x), Kind::GC(en)) => (x.upcast(), *en),
                        (Ent::GE(x), Kind::GE(en)) => (x.upcast(), *en),
                        (Ent::GCE(x), Kind::GCE(en)) => (x.upcast(), *en),
                        _ => unreachable!(),
                    };
                    w.ents.insert(i, (Ent::Grp(g), Meta { zst: 0, kind: Kind::Grp(en), owned: m.owned, holds_ctx: true, val: m.val }));
                }
                Op::CloneCast(i) => {
                    let val = w.ents[i].1.val;
                    let (c, kind): (Ent, Kind) = match (&w.ents[i].0, &w.ents[i].1.kind) {
                        (Ent::GC(x), Kind::GC(en)) => (Ent::GC(x.clone()), Kind::GC(*en)),
                        (Ent::GCE(x), Kind::GCE(en)) => (Ent::GCE(x.clone()), Kind::GCE(*en)),
                        _ => unreachable!(),
                    };
                    let owned: Vec<usize> = (ids_before..drops.ids()).collect();
                    w.ents.push((c, Meta { zst: 0, kind, owned, holds_ctx: true, val: val + 1000 }));
                }
                Op::Drop(i) => {
                    let (e, _m) = w.ents.remove(i);
                    drop(e);
                }
            }
            self.oracle(&w, &drops, &at)?;
            obs.push(digest(&(w.ents.iter().map(|e| e.1.kind.clone()).collect::<Vec<_>>(), Arc::strong_count(&w.arc) as u64)));
        }
        let kinds: Vec<Kind> = alloc::untracked(|| w.ents.iter().map(|e| e.1.kind.clone()).collect());
        let mut sorted = alloc::untracked(|| kinds.clone());
        sorted.sort();
        let key = digest(&(sorted, if self.leak_mode { w.borrowed_calls.min(1) } else { 0 }));
        // ---- teardown, in slot order
        let mut world = std::mem::ManuallyDrop::into_inner(w);
        let mut ents = std::mem::ManuallyDrop::new(std::mem::take(&mut world.ents));
        let mut world = std::mem::ManuallyDrop::new(world);
        while !ents.is_empty() {
            let (e, m) = ents.remove(0);
            drop(e);
            for id in &m.owned {
                if drops.count(*id) != 1 {
                    return Err(("life:payload_drop".into(), format!("teardown: payload {} of a dropped {:?} object has drop count {}", id, m.kind, drops.count(*id))));
                }
            }
        }
        drop(std::mem::ManuallyDrop::into_inner(ents));
        let leak = if self.leak_mode { world.borrowed_calls } else { 0 };
        let sc = Arc::strong_count(&world.arc) as u64;
        if sc != 1 + leak {
            return Err(("ctx:not_released".into(), format!("after every derived object was dropped the context's reference count is {} (start value 1{})", sc, if leak > 0 { format!(", {} accounted for by the known borrowed-child leak", leak) } else { String::new() })));
        }
        let bad = drops.not_equal(1);
        if !bad.is_empty() {
            return Err(("life:payload_drop".into(), format!("payload ids {:?} not dropped exactly once: {:?}", bad, drops.counts())));
        }
        let (zn, zd) = DcZst::stats();
        if zn != zd {
            return Err(("life:zst_leak".into(), format!("teardown: {} zero-sized payloads constructed, {} dropped", zn, zd)));
        }
        alloc::untracked(|| world.kids_made.clear());
        world.kids_made = alloc::untracked(std::collections::HashMap::new);
        let flag = world.ctx_drop_flag.clone();
        let world = std::mem::ManuallyDrop::into_inner(world);
        if leak > 0 {
            // the leaked clones keep the context alive for ever; release them here so that the allocation
            // accounting stays meaningful for everything else
            for _ in 0..leak {
                unsafe { Arc::decrement_strong_count(Arc::as_ptr(&world.arc)) };
            }
        }
        drop(world);
        if flag.load(SeqCst) == 0 {
            return Err(("ctx:not_released".into(), "the context payload was never dropped".into()));
        }
        alloc::untracked(|| drop(flag));
        Ok((key, kinds))
    }

    fn oracle(&self, w: &World, drops: &DropScope, at: &dyn Fn(&str) -> String) -> V<()> {
        // C06: payloads of live objects are alive, everything else was dropped exactly once
        let mut live_ids: Vec<usize> = Vec::new();
        for (_, m) in &w.ents {
            live_ids.extend(m.owned.iter().copied());
        }
        for id in 0..drops.ids() {
            let c = drops.count(id);
            let want = if live_ids.contains(&id) { 0 } else { 1 };
            if c != want {
                let sig = if c > want { if want == 0 { "life:early_drop" } else { "life:double_drop" } } else { "life:leak" };
                return Err((sig.into(), at(&format!("payload {} has drop count {} expected {}", id, c, want))));
            }
        }
        let zst_live: u64 = w.ents.iter().map(|e| e.1.zst as u64).sum();
        let (zn, zd) = DcZst::stats();
        if zn - zd != zst_live {
            return Err((if zn - zd > zst_live { "life:zst_leak" } else { "life:zst_double_drop" }.into(), at(&format!("{} zero-sized payloads constructed, {} dropped, {} owned by live objects", zn, zd, zst_live))));
        }
        // C07: the context count is the number of live holders
        let holders = w.ents.iter().filter(|e| e.1.holds_ctx).count() as u64;
        let sc = Arc::strong_count(&w.arc) as u64;
        if self.leak_mode {
            if sc != 1 + holders + w.borrowed_calls {
                return Err(("ctx:count".into(), at(&format!("context reference count {} but {} live derived object(s) (+1 retained, +{} known borrowed-child leak)", sc, holders, w.borrowed_calls))));
            }
        } else {
            let nodes = w.ents.iter().filter(|e| e.1.kind == Kind::Node).count() as u64;
            if sc < 1 + holders {
                return Err(("ctx:released_early".into(), at(&format!("context reference count {} but {} live derived object(s) hold it", sc, holders))));
            }
            // while a parent lives, each of its three temporary-return slots may keep one clone
            if sc > 1 + holders + 3 * nodes {
                return Err(("ctx:count".into(), at(&format!("context reference count {} with {} live derived object(s)", sc, holders))));
            }
        }
        if w.ctx_drop_flag.load(SeqCst) != 0 {
            return Err(("ctx:released_early".into(), at("the context payload was dropped while the harness still retains it")));
        }
        if alloc::events_so_far() != 0 {
            return Err(("alloc:event".into(), at("allocator event")));
        }
        Ok(())
    }
}

impl HistSut for Sut {
    type Op = Op;
    fn run(&self, hist: &[Op]) -> StepOut<Op> {
        let mut obs = Vec::with_capacity(hist.len() + 1);
        alloc::begin();
        let r = std::panic::catch_unwind(std::panic::AssertUnwindSafe(|| self.exec(hist, &mut obs)));
        let rep = alloc::end();
        let obs_d = digest(&obs);
        match r {
            Err(_) => StepOut { key: 0, enabled: vec![], obs: obs_d, violation: Some(("panic".into(), "panicked".into())) },
            Ok(Err(v)) => StepOut { key: 0, enabled: vec![], obs: obs_d, violation: Some(v) },
            Ok(Ok((key, kinds))) => StepOut {
                key,
                enabled: self.enabled(&kinds),
                obs: obs_d,
                violation: if rep.clean() { None } else { Some((format!("alloc:{}", rep.signature()), rep.describe())) },
            },
        }
    }
}

/// one (container kind, path) cell of the plain-payload section, inside its own allocation window
fn pod_case(kind: usize, path: usize) -> Option<CaseOut> {
    alloc::begin();
    let r = std::panic::catch_unwind(|| pod::run(kind, path));
    let rep = alloc::end();
    match r {
        Err(_) => Some(CaseOut::bad("panic", "panicked".to_string())),
        Ok(None) => None,
        Ok(Some(Err((s, d)))) => Some(CaseOut::bad(s, d)),
        Ok(Some(Ok(o))) => Some(if rep.clean() { CaseOut::ok(o) } else { CaseOut::bad(format!("alloc:{}:plain_payload", rep.signature()), format!("{} / {}: {}", pod::KINDS[kind], pod::PATHS[path], rep.describe())) }),
    }
}

/// one (kind, path) cell of the zero-sized-payload section, inside its own allocation window
fn zst_case(kind: usize, path: usize) -> Option<CaseOut> {
    alloc::begin();
    let r = std::panic::catch_unwind(|| zst::run(kind, path));
    let rep = alloc::end();
    match r {
        Err(_) => Some(CaseOut::bad("panic", "panicked".to_string())),
        Ok(None) => None,
        Ok(Some(Err((s, d)))) => Some(CaseOut::bad(s, d)),
        Ok(Some(Ok(o))) => Some(if rep.clean() { CaseOut::ok(o) } else { CaseOut::bad(format!("alloc:{}:zst_payload", rep.signature()), format!("{} / {}: {}", zst::KINDS[kind], zst::PATHS[path], rep.describe())) }),
    }
}

/// one operation sequence of the lifetime-bounded-children section, inside its own allocation window
fn lt_case(ops: &[u8]) -> CaseOut {
    alloc::begin();
    let r = std::panic::catch_unwind(|| lt::run_seq(ops));
    let rep = alloc::end();
    match r {
        Err(_) => CaseOut::bad("panic", "panicked".to_string()),
        Ok(out) => {
            if out.violation.is_none() && !rep.clean() {
                CaseOut::bad(format!("alloc:{}", rep.signature()), rep.describe())
            } else {
                out
            }
        }
    }
}

/// Does a borrowed wrapped child leak a context clone on this tree? (DESIGN 5.1)
fn probe_leak() -> Option<String> {
    let strict = Sut { max_pool: 2, leak_mode: false, with_plain_boxes: false };
    for (name, op) in [("child_ref", Op::ChildRef(0)), ("child_mut", Op::ChildMut(0)), ("child_group_ref", Op::ChildGroupRef(0))] {
        let out = strict.run(&[Op::NewNode, op]);
        if let Some((sig, d)) = out.violation {
            if sig == "ctx:not_released" || sig == "ctx:count" {
                return Some(format!("{}: {}", name, d));
            }
        }
    }
    None
}

/// The context must not be released inside the callee of a consuming call, and not before the instance of the
/// last object is destroyed. kind: 0 = consume, 1 = consume_into, 2 = consume_try (CResult), 3 = consume_try_int
fn consume_last(pre: &[u8], kind: u8) -> CaseOut {
    CAPTURE.with(|c| c.set(true));
    CTX_SEQ.with(|c| c.set(0));
    let flag = Arc::new(AtomicU64::new(0));
    let arc = Arc::new(CtxP { dropped: flag.clone() });
    let ctx: Ctx = CArc::<CtxP>::from(arc).into_opaque();
    // the object now holds the only reference to the context
    let mut node = trait_obj!((NodeImp::new(50), ctx) as Node);
    for p in pre {
        match p {
            0 => {
                let _ = node.plain();
            }
            1 => {
                let c = node.child();
                drop(c);
            }
            _ => {
                let _ = node.child_mut().val();
            }
        }
    }
    let kept: Option<LeafArcBox<'static>> = match kind {
        0 => {
            node.consume();
            None
        }
        1 => Some(node.consume_into()),
        2 => node.consume_try().ok(),
        _ => node.consume_try_int().ok(),
    };
    let after_call = flag.load(SeqCst);
    let has_child = kept.is_some();
    drop(kept);
    let end = flag.load(SeqCst);
    if after_call == 2 || end == 2 {
        return CaseOut::bad("ctx:released_inside_consuming_call", format!("the last reference to the context was released while a generated wrapper frame (cglue_wrapped_*) was still on the stack (pre-ops {:?}, consuming call kind {}, returned a child: {})", pre, kind, has_child));
    }
    if has_child && after_call != 0 {
        return CaseOut::bad("ctx:released_early", "the context was released although the returned child object still exists");
    }
    if end != 0 && CTX_SEQ.with(|c| c.get()) < defs::LAST_PAYLOAD_DROP.with(|c| c.get()) {
        return CaseOut::bad("ctx:released_before_instance", "the context was released before the instance of the last derived object was destroyed");
    }
    CaseOut::ok(digest(&(pre, kind, after_call, end)))
}

/// An object that is the last holder of the context is dropped: the instance must be destroyed before the
/// context is released. which: 0 node object, 1 leaf object, 2..=5 group (enabled sets), 6 cast group (Clone),
/// 7 final group (Extra), 8 owned child object of a dropped parent, 9 owned child group of a dropped parent
/// A consuming vtable entry called the way the generated C / C++ headers call it (cglue-bindgen, Function::create_wrapper):
///     ctx guard = clone(self.container.context); ret = self.vtbl->entry(self.container /* by value */, args); drop(guard);
/// the entry owns the container: instance and context are released by the callee (or move into the wrapped value it returns).
/// kind: 0 consume, 1 consume_res Ok, 2 consume_res Err, 3 consume_into, 4 consume_try (first call: Ok), 5 consume_try_int
fn foreign_consume(kind: u8, group: bool) -> CaseOut {
    use cglue::trait_group::{CGlueObjBase, GetContainer};
    let arc = Arc::new(());
    let count = |a: &Arc<()>| Arc::strong_count(a);
    let mut held_after = 0usize;
    let what = ["consume", "consume_res (Ok)", "consume_res (Err)", "consume_into", "consume_try", "consume_try_int"][kind as usize];
    let bad = |sig: &str, at: &str, got: usize, want: usize| CaseOut::bad(sig, format!("{} called through the vtable the way the C header calls it ({}): context count {} {}, expected {} (1 owner{})", what, if group { "object cast from a group" } else { "single-trait object" }, got, at, want, if want > 1 { " + guard / returned child" } else { "" }));
    macro_rules! run {
        ($obj:expr) => {{
            let obj = $obj;
            if count(&arc) != 2 {
                return bad("fctx:setup", "after building the object", count(&arc), 2);
            }
            let vt = obj.get_vtbl();
            let (f0, f1, f2, f3, f4) = (vt.consume(), vt.consume_res(), vt.consume_into(), vt.consume_try(), vt.consume_try_int());
            let cont = obj.into_ccont();
            let guard = cont.cobj_base_ref().1.clone();
            if count(&arc) != 3 {
                return bad("fctx:setup", "after cloning the guard", count(&arc), 3);
            }
            // what the call returns may hold the context (a wrapped child): it is kept until after the guard is gone
            let mut child: Option<Box<dyn std::any::Any>> = None;
            match kind {
                0 => {
                    let r = unsafe { f0(cont) };
                    if r != 15 { return CaseOut::bad("fctx:result", format!("{}: returned {}", what, r)); }
                }
                1 | 2 => {
                    let r: Result<u64, u32> = unsafe { f1(cont, kind == 2) }.into();
                    if r != if kind == 2 { Err(7) } else { Ok(16) } { return CaseOut::bad("fctx:result", format!("{}: returned {:?}", what, r)); }
                }
                3 => {
                    let c = unsafe { f2(cont) };
                    if c.val() != 11 { return CaseOut::bad("fctx:result", format!("{}: child answers {}", what, c.val())); }
                    child = Some(Box::new(c));
                }
                4 => {
                    let r: Result<_, ()> = unsafe { f3(cont) }.into();
                    match r { Ok(c) => child = Some(Box::new(c)), Err(()) => return CaseOut::bad("fctx:result", format!("{}: Err", what)) }
                }
                _ => {
                    let mut out = ::core::mem::MaybeUninit::uninit();
                    let rc = unsafe { f4(cont, &mut out) };
                    if rc != 0 { return CaseOut::bad("fctx:result", format!("{}: status {}", what, rc)); }
                    child = Some(Box::new(unsafe { out.assume_init() }));
                }
            }
            held_after = if child.is_some() { 1 } else { 0 };
            if count(&arc) != 2 + held_after {
                return bad("fctx:after_call", "right after the call (the consumed object must be gone)", count(&arc), 2 + held_after);
            }
            drop(guard);
            if count(&arc) != 1 + held_after {
                return bad("fctx:after_guard", "after the guard was released", count(&arc), 1 + held_after);
            }
            drop(child);
        }};
    }
    run!(trait_obj!((NodeImp::new(10), CArc::<()>::from(arc.clone())) as Node));
    if count(&arc) != 1 {
        return bad("fctx:leak", "after everything derived from the object is gone", count(&arc), 1);
    }
    CaseOut::ok(digest(&(kind, group, held_after)))
}

fn last_holder_drop(which: u8) -> CaseOut {
    CAPTURE.with(|c| c.set(true));
    CTX_SEQ.with(|c| c.set(0));
    let flag = Arc::new(AtomicU64::new(0));
    let arc = Arc::new(CtxP { dropped: flag.clone() });
    let ctx: Ctx = CArc::<CtxP>::from(arc).into_opaque();
    match which {
        0 => drop(trait_obj!((NodeImp::new(10), ctx) as Node)),
        1 => drop(trait_obj!((LeafImp::new(10), ctx) as Leaf)),
        2 => drop(group_obj!((LeafNone(LeafImp::new(10)), ctx) as LeafGrp)),
        3 => drop(group_obj!((LeafE(LeafImp::new(10)), ctx) as LeafGrp)),
        4 => drop(group_obj!((LeafC(LeafImp::new(10)), ctx) as LeafGrp)),
        5 => drop(group_obj!((LeafImp::new(10), ctx) as LeafGrp)),
        6 => {
            let g = group_obj!((LeafImp::new(10), ctx) as LeafGrp);
            drop(cast!(g impl Clone));
        }
        7 => {
            let g = group_obj!((LeafImp::new(10), ctx) as LeafGrp);
            drop(into!(g impl Extra));
        }
        8 => {
            let n = trait_obj!((NodeImp::new(10), ctx) as Node);
            let c = n.child();
            drop(n);
            drop(c);
        }
        _ => {
            let n = trait_obj!((NodeImp::new(10), ctx) as Node);
            let c = n.child_group();
            drop(n);
            drop(c);
        }
    }
    let end = flag.load(SeqCst);
    if end == 0 {
        return CaseOut::bad("ctx:not_released", "the context was not released after the last derived object was dropped");
    }
    if CTX_SEQ.with(|c| c.get()) < defs::LAST_PAYLOAD_DROP.with(|c| c.get()) {
        return CaseOut::bad("ctx:released_before_instance", format!("object kind {}: the context was released before the instance of the last derived object was destroyed", which));
    }
    CaseOut::ok(digest(&(which, end)))
}

fn main() {
    std::panic::set_hook(Box::new(|_| {}));
    let args: Vec<String> = std::env::args().collect();
    let prop = args.iter().position(|a| a == "--property").map(|i| args[i + 1].clone()).unwrap_or_else(|| "C06".to_string());
    let prop: &'static str = Box::leak(prop.into_boxed_str());
    let c07 = prop == "C07";
    let mut sections = Vec::new();
    let mk_replay = move || -> Box<dyn Fn(&Value) -> CaseOut + Sync + Send> {
        Box::new(move |case: &Value| {
            if case.get("consume_last").is_some() {
                let pre: Vec<u8> = serde_json::from_value(case["pre"].clone()).unwrap();
                return consume_last(&pre, case["kind"].as_u64().unwrap() as u8);
            }
            if case.get("pod_kind").is_some() {
                return pod_case(case["pod_kind"].as_u64().unwrap() as usize, case["pod_path"].as_u64().unwrap() as usize).unwrap_or(CaseOut::ok(0));
            }
            if case.get("zst_kind").is_some() {
                return zst_case(case["zst_kind"].as_u64().unwrap() as usize, case["zst_path"].as_u64().unwrap() as usize).unwrap_or(CaseOut::ok(0));
            }
            if case.get("lt_ops").is_some() {
                let ops: Vec<u8> = serde_json::from_value(case["lt_ops"].clone()).unwrap();
                return lt_case(&ops);
            }
            if case.get("foreign_consume").is_some() {
                return foreign_consume(case["foreign_consume"].as_u64().unwrap() as u8, case["group"].as_bool().unwrap_or(false));
            }
            if case.get("last_holder").is_some() {
                return last_holder_drop(case["last_holder"].as_u64().unwrap() as u8);
            }
            if case.get("probe").is_some() {
                return match probe_leak() {
                    Some(d) => CaseOut::bad("ctx:borrowed_child_leak", d),
                    None => CaseOut::ok(0),
                };
            }
            let h: Vec<Op> = serde_json::from_value(case["history"].clone()).unwrap();
            let leak = probe_leak().is_some();
            let o = Sut { max_pool: 6, leak_mode: leak, with_plain_boxes: true }.run(&h);
            CaseOut { obs: o.obs, nontrivial: true, violation: o.violation }
        })
    };
    sections.push(Section {
        name: "histories_full",
        explore: Box::new(move |cx: &Cx| {
            let leak = probe_leak();
            if c07 {
                // the known defect is reported once, as its own case; the exploration continues with adjusted expectations
                let out = match &leak {
                    Some(d) => CaseOut::bad("ctx:borrowed_child_leak", format!("every call that returns a borrowed wrapped child (wrap_with_obj_ref/_mut, wrap_with_group_ref) leaks one context clone: {}", d)),
                    None => CaseOut::ok(1),
                };
                cx.record("histories_full", || json!({"probe": "borrowed_child_leak", "history": ["NewNode", {"ChildRef": 0}]}), &out);
            }
            let (pool, depth) = match cx.tier {
                Tier::Quick => (2, 4),
                Tier::Thorough => (3, 5),
            };
            cx.rule("histories_full", &format!("all histories of length <= {} over {{create node object / group object (4 enabled sets) / leaf object{}, plain call, obtain owned child (object, group), obtain borrowed child (ref, mut, group ref), consuming call (plain, returning a child), check/as_ref/as_mut/cast/into for every subset of {{Clone, Extra}}, clone via as_ref, clone of a cast object, upcast, drop}} on a pool of <= {} objects sharing one CArc context; model = live payload ids + number of live context holders; oracle after every step: every payload's drop count is 0 while its owner lives and exactly 1 afterwards, results identify the instance, context count == 1 + live holders{}; teardown: count back to 1, context payload dropped, allocator balanced", depth, if c07 { "" } else { " / CBox / CSliceBox (len 0, 2)" }, pool, if leak.is_some() { " + number of borrowed-child calls (known finding, reported separately)" } else { "" }));
            hist::full(&Sut { max_pool: pool, leak_mode: leak.is_some(), with_plain_boxes: !c07 }, depth, cx, "histories_full");
        }),
        replay: mk_replay(),
    });
    sections.push(Section {
        name: "histories_bfs",
        explore: Box::new(move |cx: &Cx| {
            let leak = probe_leak();
            let (pool, depth) = match cx.tier {
                Tier::Quick => (3, 6),
                Tier::Thorough => (4, 8),
            };
            cx.rule("histories_bfs", &format!("same alphabet, pool <= {}, BFS to depth {} with dedup on the sorted multiset of object kinds/typestates (+ whether a borrowed-child call happened)", pool, depth));
            hist::bfs(&Sut { max_pool: pool, leak_mode: leak.is_some(), with_plain_boxes: !c07 }, depth, cx, "histories_bfs", 400_000);
        }),
        replay: mk_replay(),
    });
    if !c07 {
        sections.push(Section {
            name: "plain_payloads",
            explore: Box::new(|cx: &Cx| {
                cx.rule("plain_payloads", "payloads without drop glue (arrays, integers, a plain struct) in CBox (from value / from Box), CSliceBox (len 0 / 3), single-trait objects and groups (with and without a CArc context) x path {drop, into_opaque, use, cast, cast + upcast, into!, clone}: every cell in its own allocation window; oracle: the allocator's - every block freed exactly once with the layout it was allocated with, nothing left");
                for k in 0..pod::KINDS.len() {
                    for p in 0..pod::PATHS.len() {
                        let case = json!({"pod_kind": k, "pod_path": p, "kind": pod::KINDS[k], "path": pod::PATHS[p]});
                        if let Some(out) = pod_case(k, p) {
                            cx.record("plain_payloads", || case, &out);
                        }
                    }
                }
            }),
            replay: mk_replay(),
        });
    }
    if !c07 {
        sections.push(Section {
            name: "zst_payload_objects",
            explore: Box::new(|cx: &Cx| {
                cx.rule("zst_payload_objects", "objects and groups (with / without a CArc context) over a zero-sized payload that has a destructor x every path {drop, call + drop, by-value method returning a value / Result Ok / Result Err, cast + drop, cast + by-value method, cast + upcast + by-value method, into! + by-value method}: the payload is destroyed exactly once, not before the object is gone; context released; allocator balanced");
                for k in 0..zst::KINDS.len() {
                    for p in 0..zst::PATHS.len() {
                        let case = json!({"zst_kind": k, "zst_path": p, "kind": zst::KINDS[k], "path": zst::PATHS[p]});
                        if let Some(out) = zst_case(k, p) {
                            cx.record("zst_payload_objects", || case, &out);
                        }
                    }
                }
            }),
            replay: mk_replay(),
        });
    }
    sections.push(Section {
        name: "lifetime_children",
        explore: Box::new(|cx: &Cx| {
            let depth = cx.tier.pick(5, 7);
            cx.rule("lifetime_children", &format!("one boxed parent with a CArc context whose wrapped associated types are bounded by the trait's lifetime parameter (`type View: Leaf + 'a`, getters taking &'a self): every sequence of <= {} operations {{owned child object, owned child group, Result<child> Ok, Result<child> Err, drop oldest child, drop newest child, use all children, call the parent}} with <= {} live children; oracle after every step: context count == 1 retained + parent + live children, every child answers with its own value, nothing destroyed early; teardown: children, parent, then the retained Arc: count back to 1, every payload destroyed exactly once, allocator balanced", depth, lt::MAX_KIDS));
            // depth-first enumeration of the enabled sequences
            fn rec(cx: &Cx, seq: &mut Vec<u8>, live: usize, depth: usize) {
                let case = json!({"lt_ops": seq, "names": seq.iter().map(|o| lt::OP_NAMES[*o as usize]).collect::<Vec<_>>()});
                cx.eval("lifetime_children", &case, || lt_case(seq));
                if seq.len() == depth {
                    return;
                }
                for op in 0..lt::NOPS {
                    if !lt::enabled(op, live) {
                        continue;
                    }
                    let nl = match op { 0 | 1 | 2 => live + 1, 4 | 5 => live - 1, _ => live };
                    seq.push(op);
                    rec(cx, seq, nl, depth);
                    seq.pop();
                }
            }
            rec(cx, &mut Vec::new(), 0, depth);
        }),
        replay: mk_replay(),
    });
    if c07 {
        sections.push(Section {
            name: "consume_last",
            explore: Box::new(|cx: &Cx| {
                cx.rule("consume_last", "the object is the only holder of the context; every sequence of <= 2 prior operations {plain call, owned child obtained and dropped, borrowed child} followed by a consuming call (returning a value / a wrapped child / Result<wrapped child> as CResult and integer-coded, Ok and Err): the final release of the context (observed by a backtrace taken in the context payload's Drop) must not happen while a generated cglue_wrapped_* frame is on the stack, and not before the returned child is gone; plus: each kind of object (node, leaf, 4 group variants, cast and final forms, owned children of a dropped parent) dropped as the last holder: the instance must be destroyed before the context is released");
                let mut pres: Vec<Vec<u8>> = vec![vec![]];
                for a in 0..3u8 {
                    pres.push(vec![a]);
                    for b in 0..3u8 {
                        pres.push(vec![a, b]);
                    }
                }
                for pre in pres {
                    for kind in 0..4u8 {
                        // with the borrowed-child leak present the context is never released at all in histories that
                        // contain such a call: those cases cannot observe the release point
                        let case = json!({"consume_last": true, "pre": pre, "kind": kind});
                        cx.eval("consume_last", &case, || consume_last(&pre, kind));
                    }
                }
                for which in 0..10u8 {
                    let case = json!({"last_holder": which});
                    cx.eval("consume_last", &case, || last_holder_drop(which));
                }
            }),
            replay: mk_replay(),
        });
    }
    if c07 {
        sections.push(Section {
            name: "foreign_consume",
            explore: Box::new(|cx: &Cx| {
                cx.rule("foreign_consume", "every consuming entry of the Node vtable (plain value, plain Result Ok / Err, wrapped child, CResult of a wrapped child, integer-coded wrapped child) called the way the generated C / C++ wrappers call it - guard clone of the context, the container passed by value to the entry taken from the vtable, guard released - on a single-trait object: the entry releases (or hands to the returned child) the consumed object's context reference; the count is back to its start when everything derived is gone");
                for kind in 0..6u8 {
                    for group in [false] {
                        let case = json!({"foreign_consume": kind, "group": group});
                        cx.eval("foreign_consume", &case, || foreign_consume(kind, group));
                    }
                }
            }),
            replay: mk_replay(),
        });
    }
    explore::run_main(CheckDef {
        property: prop,
        level: "model_checking",
        assumptions: vec![
            "histories longer than the depth bound / pools larger than the bound are not covered".into(),
            "the release point of the context is observed through std::backtrace symbol names (harness profile keeps debug info; the wrapper is only reachable through a function pointer)".into(),
        ],
        sections,
        no_isolation: false,
    });
}
