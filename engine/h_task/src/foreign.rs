//! A poll entered from ANOTHER module. The caller-side record that crosses the boundary (`CRefWaker`) is
//! assembled here through its published #[repr(C)] layout, with this "other module's" own functions, and the
//! opaque object's `poll` entry is called through the object's vtable the way that module would call it.
//!
//! The two words the record points to are opaque to the callee: only the record's own `clone` / `wake_by_ref`
//! functions (and the vtable of the owned waker `clone` returns) may interpret them. They are filled with the
//! bits of a local counting waker (a decoy): if the library reinterprets them itself, the decoy's counters move.
#![allow(dead_code)]
use std::sync::atomic::{AtomicBool, AtomicI64, AtomicU64, Ordering::SeqCst};
use std::sync::Mutex;
use std::task::Waker;

#[repr(transparent)]
#[derive(Clone, Copy)]
pub struct Words {
    w: [*const (); 2],
}

/// mirror of the owned waker a `clone` hands out: the two words + the vtable that knows what they are
#[repr(C)]
pub struct OwnedWaker {
    waker: Words,
    vtable: *const OwnedVtbl,
}

#[repr(C)]
pub struct OwnedVtbl {
    clone: unsafe extern "C" fn(Words) -> OwnedWaker,
    wake: unsafe extern "C" fn(Words),
    wake_by_ref: unsafe extern "C" fn(Words),
    drop: unsafe extern "C" fn(Words),
}

/// mirror of the per-poll borrowed record
#[repr(C)]
pub struct RefWaker {
    raw: *const Words,
    clone: unsafe extern "C" fn(*const ()) -> OwnedWaker,
    wake_by_ref: unsafe extern "C" fn(*const ()),
}

/// what the other module counts, per caller (found again through the data word of the decoy, which both the record
/// and every owned waker carry; operations may arrive on any thread)
pub struct Stats {
    pub clones: AtomicU64,
    pub wakes: AtomicU64,
    pub refs: AtomicI64,
    pub under: AtomicBool,
}

static REG: Mutex<Vec<(usize, &'static Stats)>> = Mutex::new(Vec::new());

/// `key`: the address the decoy waker carries as its data word
pub fn register(key: usize) -> &'static Stats {
    let st: &'static Stats = Box::leak(Box::new(Stats { clones: AtomicU64::new(0), wakes: AtomicU64::new(0), refs: AtomicI64::new(0), under: AtomicBool::new(false) }));
    REG.lock().unwrap_or_else(|e| e.into_inner()).push((key, st));
    st
}
pub fn unregister(key: usize) {
    REG.lock().unwrap_or_else(|e| e.into_inner()).retain(|e| e.0 != key);
}
fn of(w: Words) -> &'static Stats {
    let reg = REG.lock().unwrap_or_else(|e| e.into_inner());
    for (k, st) in reg.iter() {
        if w.w[0] as usize == *k || w.w[1] as usize == *k {
            return st;
        }
    }
    panic!("the other module was handed words it never produced");
}
fn refs(st: &Stats, d: i64) {
    if st.refs.fetch_add(d, SeqCst) + d < 0 {
        st.under.store(true, SeqCst);
    }
}

static VT: OwnedVtbl = OwnedVtbl { clone: o_clone, wake: o_wake, wake_by_ref: o_wake_by_ref, drop: o_drop };

unsafe extern "C" fn o_clone(w: Words) -> OwnedWaker {
    let st = of(w);
    st.clones.fetch_add(1, SeqCst);
    refs(st, 1);
    OwnedWaker { waker: w, vtable: &VT }
}
unsafe extern "C" fn o_wake(w: Words) {
    let st = of(w);
    st.wakes.fetch_add(1, SeqCst);
    refs(st, -1);
}
unsafe extern "C" fn o_wake_by_ref(w: Words) {
    of(w).wakes.fetch_add(1, SeqCst);
}
unsafe extern "C" fn o_drop(w: Words) {
    refs(of(w), -1);
}
unsafe extern "C" fn r_clone(raw: *const ()) -> OwnedWaker {
    let w = *(raw as *const Words);
    let st = of(w);
    st.clones.fetch_add(1, SeqCst);
    refs(st, 1);
    OwnedWaker { waker: w, vtable: &VT }
}
unsafe extern "C" fn r_wake_by_ref(raw: *const ()) {
    of(*(raw as *const Words)).wakes.fetch_add(1, SeqCst);
}

/// Poll the opaque single-trait object `obj` (layout: vtable pointer, then the container; `poll` is the vtable's
/// first entry) with a record made by this module. `decoy` supplies the bits for the two opaque words.
/// Returns what the entry returned.
pub unsafe fn poll_object<T>(obj: &mut T, decoy: &Waker) -> bool {
    let words = obj as *mut T as *mut usize;
    let vtbl = *words as *const usize;
    let entry: unsafe extern "C" fn(*mut usize, *const RefWaker, *mut u32) -> bool = std::mem::transmute(*vtbl);
    let rec = RefWaker { raw: decoy as *const Waker as *const Words, clone: r_clone, wake_by_ref: r_wake_by_ref };
    let mut out = std::mem::MaybeUninit::<u32>::uninit();
    entry(words.add(1), &rec, out.as_mut_ptr())
}
