//! C19 — a waker crossing the boundary wakes the original and is released once.
//! History exploration over the tree of wakers obtained inside polls of a future / stream / sink that
//! is polled through an opaque cglue object.

mod foreign;

use cglue::*;
use explore::driver::{CheckDef, Section};
use explore::{digest, hist, CaseOut, Cx, HistSut, StepOut, Tier};
use serde::{Deserialize, Serialize};
use serde_json::Value;
use std::future::Future;
use std::pin::Pin;
use std::sync::{Arc, Mutex};
use std::sync::atomic::{AtomicBool, AtomicI64, AtomicU64, Ordering::SeqCst};
use std::task::{Context, Poll, RawWaker, RawWakerVTable, Waker};

// ------------------------------------------------------------------------------------------
// the caller's waker: a leaked registry slot, so over-release is a counter going below its start value

struct Slot {
    refs: AtomicI64,
    wakes: AtomicU64,
    released: AtomicBool,
    touched_after_release: AtomicBool,
    below_start: AtomicBool,
    /// what the caller's task owns and lets go of when its waker is released for the last time (e.g. the retained
    /// foreign-side waker of another task: the release of one caller waker then re-enters the library)
    on_release: Mutex<Option<Waker>>,
    /// armed by the harness: runs inside the NEXT release of one of the caller waker's references, before that release
    /// returns (the caller's callback is a point at which another thread can be made to run)
    #[allow(clippy::type_complexity)]
    in_release: Mutex<Option<Box<dyn FnOnce() + Send>>>,
}

impl Slot {
    fn touch(&self) {
        if self.released.load(SeqCst) {
            self.touched_after_release.store(true, SeqCst);
        }
    }
    fn dec(&self) {
        let hook = self.in_release.lock().unwrap().take();
        let now = self.refs.fetch_sub(1, SeqCst) - 1;
        if let Some(h) = hook {
            h();
        }
        if now < 0 {
            self.below_start.store(true, SeqCst);
        }
        if now == 0 {
            self.released.store(true, SeqCst);
            let owned = self.on_release.lock().unwrap().take();
            drop(owned);
        }
    }
}

static VT: RawWakerVTable = RawWakerVTable::new(
    |p| {
        let s = unsafe { &*(p as *const Slot) };
        s.touch();
        s.refs.fetch_add(1, SeqCst);
        RawWaker::new(p, &VT)
    },
    |p| {
        let s = unsafe { &*(p as *const Slot) };
        s.touch();
        s.wakes.fetch_add(1, SeqCst);
        s.dec();
    },
    |p| {
        let s = unsafe { &*(p as *const Slot) };
        s.touch();
        s.wakes.fetch_add(1, SeqCst);
    },
    |p| {
        let s = unsafe { &*(p as *const Slot) };
        s.touch();
        s.dec();
    },
);

/// A caller whose waker keeps its state in a static and hands out a NULL data pointer (single-task
/// executors do this). One such caller exists at a time: executions using it hold NULL_LOCK.
static NULL_SLOT: std::sync::atomic::AtomicPtr<Slot> = std::sync::atomic::AtomicPtr::new(std::ptr::null_mut());
static NULL_LOCK: Mutex<()> = Mutex::new(());

fn null_slot() -> &'static Slot {
    unsafe { &*NULL_SLOT.load(SeqCst) }
}

static VTN: RawWakerVTable = RawWakerVTable::new(
    |p| {
        assert!(p.is_null());
        let s = null_slot();
        s.touch();
        s.refs.fetch_add(1, SeqCst);
        RawWaker::new(std::ptr::null(), &VTN)
    },
    |_| {
        let s = null_slot();
        s.touch();
        s.wakes.fetch_add(1, SeqCst);
        s.dec();
    },
    |_| {
        let s = null_slot();
        s.touch();
        s.wakes.fetch_add(1, SeqCst);
    },
    |_| {
        let s = null_slot();
        s.touch();
        s.dec();
    },
);

fn manual_waker(null_data: bool) -> (Waker, &'static Slot) {
    let slot: &'static Slot = Box::leak(Box::new(Slot {
        refs: AtomicI64::new(1),
        wakes: AtomicU64::new(0),
        released: AtomicBool::new(false),
        touched_after_release: AtomicBool::new(false),
        below_start: AtomicBool::new(false),
        on_release: Mutex::new(None),
        in_release: Mutex::new(None),
    }));
    if null_data {
        NULL_SLOT.store(slot as *const Slot as *mut Slot, SeqCst);
        (unsafe { Waker::from_raw(RawWaker::new(std::ptr::null(), &VTN)) }, slot)
    } else {
        (unsafe { Waker::from_raw(RawWaker::new(slot as *const Slot as *const (), &VT)) }, slot)
    }
}

// ------------------------------------------------------------------------------------------
// operations

#[derive(Clone, Copy, Debug, Serialize, Deserialize, PartialEq, Eq, Hash)]
enum Act {
    /// cx.waker().clone(): a new foreign-side waker (only inside a poll)
    CloneCx,
    /// cx.waker().wake_by_ref() (only inside a poll)
    WakeCx,
    Clone(usize),
    Wake(usize),
    WakeByRef(usize),
    Drop(usize),
    /// the caller drops its own waker (only outside a poll, once; no poll follows): the task lives on
    /// through the wakers handed out, as with a spawn-and-detach executor
    DropCaller,
    /// wake (by value / by reference) from a destructor that runs because the thread is unwinding from a panic - the
    /// "notify on drop" guard pattern (only outside a poll)
    WakeUnwinding(usize),
    WakeByRefUnwinding(usize),
}

/// runs its closure when dropped
struct OnDrop<F: FnMut()>(F);
impl<F: FnMut()> Drop for OnDrop<F> {
    fn drop(&mut self) {
        (self.0)()
    }
}

#[derive(Clone, Copy, Debug, Serialize, Deserialize, PartialEq, Eq, Hash)]
enum Op {
    /// start a new poll and perform the action inside it
    In(Act),
    /// perform the action inside the same poll as the previous In/InCont
    InCont(Act),
    /// perform the action after the poll has returned, on the polling thread
    Out(Act),
    /// perform the action after the poll has returned, on another OS thread
    Thread(Act),
}

#[derive(Clone, Copy, Debug, PartialEq)]
enum Kind {
    Future,
    Stream,
    SinkReady,
    SinkFlush,
    SinkClose,
    /// an opaque future polled inside another opaque future: the innermost implementor sees a waker that has
    /// crossed two boundaries (the library's own per-poll borrowed waker is the "caller's waker" of the inner one)
    NestedFuture,
    /// the poll is entered from another module: the per-poll record is assembled through its published layout with
    /// that module's own clone / wake functions (see foreign.rs); the local waker only lends its bits as a decoy
    ForeignFuture,
    /// every poll comes back Ready(Some(item)) / Ready(Ok(())): wakes requested during such a poll count like any other
    StreamReady,
    SinkFlushReady,
}

#[derive(Default)]
struct World {
    /// live foreign-side wakers with their family (= the CloneCx that created them)
    wakers: Vec<(Waker, usize)>,
    families: usize,
    pending: Vec<Act>,
    wake_ops: u64,
    caller_dropped: bool,
    /// polls come back Ready (an item / Ok) instead of Pending
    ready: bool,
    /// which of the implementor's methods were entered since the harness last cleared this (one poll through the object
    /// must reach the method of the same name once, and nothing else)
    entered: Vec<&'static str>,
}

impl World {
    fn apply(&mut self, a: Act, cx: Option<&Waker>) {
        match a {
            Act::CloneCx => {
                let w = cx.expect("in poll").clone();
                self.wakers.push((w, self.families));
                self.families += 1;
            }
            Act::WakeCx => {
                cx.expect("in poll").wake_by_ref();
                self.wake_ops += 1;
            }
            Act::Clone(i) => {
                let (w, f) = (&self.wakers[i].0, self.wakers[i].1);
                let c = w.clone();
                self.wakers.push((c, f));
            }
            Act::Wake(i) => {
                let (w, _) = self.wakers.remove(i);
                w.wake();
                self.wake_ops += 1;
            }
            Act::WakeByRef(i) => {
                self.wakers[i].0.wake_by_ref();
                self.wake_ops += 1;
            }
            Act::Drop(i) => {
                let (w, _) = self.wakers.remove(i);
                drop(w);
            }
            Act::DropCaller => unreachable!("handled by the driver"),
            Act::WakeUnwinding(i) => {
                let (w, _) = self.wakers.remove(i);
                let mut w = Some(w);
                let r = std::panic::catch_unwind(std::panic::AssertUnwindSafe(move || {
                    let _g = OnDrop(move || {
                        if let Some(w) = w.take() {
                            w.wake()
                        }
                    });
                    panic!("unwinding on purpose");
                }));
                assert!(r.is_err());
                self.wake_ops += 1;
            }
            Act::WakeByRefUnwinding(i) => {
                let w: &Waker = &self.wakers[i].0;
                let r = std::panic::catch_unwind(std::panic::AssertUnwindSafe(|| {
                    let _g = OnDrop(|| w.wake_by_ref());
                    panic!("unwinding on purpose");
                }));
                assert!(r.is_err());
                self.wake_ops += 1;
            }
        }
    }
}

/// The scripted implementor behind the opaque object: inside a poll it performs the pending actions
/// on `cx.waker()` / the stored wakers and returns Pending.
struct Scripted(Arc<Mutex<World>>);

impl Scripted {
    /// -> whether this poll is to come back Ready (streams and sinks only: for them Ready is not the end)
    fn run(&mut self, cx: &mut Context<'_>, method: &'static str) -> bool {
        let mut w = self.0.lock().unwrap();
        w.entered.push(method);
        let acts = std::mem::take(&mut w.pending);
        for a in acts {
            w.apply(a, Some(cx.waker()));
        }
        w.ready
    }
}

impl Future for Scripted {
    type Output = u32;
    fn poll(mut self: Pin<&mut Self>, cx: &mut Context<'_>) -> Poll<u32> {
        self.run(cx, "poll");
        Poll::Pending
    }
}

impl futures::Stream for Scripted {
    type Item = u32;
    fn poll_next(mut self: Pin<&mut Self>, cx: &mut Context<'_>) -> Poll<Option<u32>> {
        if self.run(cx, "poll_next") {
            Poll::Ready(Some(7))
        } else {
            Poll::Pending
        }
    }
}

impl futures::Sink<u32> for Scripted {
    type Error = u32;
    fn poll_ready(mut self: Pin<&mut Self>, cx: &mut Context<'_>) -> Poll<Result<(), u32>> {
        self.run(cx, "poll_ready");
        Poll::Pending
    }
    fn start_send(self: Pin<&mut Self>, _item: u32) -> Result<(), u32> {
        self.0.lock().unwrap().entered.push("start_send");
        Ok(())
    }
    fn poll_flush(mut self: Pin<&mut Self>, cx: &mut Context<'_>) -> Poll<Result<(), u32>> {
        if self.run(cx, "poll_flush") {
            Poll::Ready(Ok(()))
        } else {
            Poll::Pending
        }
    }
    fn poll_close(mut self: Pin<&mut Self>, cx: &mut Context<'_>) -> Poll<Result<(), u32>> {
        self.run(cx, "poll_close");
        Poll::Pending
    }
}

/// forwards its poll to an opaque future, handing on the context it was polled with
struct Outer<F>(F);

impl<F: Future<Output = u32> + Unpin> Future for Outer<F> {
    type Output = u32;
    fn poll(mut self: Pin<&mut Self>, cx: &mut Context<'_>) -> Poll<u32> {
        Pin::new(&mut self.0).poll(cx)
    }
}

struct Sut {
    kind: Kind,
    max_wakers: usize,
    threads: bool,
    /// the caller's waker has a null data pointer (state in a static)
    null_data: bool,
}

type V = Result<(), (String, String)>;

fn oracle(slot: &Slot, world: &World, at: &dyn Fn(&str) -> String, foreign: bool, fstats: Option<&foreign::Stats>) -> V {
    if foreign {
        // the other module's functions did all the work; nothing on this side may have interpreted the opaque words
        let st = fstats.expect("foreign stats");
        let (fwakes, frefs, under) = (st.wakes.load(SeqCst), st.refs.load(SeqCst), st.under.load(SeqCst));
        if slot.refs.load(SeqCst) != 1 || slot.wakes.load(SeqCst) != 0 {
            return Err(("waker:foreign_words_interpreted".into(), at(&format!("the record came from another module, but the two opaque words it points to were used as a local waker (refcount {} instead of 1, woken {} time(s)): cloning / waking must go through the record's own functions", slot.refs.load(SeqCst), slot.wakes.load(SeqCst)))));
        }
        if under || frefs < 0 {
            return Err(("waker:over_release".into(), at("the other module's waker was released more often than it was cloned")));
        }
        if fwakes != world.wake_ops {
            return Err(("waker:wake_count".into(), at(&format!("{} wake operation(s) performed, the other module's waker woken {} time(s)", world.wake_ops, fwakes))));
        }
        let mut fams: Vec<usize> = world.wakers.iter().map(|x| x.1).collect();
        fams.sort();
        fams.dedup();
        // while any handle is alive at least one owned waker of the other module is held, every live handle holds at most
        // one; none when no handle is left (whether clones are shared per poll, per family or made per handle is the
        // implementation's choice)
        let floor: i64 = if world.wakers.is_empty() { 0 } else { 1 };
        if world.pending.is_empty() && (frefs < floor || frefs > world.wakers.len() as i64) {
            return Err((if frefs > world.wakers.len() as i64 { "waker:leak" } else { "waker:released_early" }.into(), at(&format!("{} retained waker(s) in {} famil(ies) are alive, the other module counts {} owned waker(s) handed out and not released", world.wakers.len(), fams.len(), frefs))));
        }
        return Ok(());
    }
    let refs = slot.refs.load(SeqCst);
    let wakes = slot.wakes.load(SeqCst);
    // the caller's own handle counts 1 while it is alive
    let base: i64 = if world.caller_dropped { 0 } else { 1 };
    if slot.below_start.load(SeqCst) || refs < base {
        return Err(("waker:over_release".into(), at(&format!("the caller's waker was released more often than it was cloned (refcount {}, the caller's own handle accounting for {})", refs, base))));
    }
    if slot.touched_after_release.load(SeqCst) {
        return Err(("waker:use_after_release".into(), at("the caller's waker was used (cloned, woken or dropped) after its last reference had been released")));
    }
    // every live foreign-side family holds the caller's waker: it must not have been released yet
    if !world.wakers.is_empty() && slot.released.load(SeqCst) {
        return Err(("waker:released_early".into(), at("foreign-side wakers are still alive but the last reference to the caller's waker has been released")));
    }
    if wakes != world.wake_ops {
        return Err(("waker:wake_count".into(), at(&format!("{} wake operation(s) performed on the foreign side, caller's waker woken {} time(s)", world.wake_ops, wakes))));
    }
    if world.wakers.is_empty() && world.pending.is_empty() && refs != base {
        return Err(("waker:leak".into(), at(&format!("no foreign-side waker is left but the caller's refcount is {} (expected {})", refs, base))));
    }
    Ok(())
}

impl Sut {
    fn enabled(&self, n: usize, last_in: bool, caller_dropped: bool) -> Vec<Op> {
        let mut acts_in = vec![];
        if n < self.max_wakers {
            acts_in.push(Act::CloneCx);
        }
        acts_in.push(Act::WakeCx);
        let mut common = vec![];
        for i in 0..n {
            if n < self.max_wakers {
                common.push(Act::Clone(i));
            }
            common.push(Act::Wake(i));
            common.push(Act::WakeByRef(i));
            common.push(Act::Drop(i));
        }
        let mut v = Vec::new();
        if !caller_dropped {
            for a in acts_in.iter().chain(common.iter()) {
                v.push(Op::In(*a));
            }
            if last_in {
                for a in acts_in.iter().chain(common.iter()) {
                    v.push(Op::InCont(*a));
                }
            }
        }
        for a in &common {
            v.push(Op::Out(*a));
        }
        for i in 0..n {
            v.push(Op::Out(Act::WakeUnwinding(i)));
            v.push(Op::Out(Act::WakeByRefUnwinding(i)));
        }
        if !caller_dropped && n > 0 && self.kind != Kind::ForeignFuture {
            v.push(Op::Out(Act::DropCaller));
        }
        if self.threads {
            for a in &common {
                v.push(Op::Thread(*a));
            }
        }
        v
    }

    fn exec(&self, hist: &[Op], obs: &mut Vec<u64>) -> Result<(u64, usize, bool, bool), (String, String)> {
        let _serial = if self.null_data { Some(NULL_LOCK.lock().unwrap_or_else(|e| e.into_inner())) } else { None };
        let (waker, slot) = manual_waker(self.null_data);
        let mut waker = Some(waker);
        let foreign = self.kind == Kind::ForeignFuture;
        // registered under the decoy's data word (the slot address); stays registered: wakers leaked on a violation may still call in
        let fstats: Option<&'static foreign::Stats> = if foreign { Some(foreign::register(slot as *const Slot as usize)) } else { None };
        let world = Arc::new(Mutex::new(World { ready: matches!(self.kind, Kind::StreamReady | Kind::SinkFlushReady), ..World::default() }));
        // group the history into polls / outside actions
        enum Grp {
            Poll(Vec<Act>),
            Out(Act),
            Thread(Act),
        }
        let mut groups: Vec<(usize, Grp)> = Vec::new();
        for (i, op) in hist.iter().enumerate() {
            match *op {
                Op::In(a) => groups.push((i, Grp::Poll(vec![a]))),
                Op::InCont(a) => match groups.last_mut() {
                    Some((_, Grp::Poll(v))) => v.push(a),
                    _ => return Err(("harness".into(), "InCont without a poll".into())),
                },
                Op::Out(a) => groups.push((i, Grp::Out(a))),
                Op::Thread(a) => groups.push((i, Grp::Thread(a))),
            }
        }
        macro_rules! drive {
            ($obj:expr, $want:expr, $poll:expr) => {{
                let mut obj = $obj;
                for (step, g) in groups.iter() {
                    let at = |what: &str| format!("step {} {:?}: {}", step, hist[*step], what);
                    match g {
                        Grp::Poll(acts) => {
                            world.lock().unwrap().pending = acts.clone();
                            world.lock().unwrap().entered.clear();
                            let mut cx = Context::from_waker(waker.as_ref().expect("no poll after the caller dropped its waker"));
                            let pinned = Pin::new(&mut obj);
                            let pending = $poll(pinned, &mut cx);
                            if !pending {
                                return Err(("waker:poll_result".into(), at("the scripted poll result (Pending, or Ready with its value) did not come back unchanged")));
                            }
                            let entered = world.lock().unwrap().entered.clone();
                            if entered != [$want] {
                                return Err(("poll:dispatch".into(), at(&format!("one {} through the opaque object entered the implementor's methods {:?} (expected exactly one {})", $want, entered, $want))));
                            }
                        }
                        Grp::Out(Act::DropCaller) => {
                            drop(waker.take().expect("caller's waker dropped twice"));
                            world.lock().unwrap().caller_dropped = true;
                        }
                        Grp::Out(a) => world.lock().unwrap().apply(*a, None),
                        Grp::Thread(a) => {
                            // hand the affected waker to another OS thread, operate there, hand back
                            let mut w = world.lock().unwrap();
                            let a = *a;
                            match a {
                                Act::Clone(i) => {
                                    let f = w.wakers[i].1;
                                    let src: &Waker = &w.wakers[i].0;
                                    let c = std::thread::scope(|s| s.spawn(move || src.clone()).join().unwrap());
                                    w.wakers.push((c, f));
                                }
                                Act::Wake(i) => {
                                    let (x, _) = w.wakers.remove(i);
                                    std::thread::spawn(move || x.wake()).join().unwrap();
                                    w.wake_ops += 1;
                                }
                                Act::WakeByRef(i) => {
                                    let src: &Waker = &w.wakers[i].0;
                                    std::thread::scope(|s| s.spawn(move || src.wake_by_ref()).join().unwrap());
                                    w.wake_ops += 1;
                                }
                                Act::Drop(i) => {
                                    let (x, _) = w.wakers.remove(i);
                                    std::thread::spawn(move || drop(x)).join().unwrap();
                                }
                                _ => unreachable!(),
                            }
                        }
                    }
                    oracle(slot, &world.lock().unwrap(), &at, foreign, fstats)?;
                    obs.push(digest(&(slot.refs.load(SeqCst), slot.wakes.load(SeqCst), world.lock().unwrap().wakers.len())));
                }
                drop(obj);
            }};
        }
        match self.kind {
            Kind::Future => drive!(trait_obj!(Scripted(world.clone()) as Future), "poll", |p: Pin<&mut _>, cx: &mut Context| Future::poll(p, cx).is_pending()),
            Kind::ForeignFuture => drive!(trait_obj!(Scripted(world.clone()) as Future), "poll", |p: Pin<&mut _>, cx: &mut Context| {
                let _ = unsafe { foreign::poll_object(Pin::into_inner(p), cx.waker()) };
                true
            }),
            Kind::NestedFuture => drive!(trait_obj!(Outer(trait_obj!(Scripted(world.clone()) as Future)) as Future), "poll", |p: Pin<&mut _>, cx: &mut Context| Future::poll(p, cx).is_pending()),
            Kind::Stream => drive!(trait_obj!(Scripted(world.clone()) as Stream), "poll_next", |p: Pin<&mut _>, cx: &mut Context| futures::Stream::poll_next(p, cx).is_pending()),
            Kind::SinkReady => drive!(trait_obj!(Scripted(world.clone()) as Sink), "poll_ready", |p: Pin<&mut _>, cx: &mut Context| futures::Sink::<u32>::poll_ready(p, cx).is_pending()),
            Kind::SinkFlush => drive!(trait_obj!(Scripted(world.clone()) as Sink), "poll_flush", |p: Pin<&mut _>, cx: &mut Context| futures::Sink::<u32>::poll_flush(p, cx).is_pending()),
            Kind::StreamReady => drive!(trait_obj!(Scripted(world.clone()) as Stream), "poll_next", |p: Pin<&mut _>, cx: &mut Context| futures::Stream::poll_next(p, cx) == Poll::Ready(Some(7))),
            Kind::SinkFlushReady => drive!(trait_obj!(Scripted(world.clone()) as Sink), "poll_flush", |p: Pin<&mut _>, cx: &mut Context| futures::Sink::<u32>::poll_flush(p, cx) == Poll::Ready(Ok(()))),
            Kind::SinkClose => drive!(trait_obj!(Scripted(world.clone()) as Sink), "poll_close", |p: Pin<&mut _>, cx: &mut Context| futures::Sink::<u32>::poll_close(p, cx).is_pending()),
        }
        // canonical key: family sizes (sorted), caller refcount, whether an InCont may follow
        let last_in = matches!(hist.last(), Some(Op::In(_)) | Some(Op::InCont(_)));
        let n = world.lock().unwrap().wakers.len();
        let key = {
            let w = world.lock().unwrap();
            let mut fam: Vec<usize> = (0..w.families).map(|f| w.wakers.iter().filter(|x| x.1 == f).count()).filter(|c| *c > 0).collect();
            fam.sort();
            // the order of wakers matters for indices only; family membership per position
            let pos: Vec<usize> = w.wakers.iter().map(|x| x.1).collect();
            let mut relabel: Vec<usize> = Vec::new();
            let norm: Vec<usize> = pos.iter().map(|f| { if let Some(p) = relabel.iter().position(|x| x == f) { p } else { relabel.push(*f); relabel.len() - 1 } }).collect();
            digest(&(fam, norm, slot.refs.load(SeqCst), last_in, w.caller_dropped))
        };
        // ---- teardown: drop every remaining foreign waker, then the caller's own
        {
            let mut w = world.lock().unwrap();
            while !w.wakers.is_empty() {
                let (x, _) = w.wakers.remove(0);
                drop(x);
                let base = if w.caller_dropped { 0 } else { 1 };
                if slot.below_start.load(SeqCst) || slot.refs.load(SeqCst) < base {
                    return Err(("waker:over_release".into(), format!("teardown: dropping the remaining foreign wakers released the caller's waker too often (refcount {})", slot.refs.load(SeqCst))));
                }
            }
        }
        let at = |what: &str| format!("teardown: {}", what);
        oracle(slot, &world.lock().unwrap(), &at, foreign, fstats)?;
        let caller_dropped = waker.is_none();
        drop(waker);
        if slot.refs.load(SeqCst) != 0 {
            return Err(("waker:leak".into(), format!("after the caller dropped its own waker the refcount is {}", slot.refs.load(SeqCst))));
        }
        if slot.touched_after_release.load(SeqCst) {
            return Err(("waker:use_after_release".into(), "the caller's waker was touched after its last reference was released".into()));
        }
        if foreign {
            foreign::unregister(slot as *const Slot as usize);
        }
        Ok((key, n, last_in, caller_dropped))
    }
}

impl HistSut for Sut {
    type Op = Op;
    fn run(&self, hist: &[Op]) -> StepOut<Op> {
        let mut obs = Vec::with_capacity(hist.len() + 1);
        let r = std::panic::catch_unwind(std::panic::AssertUnwindSafe(|| self.exec(hist, &mut obs)));
        let obs_d = digest(&obs);
        match r {
            Err(_) => StepOut { key: 0, enabled: vec![], obs: obs_d, violation: Some(("panic".into(), "panicked".into())) },
            Ok(Err(v)) => StepOut { key: 0, enabled: vec![], obs: obs_d, violation: Some(v) },
            Ok(Ok((key, n, last_in, cd))) => StepOut { key, enabled: self.enabled(n, last_in, cd), obs: obs_d, violation: None },
        }
    }
}

fn kind_of(name: &str) -> Kind {
    match name.trim_end_matches("_bfs").trim_end_matches("_nulldata") {
        "future" => Kind::Future,
        "stream" => Kind::Stream,
        "sink_ready" => Kind::SinkReady,
        "sink_flush" => Kind::SinkFlush,
        "nested_future" => Kind::NestedFuture,
        "foreign_future" => Kind::ForeignFuture,
        "stream_ready" => Kind::StreamReady,
        "sink_flush_ready" => Kind::SinkFlushReady,
        _ => Kind::SinkClose,
    }
}

/// `n` tasks, each polled once through an opaque future that retains a clone of the waker it is given; task i owns the
/// retained foreign-side waker of task i + 1 and lets go of it when its own waker is released for the last time. Letting
/// go of the first handle (drop / wake by value) therefore releases every caller waker, each release re-entering the
/// library from inside the previous one.
fn chain_case(n: usize, by_wake: bool) -> CaseOut {
    let mut slots: Vec<&'static Slot> = Vec::new();
    let mut handles: Vec<Option<Waker>> = Vec::new();
    for _ in 0..n {
        let (w, slot) = manual_waker(false);
        let world = Arc::new(Mutex::new(World::default()));
        world.lock().unwrap().pending = vec![Act::CloneCx];
        let mut obj = trait_obj!(Scripted(world.clone()) as Future);
        {
            let mut cx = Context::from_waker(&w);
            let _ = Future::poll(Pin::new(&mut obj), &mut cx);
        }
        let h = world.lock().unwrap().wakers.pop().map(|x| x.0);
        drop(obj);
        drop(w);
        slots.push(slot);
        handles.push(h);
    }
    if handles.iter().any(|h| h.is_none()) {
        return CaseOut::bad("harness", "the scripted future did not retain a waker");
    }
    for i in 0..n - 1 {
        *slots[i].on_release.lock().unwrap() = handles[i + 1].take();
    }
    let h0 = handles[0].take().unwrap();
    if by_wake {
        h0.wake();
    } else {
        drop(h0);
    }
    let left: Vec<usize> = (0..n).filter(|i| slots[*i].refs.load(SeqCst) != 0 || !slots[*i].released.load(SeqCst)).collect();
    let over: Vec<usize> = (0..n).filter(|i| slots[*i].below_start.load(SeqCst) || slots[*i].touched_after_release.load(SeqCst)).collect();
    let wakes: Vec<u64> = slots.iter().map(|s| s.wakes.load(SeqCst)).collect();
    let mut out = CaseOut::ok(digest(&(n, by_wake, &wakes)));
    if !left.is_empty() {
        out.violation = Some(("waker:leak_chain".into(), format!("chain of {} tasks, first handle {}: the caller wakers of tasks {:?} were not released although every foreign-side handle is gone (refcounts {:?})", n, if by_wake { "woken by value" } else { "dropped" }, left, slots.iter().map(|s| s.refs.load(SeqCst)).collect::<Vec<_>>())));
    } else if !over.is_empty() {
        out.violation = Some(("waker:over_release".into(), format!("chain of {} tasks: the caller wakers of tasks {:?} were released too often / touched after their release", n, over)));
    } else if wakes[0] != by_wake as u64 || wakes[1..].iter().any(|w| *w != 0) {
        out.violation = Some(("waker:wake_count".into(), format!("chain of {} tasks: wake counts {:?}", n, wakes)));
    }
    out
}

/// The caller's waker of a bridged poll is itself a waker that was retained from an EARLIER bridged poll (an executor that stores
/// the wakers it was handed and polls nested tasks with them): depth levels of retained wakers, each the caller's waker of the
/// next poll. `order` is the order in which the retained handles are let go (index into the levels), `wake_level` the handle woken
/// by reference before that. Every level's handle is an independent owner: releasing one never invalidates the one it wraps.
fn nested_retained_case(depth: usize, order: &[usize], wake_level: usize) -> CaseOut {
    let (w0, slot) = manual_waker(false);
    let mut callers: Vec<Waker> = vec![w0];
    for _level in 0..depth {
        let world = Arc::new(Mutex::new(World::default()));
        world.lock().unwrap().pending = vec![Act::CloneCx];
        let mut obj = trait_obj!(Scripted(world.clone()) as Future);
        {
            let mut cx = Context::from_waker(callers.last().unwrap());
            let _ = Future::poll(Pin::new(&mut obj), &mut cx);
        }
        let h = world.lock().unwrap().wakers.pop().map(|x| x.0);
        drop(obj);
        match h {
            Some(h) => callers.push(h),
            None => return CaseOut::bad("harness", "the scripted future did not retain a waker"),
        }
    }
    let mut handles: Vec<Option<Waker>> = callers.into_iter().map(Some).collect();
    // handles[0] is the harness' own waker, handles[1..] are the retained levels
    if slot.released.load(SeqCst) || slot.refs.load(SeqCst) < 2 {
        return CaseOut::bad("waker:nested_early_release", format!("{} nested levels: the caller's waker has refcount {} (released: {}) while every level still holds its handle", depth, slot.refs.load(SeqCst), slot.released.load(SeqCst)));
    }
    handles[wake_level + 1].as_ref().unwrap().wake_by_ref();
    let mut out_wakes = slot.wakes.load(SeqCst);
    if out_wakes != 1 {
        return CaseOut::bad("waker:wake_count", format!("{} nested levels: waking the level-{} handle by reference woke the caller {} time(s)", depth, wake_level + 1, out_wakes));
    }
    for (k, &lvl) in order.iter().enumerate() {
        drop(handles[lvl + 1].take());
        if slot.below_start.load(SeqCst) || slot.touched_after_release.load(SeqCst) || slot.released.load(SeqCst) {
            return CaseOut::bad("waker:over_release", format!("{} nested levels, handles let go in the order {:?}: after letting go of level {} ({} of {}) the caller's waker was released / touched after release although the harness still owns it", depth, order, lvl + 1, k + 1, order.len()));
        }
        // a level that is still held still owns (directly or through the levels below it) a clone of the caller's waker ...
        if handles.iter().skip(1).any(|h| h.is_some()) && slot.refs.load(SeqCst) < 2 {
            return CaseOut::bad("waker:nested_early_release", format!("{} nested levels, handles let go in the order {:?}: after letting go of level {} the clone of the caller's waker was released (refcount {}) although retained handles that wake through it are alive", depth, order, lvl + 1, slot.refs.load(SeqCst)));
        }
        // ... and must still reach the caller
        if let Some(Some(h)) = handles.iter().skip(1).find(|h| h.is_some()) {
            h.wake_by_ref();
            out_wakes += 1;
            if slot.wakes.load(SeqCst) != out_wakes {
                return CaseOut::bad("waker:wake_count", format!("{} nested levels, order {:?}: after letting go of level {} a remaining handle no longer wakes the caller", depth, order, lvl + 1));
            }
        }
    }
    if slot.refs.load(SeqCst) != 1 {
        return CaseOut::bad("waker:leak", format!("{} nested levels, order {:?}: every retained handle is gone, the caller's waker still has refcount {}", depth, order, slot.refs.load(SeqCst)));
    }
    drop(handles[0].take());
    if !slot.released.load(SeqCst) || slot.below_start.load(SeqCst) || slot.touched_after_release.load(SeqCst) {
        return CaseOut::bad("waker:over_release", format!("{} nested levels, order {:?}: the caller's waker was not released exactly once at the end", depth, order));
    }
    CaseOut::ok(digest(&(depth, order, wake_level, out_wakes)))
}

fn permutations(n: usize) -> Vec<Vec<usize>> {
    if n == 0 {
        return vec![vec![]];
    }
    let mut out = Vec::new();
    for p in permutations(n - 1) {
        for i in 0..=p.len() {
            let mut q = p.clone();
            q.insert(i, n - 1);
            out.push(q);
        }
    }
    out
}

/// An implementor that answers every poll with a fixed value: what the implementor returns is what the caller of the opaque object
/// gets, for every method of Future / Stream / Sink and every kind of answer.
#[derive(Clone, Copy)]
struct Fixed {
    /// 0 Pending, 1 Ready(ok-ish value), 2 Ready(the other arm: None / Err)
    ans: u8,
    val: u32,
}
impl Future for Fixed {
    type Output = u32;
    fn poll(self: Pin<&mut Self>, _cx: &mut Context<'_>) -> Poll<u32> {
        if self.ans == 0 { Poll::Pending } else { Poll::Ready(self.val) }
    }
}
impl futures::Stream for Fixed {
    type Item = u32;
    fn poll_next(self: Pin<&mut Self>, _cx: &mut Context<'_>) -> Poll<Option<u32>> {
        match self.ans { 0 => Poll::Pending, 1 => Poll::Ready(Some(self.val)), _ => Poll::Ready(None) }
    }
}
impl Fixed {
    fn res(&self) -> Poll<Result<(), u32>> {
        match self.ans { 0 => Poll::Pending, 1 => Poll::Ready(Ok(())), _ => Poll::Ready(Err(self.val)) }
    }
}
impl futures::Sink<u32> for Fixed {
    type Error = u32;
    fn poll_ready(self: Pin<&mut Self>, _cx: &mut Context<'_>) -> Poll<Result<(), u32>> {
        self.res()
    }
    fn start_send(self: Pin<&mut Self>, item: u32) -> Result<(), u32> {
        if self.ans == 1 { Ok(()) } else { Err(item ^ self.val) }
    }
    fn poll_flush(self: Pin<&mut Self>, _cx: &mut Context<'_>) -> Poll<Result<(), u32>> {
        self.res()
    }
    fn poll_close(self: Pin<&mut Self>, _cx: &mut Context<'_>) -> Poll<Result<(), u32>> {
        self.res()
    }
}

const RESULT_METHODS: [&str; 6] = ["Future::poll", "Stream::poll_next", "Sink::poll_ready", "Sink::start_send", "Sink::poll_flush", "Sink::poll_close"];
const RESULT_VALS: [u32; 5] = [0, 1, 7, 0xffff, u32::MAX];

fn poll_result_case(method: usize, ans: u8, vi: usize) -> CaseOut {
    let fx = Fixed { ans, val: RESULT_VALS[vi] };
    let (w, _slot) = manual_waker(false);
    let mut cx = Context::from_waker(&w);
    let mut direct = fx;
    let (want, got): (String, String) = match method {
        0 => {
            let mut o = trait_obj!(fx as Future);
            (format!("{:?}", Pin::new(&mut direct).poll(&mut cx)), format!("{:?}", Future::poll(Pin::new(&mut o), &mut cx)))
        }
        1 => {
            let mut o = trait_obj!(fx as Stream);
            (format!("{:?}", futures::Stream::poll_next(Pin::new(&mut direct), &mut cx)), format!("{:?}", futures::Stream::poll_next(Pin::new(&mut o), &mut cx)))
        }
        2 => {
            let mut o = trait_obj!(fx as Sink);
            (format!("{:?}", futures::Sink::<u32>::poll_ready(Pin::new(&mut direct), &mut cx)), format!("{:?}", futures::Sink::<u32>::poll_ready(Pin::new(&mut o), &mut cx)))
        }
        3 => {
            let mut o = trait_obj!(fx as Sink);
            (format!("{:?}", futures::Sink::<u32>::start_send(Pin::new(&mut direct), 5)), format!("{:?}", futures::Sink::<u32>::start_send(Pin::new(&mut o), 5)))
        }
        4 => {
            let mut o = trait_obj!(fx as Sink);
            (format!("{:?}", futures::Sink::<u32>::poll_flush(Pin::new(&mut direct), &mut cx)), format!("{:?}", futures::Sink::<u32>::poll_flush(Pin::new(&mut o), &mut cx)))
        }
        _ => {
            let mut o = trait_obj!(fx as Sink);
            (format!("{:?}", futures::Sink::<u32>::poll_close(Pin::new(&mut direct), &mut cx)), format!("{:?}", futures::Sink::<u32>::poll_close(Pin::new(&mut o), &mut cx)))
        }
    };
    if want != got {
        return CaseOut::bad("poll:result", format!("{} of an implementor that answers {} comes back as {} through the opaque object", RESULT_METHODS[method], want, got));
    }
    CaseOut::ok(digest(&(method, ans, vi, want)))
}

/// While the last handle of a waker family is being released (inside the release of the caller's waker clone it held), ANOTHER
/// thread polls the task again with the same caller waker and retains the waker it is given. The new handle must be a
/// fully valid one: waking it wakes the caller, letting go of it releases exactly what it acquired.
fn repoll_during_release_case(first_by_wake: bool, second_by_wake: bool) -> CaseOut {
    let (w, slot) = manual_waker(false);
    let world = Arc::new(Mutex::new(World::default()));
    let mut obj = trait_obj!(Scripted(world.clone()) as Future);
    world.lock().unwrap().pending = vec![Act::CloneCx];
    {
        let mut cx = Context::from_waker(&w);
        let _ = Future::poll(Pin::new(&mut obj), &mut cx);
    }
    let h1 = match world.lock().unwrap().wakers.pop() {
        Some(x) => x.0,
        None => return CaseOut::bad("harness", "no waker retained"),
    };
    // arm: inside the next release of a caller reference, a second thread polls and retains
    struct SendPtr<T>(*mut T);
    unsafe impl<T> Send for SendPtr<T> {}
    let objp = SendPtr(&mut obj as *mut _);
    let wp = SendPtr(&w as *const Waker as *mut Waker);
    let world2 = world.clone();
    *slot.in_release.lock().unwrap() = Some(Box::new(move || {
        let (objp, wp) = (objp, wp);
        std::thread::spawn(move || {
            let (objp, wp) = (objp, wp);
            world2.lock().unwrap().pending = vec![Act::CloneCx];
            // the main thread is parked inside the release callback: nothing else touches the object or the caller's waker
            let obj = unsafe { &mut *objp.0 };
            let w = unsafe { &*(wp.0 as *const Waker) };
            let mut cx = Context::from_waker(w);
            let _ = Future::poll(Pin::new(obj), &mut cx);
        })
        .join()
        .unwrap();
    }));
    let mut wake_ops = 0u64;
    if first_by_wake {
        h1.wake();
        wake_ops += 1;
    } else {
        drop(h1);
    }
    if slot.in_release.lock().unwrap().is_some() {
        return CaseOut::bad("harness", "letting go of the only foreign-side handle did not release a reference of the caller's waker");
    }
    let h2 = match world.lock().unwrap().wakers.pop() {
        Some(x) => x.0,
        None => return CaseOut::bad("harness", "the second poll retained no waker"),
    };
    let at = |what: &str| format!("second poll inside the release of the first family ({} / {}): {}", if first_by_wake { "woken by value" } else { "dropped" }, if second_by_wake { "wake" } else { "wake_by_ref + drop" }, what);
    let check = |stage: &str, live: i64, wake_ops: u64| -> Option<(String, String)> {
        let refs = slot.refs.load(SeqCst);
        if slot.below_start.load(SeqCst) || refs < 1 {
            return Some(("waker:over_release".into(), at(&format!("{}: caller refcount {}", stage, refs))));
        }
        if slot.touched_after_release.load(SeqCst) {
            return Some(("waker:use_after_release".into(), at(stage)));
        }
        if live > 0 && refs < 2 {
            return Some(("waker:released_early".into(), at(&format!("{}: a foreign-side waker is alive but no clone of the caller's waker is held (refcount {})", stage, refs))));
        }
        if live == 0 && refs != 1 {
            return Some(("waker:leak".into(), at(&format!("{}: no foreign-side waker is left, caller refcount {}", stage, refs))));
        }
        if slot.wakes.load(SeqCst) != wake_ops {
            return Some(("waker:wake_count".into(), at(&format!("{}: {} wake operation(s), caller woken {} time(s)", stage, wake_ops, slot.wakes.load(SeqCst)))));
        }
        None
    };
    let mut bad = check("after the first family is gone", 1, wake_ops);
    if bad.is_none() {
        if second_by_wake {
            h2.wake();
        } else {
            h2.wake_by_ref();
            drop(h2);
        }
        wake_ops += 1;
        bad = check("after the second handle is gone", 0, wake_ops);
    } else {
        std::mem::forget(h2);
    }
    drop(obj);
    drop(w);
    let mut out = CaseOut::ok(digest(&(first_by_wake, second_by_wake, slot.wakes.load(SeqCst))));
    out.violation = bad;
    out
}

fn main() {
    std::panic::set_hook(Box::new(|_| {}));
    let mut sections = Vec::new();
    for name in ["future", "stream", "sink_ready", "sink_flush", "sink_close", "future_nulldata", "sink_flush_nulldata", "nested_future", "foreign_future", "stream_ready", "sink_flush_ready"] {
        let kind = kind_of(name);
        let null_data = name.ends_with("_nulldata");
        sections.push(Section {
            name,
            explore: Box::new(move |cx: &Cx| {
                let (mw, d) = match (cx.tier, kind, null_data) {
                    (Tier::Quick, Kind::Future, false) => (3, 4),
                    (Tier::Quick, _, _) => (2, 3),
                    (Tier::Thorough, Kind::Future, false) => (3, 5),
                    (Tier::Thorough, _, _) => (3, 4),
                };
                let pre = if null_data { "the caller's waker has a NULL data pointer (its state lives in a static); " } else { "" };
                cx.rule(name, &format!("{}all histories of length <= {} over {{clone/wake_by_ref of cx.waker() inside a poll; clone, wake, wake_by_ref, drop of any live foreign-side waker — inside a new poll, inside the same poll as the previous action, after the poll on the polling thread, after the poll on another OS thread; the caller dropping its own waker while foreign-side wakers are alive (no poll afterwards)}} with <= {} live foreign wakers, the object being a scripted implementor behind trait_obj!(.. as {:?}); oracle after every step: caller woken exactly once per wake operation, caller's refcount never below its start value, back at the start value whenever no foreign waker is left; teardown: refcount 0 after the caller drops its own handle, nothing touches it after its last reference is released, it is not released while a foreign-side waker is alive", pre, d, mw, kind));
                hist::full(&Sut { kind, max_wakers: mw, threads: true, null_data }, d, cx, name);
            }),
            replay: Box::new(move |case: &Value| {
                let h: Vec<Op> = serde_json::from_value(case["history"].clone()).unwrap();
                let o = Sut { kind, max_wakers: 8, threads: true, null_data }.run(&h);
                CaseOut { obs: o.obs, nontrivial: true, violation: o.violation }
            }),
        });
    }
    sections.push(Section {
        name: "future_bfs",
        explore: Box::new(|cx: &Cx| {
            let (mw, d) = cx.tier.pick((3, 7), (4, 9));
            cx.rule("future_bfs", &format!("same alphabet without the OS-thread variants, <= {} live foreign wakers, BFS to depth {} with dedup on (family sizes, family of each position, caller refcount, may-continue-poll flag)", mw, d));
            hist::bfs(&Sut { kind: Kind::Future, max_wakers: mw, threads: false, null_data: false }, d, cx, "future_bfs", 2_000_000);
        }),
        replay: Box::new(|case: &Value| {
            let h: Vec<Op> = serde_json::from_value(case["history"].clone()).unwrap();
            let o = Sut { kind: Kind::Future, max_wakers: 8, threads: true, null_data: false }.run(&h);
            CaseOut { obs: o.obs, nontrivial: true, violation: o.violation }
        }),
    });
    sections.push(Section {
        name: "release_chain",
        explore: Box::new(|cx: &Cx| {
            let nmax = cx.tier.pick(6, 12);
            cx.rule("release_chain", &format!("re-entrant releases: chains of 1..={} tasks in which the last release of task i's caller waker lets go of the retained foreign-side waker of task i + 1; the first handle is dropped / woken by value; every caller waker is released exactly once, none touched afterwards, only the first one woken", nmax));
            for n in 1..=nmax {
                for by_wake in [false, true] {
                    cx.eval("release_chain", &serde_json::json!({"n": n, "by_wake": by_wake}), || chain_case(n, by_wake));
                }
            }
        }),
        replay: Box::new(|case: &Value| chain_case(case["n"].as_u64().unwrap() as usize, case["by_wake"].as_bool().unwrap())),
    });
    sections.push(Section {
        name: "poll_results",
        explore: Box::new(|cx: &Cx| {
            cx.rule("poll_results", "an implementor with a fixed answer behind trait_obj!(.. as Future / Stream / Sink): every method (poll, poll_next, poll_ready, start_send, poll_flush, poll_close) x answer {Pending, Ready(value / Some / Ok), Ready(None / Err(e))} x value / error code {0, 1, 7, 0xffff, u32::MAX}: the caller of the opaque object gets exactly what the implementor returned");
            for m in 0..RESULT_METHODS.len() {
                for ans in 0..3u8 {
                    for vi in 0..RESULT_VALS.len() {
                        cx.eval("poll_results", &serde_json::json!({"method": m, "method_name": RESULT_METHODS[m], "answer": ans, "value": vi}), || poll_result_case(m, ans, vi));
                    }
                }
            }
        }),
        replay: Box::new(|case: &Value| poll_result_case(case["method"].as_u64().unwrap() as usize, case["answer"].as_u64().unwrap() as u8, case["value"].as_u64().unwrap() as usize)),
    });
    sections.push(Section {
        name: "nested_retained",
        explore: Box::new(|cx: &Cx| {
            let dmax = cx.tier.pick(3, 4);
            cx.rule("nested_retained", &format!("the caller's waker of a bridged poll is itself a waker retained from an earlier bridged poll: 1..={} nested levels x every order of letting the retained handles go x the level woken by reference first; every level is an independent owner (after each release the remaining handles still wake the caller, the caller's waker is not released while the harness owns it) and the count is back to the harness' own reference at the end", dmax));
            for depth in 1..=dmax {
                for order in permutations(depth) {
                    for wl in 0..depth {
                        cx.eval("nested_retained", &serde_json::json!({"depth": depth, "order": order, "wake_level": wl}), || nested_retained_case(depth, &order, wl));
                    }
                }
            }
        }),
        replay: Box::new(|case: &Value| {
            let order: Vec<usize> = serde_json::from_value(case["order"].clone()).unwrap();
            nested_retained_case(case["depth"].as_u64().unwrap() as usize, &order, case["wake_level"].as_u64().unwrap() as usize)
        }),
    });
    sections.push(Section {
        name: "repoll_during_release",
        explore: Box::new(|cx: &Cx| {
            cx.rule("repoll_during_release", "a second thread polls the task again - and retains the waker it is given - exactly while the last handle of the first waker family is being released (the caller's release callback is used as the scheduling point: the first thread is parked inside it); first handle dropped / woken by value x second handle woken by value / by reference and dropped; the new handle is fully valid, counts and wakes as in the sequential case");
            for a in [false, true] {
                for b in [false, true] {
                    cx.eval("repoll_during_release", &serde_json::json!({"first_by_wake": a, "second_by_wake": b}), || repoll_during_release_case(a, b));
                }
            }
        }),
        replay: Box::new(|case: &Value| repoll_during_release_case(case["first_by_wake"].as_bool().unwrap(), case["second_by_wake"].as_bool().unwrap())),
    });
    explore::run_main(CheckDef {
        property: "C19",
        level: "model_checking",
        assumptions: vec![
            "operations from another thread are handed off at operation granularity (sequentially consistent); true races are the loom harness's job".into(),
            "histories longer than the depth bound / more live wakers than the bound are not covered".into(),
        ],
        sections,
        no_isolation: false,
    });
}
