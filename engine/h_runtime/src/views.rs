//! C-view mirror structs: what a foreign caller that only has the published declarations
//! (examples/pregen-headers/bindings.h, cglue-bindgen/src/types.rs) believes the layout to be.

use std::ffi::c_void;

#[repr(C)]
pub struct CBoxView {
    pub instance: *mut c_void,
    pub drop_fn: Option<unsafe extern "C" fn(*mut c_void)>,
}

#[repr(C)]
pub struct CSliceBoxView {
    pub data: *mut c_void,
    pub len: usize,
    pub drop_fn: Option<unsafe extern "C" fn(*mut CSliceView)>,
}

#[repr(C)]
#[derive(Clone, Copy)]
pub struct CSliceView {
    pub data: *mut c_void,
    pub len: usize,
}

#[repr(C)]
pub struct CArcView {
    pub instance: *const c_void,
    pub clone_fn: Option<unsafe extern "C" fn(*const c_void) -> *const c_void>,
    pub drop_fn: Option<unsafe extern "C" fn(*const c_void)>,
}

#[repr(C)]
pub struct CVecView<T> {
    pub data: *mut T,
    pub len: usize,
    pub capacity: usize,
    pub drop_fn: Option<unsafe extern "C" fn(*mut T, usize, usize)>,
    pub reserve_fn: Option<extern "C" fn(*mut CVecView<T>, usize) -> usize>,
}

#[repr(C)]
pub struct CallbackView<T> {
    pub context: *mut c_void,
    pub func: Option<extern "C" fn(*mut c_void, T) -> bool>,
}

#[repr(C)]
pub struct CIteratorView<T> {
    pub iter: *mut c_void,
    pub func: Option<extern "C" fn(*mut c_void, *mut T) -> i32>,
}

/// `COption<T>` as C sees a `#[repr(C)]` enum with payload: tag (int) then payload union.
#[repr(C)]
pub struct COptionView<T: Copy> {
    pub tag: u32,
    pub some: T,
}

#[repr(C)]
#[derive(Clone, Copy)]
pub union CResultPayload<T: Copy, E: Copy> {
    pub ok: T,
    pub err: E,
}

#[repr(C)]
pub struct CResultView<T: Copy, E: Copy> {
    pub tag: u32,
    pub payload: CResultPayload<T, E>,
}
