//! Shared helpers for the runtime-type harnesses (C10–C16).

pub mod views;

use instr::alloc::AllocReport;

#[global_allocator]
static GLOBAL: instr::TrackAlloc = instr::TrackAlloc;

/// Panics are expected in some cases (out-of-range insert/remove); keep stderr quiet.
pub fn quiet_panics() {
    std::panic::set_hook(Box::new(|_| {}));
}

/// Run `f`, catching a Rust-ABI panic. `Err(())` = panicked.
pub fn guarded<R>(f: impl FnOnce() -> R) -> Result<R, ()> {
    std::panic::catch_unwind(std::panic::AssertUnwindSafe(f)).map_err(|_| ())
}

/// Turn an allocation report into an optional violation.
pub fn alloc_violation(rep: &AllocReport) -> Option<(String, String)> {
    if rep.clean() {
        None
    } else {
        Some((format!("alloc:{}", rep.signature()), rep.describe()))
    }
}

#[macro_export]
macro_rules! bail {
    ($sig:expr, $($fmt:tt)*) => {
        return Err(($sig.to_string(), format!($($fmt)*)))
    };
}

pub type V = Result<(), (String, String)>;
