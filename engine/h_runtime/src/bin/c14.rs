//! C14 — ReprCString owns one well-formed NUL-terminated buffer.
//! Exhaustive input enumeration over an alphabet with NUL, ASCII and whole multi-byte sequences.

use cglue::repr_cstring::{ReprCStr, ReprCString};
use explore::driver::{CheckDef, Section};
use explore::{digest, CaseOut, Cx};
use h_runtime::{alloc_violation, guarded, quiet_panics};
use instr::alloc;
use serde_json::{json, Value};
use std::borrow::Borrow;
use std::collections::hash_map::DefaultHasher;
use std::ffi::CString;
use std::hash::{Hash, Hasher};

type R = Result<u64, (String, String)>;

macro_rules! ensure {
    ($c:expr, $sig:expr, $($fmt:tt)*) => {
        if !($c) {
            return Err(($sig.to_string(), format!($($fmt)*)));
        }
    };
}

const SYMBOLS: &[&str] = &["\0", "a", "b", "é", "€"];

fn h<T: Hash>(t: &T) -> u64 {
    let mut s = DefaultHasher::new();
    t.hash(&mut s);
    s.finish()
}

#[derive(Clone, Copy, Debug, PartialEq)]
enum Ctor {
    Str,
    String,
    Bytes,
    /// an owned String with spare capacity (1 / 7 / 64 bytes more than its length), allocated inside the tracking window:
    /// whatever the conversion does with the String's buffer, it must end up freed with the size it was allocated with
    StringSpare1,
    StringSpare7,
    StringSpare64,
}

fn raw_ptr(r: &ReprCString) -> *const u8 {
    // #[repr(transparent)] over NonNull<c_char>
    unsafe { *(r as *const ReprCString as *const *const u8) }
}

fn case(input: &str, ctor: Ctor) -> R {
    let expected: &str = input.split('\0').next().unwrap();
    let (live0, _) = alloc::live();
    let r: ReprCString = match ctor {
        Ctor::Str => ReprCString::from(input),
        Ctor::String => {
            // built inside the tracking window: the conversion may copy it or take its buffer over
            let s = input.to_string();
            ReprCString::from(s)
        }
        Ctor::Bytes => ReprCString::from(input.as_bytes()),
        Ctor::StringSpare1 | Ctor::StringSpare7 | Ctor::StringSpare64 => {
            let spare = match ctor {
                Ctor::StringSpare1 => 1,
                Ctor::StringSpare7 => 7,
                _ => 64,
            };
            let mut s = String::with_capacity(input.len() + spare);
            s.push_str(input);
            ReprCString::from(s)
        }
    };
    let p = raw_ptr(&r);
    // ---- the buffer itself (before any method of ReprCString is trusted)
    let (live1, _) = alloc::live();
    ensure!(live1 == live0 + 1, "cstring:blocks", "{:?}: construction left {} live allocation(s) instead of exactly one", ctor, live1 - live0);
    let bs = alloc::block_size(p);
    ensure!(bs.is_some(), "cstring:not_block_start", "{:?}: the pointer is not the start of a live allocation", ctor);
    let bs = bs.unwrap();
    // (a buffer larger than prefix + 1 is not forbidden by the property, as long as it is freed with its own size — the
    //  allocator checks that at drop; it must hold the prefix and then the terminator)
    ensure!(bs >= expected.len() + 1, "cstring:block_size", "{:?}: buffer is {} bytes, too small for the prefix ({} bytes) and its terminator", ctor, bs, expected.len());
    let buf = unsafe { std::slice::from_raw_parts(p, expected.len() + 1) };
    ensure!(&buf[..expected.len()] == expected.as_bytes(), "cstring:contents", "{:?}: buffer holds {:02x?}", ctor, buf);
    ensure!(buf[expected.len()] == 0 && buf.iter().filter(|b| **b == 0).count() == 1, "cstring:terminator", "{:?}: buffer {:02x?} does not hold the prefix followed by its one NUL", ctor, buf);
    // ---- read-back and value semantics
    ensure!(AsRef::<str>::as_ref(&r) == expected, "cstring:as_ref", "{:?}: reads back {:?}, expected {:?}", ctor, AsRef::<str>::as_ref(&r), expected);
    ensure!(&*r == expected, "cstring:deref", "Deref differs");
    ensure!(format!("{}", r) == expected, "cstring:display", "Display differs");
    ensure!(format!("{:?}", r).contains(&format!("{:?}", expected)), "cstring:debug", "Debug {:?} does not show {:?}", format!("{:?}", r), expected);
    let c = r.clone();
    ensure!(raw_ptr(&c) != p, "cstring:clone_alias", "clone shares the buffer");
    ensure!(c == r && AsRef::<str>::as_ref(&c) == expected && h(&c) == h(&r), "cstring:clone_eq", "clone differs / hashes differently");
    ensure!(h(&r) == h(&expected), "cstring:hash", "hash is not the hash of the content");
    let other = ReprCString::from("zz");
    ensure!((other == r) == (expected == "zz"), "cstring:eq", "equality is not by content");
    let b: &ReprCStr = r.borrow();
    ensure!(b.as_ref() == expected && h(b) == h(&r) && format!("{}", b) == expected, "cstring:borrow", "Borrow<ReprCStr> differs");
    drop(other);
    drop(c);
    // ---- ReprCStr from a C string
    let cs = CString::new(expected).unwrap();
    let rs = ReprCStr::from(cs.as_c_str());
    ensure!(rs.as_ref() == expected && format!("{}", rs) == expected && rs == *b && h(&rs) == h(&expected), "cstr:read_back", "ReprCStr reads {:?}", rs.as_ref());
    ensure!(format!("{:?}", rs).contains(&format!("{:?}", expected)), "cstr:debug", "ReprCStr Debug");
    drop(cs);
    drop(r);
    let (live2, _) = alloc::live();
    ensure!(live2 == live0, "cstring:leak", "{:?}: {} allocation(s) still live after drop", ctor, live2 - live0);
    Ok(digest(&(input, expected.len())))
}

fn run(input: &str, ctor: Ctor) -> CaseOut {
    alloc::begin();
    let r = guarded(|| case(input, ctor));
    let rep = alloc::end();
    match r {
        Err(()) => CaseOut::bad("panic", "panicked"),
        Ok(Err(v)) => CaseOut { obs: 0, nontrivial: true, violation: Some((format!("{}:{:?}", v.0, ctor), v.1)) },
        Ok(Ok(obs)) => CaseOut { obs: obs ^ (ctor as u64), nontrivial: !input.is_empty(), violation: alloc_violation(&rep).map(|v| (format!("{}:{:?}", v.0, ctor), v.1)) },
    }
}


/// `a.clone_from(&b)`: afterwards a is a well-formed copy of b in its own buffer, whatever the two lengths are; both
/// buffers are freed with the sizes they were allocated with (the allocator checks that when they are dropped)
fn clone_from_case(a: &str, b: &str) -> R {
    let want: &str = b.split('\0').next().unwrap();
    let (live0, _) = alloc::live();
    let mut x = ReprCString::from(a);
    let y = ReprCString::from(b);
    {
        // "compares, hashes ... by content": for two different texts too (same first byte, one a prefix of the other, ...)
        let wa: &str = a.split('\0').next().unwrap();
        let same = wa == want;
        ensure!((x == y) == same, "cstring:eq_pair", "ReprCString::from({:?}) == ReprCString::from({:?}) is {}, the texts are {}", a, b, x == y, if same { "equal" } else { "different" });
        let (bx, by): (&ReprCStr, &ReprCStr) = (x.borrow(), y.borrow());
        ensure!((bx == by) == same, "cstr:eq_pair", "the borrowed views of {:?} and {:?} compare {}, the texts are {}", a, b, if bx == by { "equal" } else { "different" }, if same { "equal" } else { "different" });
        let (ca, cb) = (std::ffi::CString::new(wa).unwrap(), std::ffi::CString::new(want).unwrap());
        let (ra, rb) = (ReprCStr::from(ca.as_c_str()), ReprCStr::from(cb.as_c_str()));
        ensure!((ra == rb) == same && (ra == *by) == same, "cstr:eq_pair", "ReprCStr of {:?} and of {:?} compare {}, the texts are {}", wa, want, if ra == rb { "equal" } else { "different" }, if same { "equal" } else { "different" });
        ensure!(!same || (h(&ra) == h(&rb) && h(bx) == h(by) && h(&x) == h(&y)), "cstr:hash_pair", "equal texts {:?} hash differently", wa);
        ensure!(h(&ra) == h(&wa) && h(bx) == h(&wa), "cstr:hash_pair", "ReprCStr of {:?} does not hash like the text", wa);
    }
    x.clone_from(&y);
    let (px, py) = (raw_ptr(&x), raw_ptr(&y));
    ensure!(px != py, "cstring:clone_from_alias", "clone_from made the two strings share a buffer");
    ensure!(AsRef::<str>::as_ref(&x) == want && x == y && h(&x) == h(&y), "cstring:clone_from_value", "after a.clone_from(b) with a={:?} b={:?}, a reads {:?}", a, b, AsRef::<str>::as_ref(&x));
    let bs = alloc::block_size(px);
    ensure!(bs.is_some() && bs.unwrap() >= want.len() + 1, "cstring:clone_from_buffer", "after clone_from the buffer is not a live block large enough for the text and its terminator ({:?})", bs);
    let buf = unsafe { std::slice::from_raw_parts(px, want.len() + 1) };
    ensure!(&buf[..want.len()] == want.as_bytes() && buf[want.len()] == 0, "cstring:clone_from_buffer", "buffer after clone_from holds {:02x?}", buf);
    drop(x);
    drop(y);
    let (live2, _) = alloc::live();
    ensure!(live2 == live0, "cstring:leak", "clone_from: {} allocation(s) still live after both strings were dropped", live2 - live0);
    Ok(digest(&(a, b)))
}

fn run_clone_from(a: &str, b: &str) -> CaseOut {
    alloc::begin();
    let r = guarded(|| clone_from_case(a, b));
    let rep = alloc::end();
    match r {
        Err(()) => CaseOut::bad("panic", "panicked"),
        Ok(Err(v)) => CaseOut { obs: 0, nontrivial: true, violation: Some(v) },
        Ok(Ok(obs)) => CaseOut { obs, nontrivial: true, violation: alloc_violation(&rep).map(|v| (format!("{}:clone_from", v.0), v.1)) },
    }
}

// ---- inputs that end exactly at an unreadable page: "no conversion reads outside the input"
extern "C" {
    fn mmap(addr: *mut std::ffi::c_void, len: usize, prot: i32, flags: i32, fd: i32, off: i64) -> *mut std::ffi::c_void;
    fn mprotect(addr: *mut std::ffi::c_void, len: usize, prot: i32) -> i32;
    fn munmap(addr: *mut std::ffi::c_void, len: usize) -> i32;
}
const PAGE: usize = 4096;

/// Runs `f` on a copy of `bytes` whose last byte is the last readable byte before a PROT_NONE page (and, second run, whose
/// first byte is the first readable byte after one). A read outside the input faults; the driver attributes the death of
/// the process to this case.
fn with_guarded_input<T>(bytes: &[u8], mut f: impl FnMut(&[u8]) -> T) -> Vec<T> {
    let mut out = Vec::new();
    unsafe {
        // linux x86-64 / aarch64: PROT_READ|PROT_WRITE = 3, MAP_PRIVATE|MAP_ANONYMOUS = 0x22
        let base = mmap(std::ptr::null_mut(), 3 * PAGE, 3, 0x22, -1, 0) as *mut u8;
        assert!(!base.is_null() && base as isize != -1, "mmap failed");
        assert_eq!(mprotect(base as *mut _, PAGE, 0), 0);
        assert_eq!(mprotect(base.add(2 * PAGE) as *mut _, PAGE, 0), 0);
        let mid = base.add(PAGE);
        // (a) input ends at the upper guard
        let at = mid.add(PAGE - bytes.len());
        std::ptr::copy_nonoverlapping(bytes.as_ptr(), at, bytes.len());
        out.push(f(std::slice::from_raw_parts(at, bytes.len())));
        // (b) input starts right after the lower guard
        std::ptr::write_bytes(mid, 0x41, PAGE);
        std::ptr::copy_nonoverlapping(bytes.as_ptr(), mid, bytes.len());
        out.push(f(std::slice::from_raw_parts(mid, bytes.len())));
        munmap(base as *mut _, 3 * PAGE);
    }
    out
}

fn bounds_case(s: &str) -> CaseOut {
    let want: &str = s.split('\0').next().unwrap();
    let r = guarded(|| {
        let mut bad: Option<(String, String)> = None;
        for got in with_guarded_input(s.as_bytes(), |b| AsRef::<str>::as_ref(&ReprCString::from(b)).to_string()) {
            if got != want && bad.is_none() {
                bad = Some(("cstring:bounds_value".into(), format!("From<&[u8]> of {:?} placed next to an unreadable page reads back {:?}", s, got)));
            }
        }
        for got in with_guarded_input(s.as_bytes(), |b| AsRef::<str>::as_ref(&ReprCString::from(std::str::from_utf8(b).unwrap())).to_string()) {
            if got != want && bad.is_none() {
                bad = Some(("cstring:bounds_value".into(), format!("From<&str> of {:?} placed next to an unreadable page reads back {:?}", s, got)));
            }
        }
        bad
    });
    match r {
        Err(()) => CaseOut::bad("panic", "panicked"),
        Ok(Some(v)) => CaseOut { obs: 0, nontrivial: true, violation: Some(v) },
        Ok(None) => CaseOut { obs: digest(&s), nontrivial: !s.is_empty(), violation: None },
    }
}

/// (tag, input) pairs for the long_strings section
fn long_inputs() -> Vec<(String, String)> {
    let mut out = Vec::new();
    for n in [254usize, 255, 256, 257, 258, 65533, 65534, 65535, 65536, 65537, 65538, 70000, 131071, 131072, 131073] {
        out.push((format!("ascii:{}", n), "a".repeat(n)));
        // a multi-byte character whose bytes straddle position n - 1 / n
        for (cn, ch) in [("e2", "\u{e9}"), ("e3", "\u{20ac}")] {
            let mut s = "a".repeat(n - 1);
            s.push_str(ch);
            s.push_str("tail");
            out.push((format!("{}:{}", cn, n), s));
        }
        let mut s = "b".repeat(n + 3);
        s.push('\0');
        s.push_str("after");
        out.push((format!("nul_after:{}", n), s));
        let mut s = "c".repeat(n);
        s.push('\0');
        out.push((format!("nul_terminated:{}", n), s));
    }
    out
}

fn all_strings(l: usize) -> Vec<String> {
    let k = SYMBOLS.len();
    let mut out = Vec::new();
    for len in 0..=l {
        for mut idx in 0..k.pow(len as u32) {
            let mut s = String::new();
            for _ in 0..len {
                s.push_str(SYMBOLS[idx % k]);
                idx /= k;
            }
            out.push(s);
        }
    }
    out
}

fn ctor_of(s: &str) -> Ctor {
    match s {
        "Str" => Ctor::Str,
        "String" => Ctor::String,
        "StringSpare1" => Ctor::StringSpare1,
        "StringSpare7" => Ctor::StringSpare7,
        "StringSpare64" => Ctor::StringSpare64,
        _ => Ctor::Bytes,
    }
}

fn main() {
    quiet_panics();
    let mk = |name: &'static str, ctor: Ctor| Section {
        name,
        explore: Box::new(move |cx: &Cx| {
            let l = cx.tier.pick(4, 6);
            cx.rule(name, &format!("every string of <= {} symbols over {{NUL, a, b, é (2 bytes), € (3 bytes)}} — empty, NUL-free, NUL-terminated, interior NUL, no terminator — built with {:?}; oracle: one allocation holding the prefix and then its one NUL, read-back/Deref/Display/Debug/Clone/Eq/Hash/Borrow by content, ReprCStr from a CStr reads the same text, freed once with the allocated size, nothing leaked; non-trivial = non-empty input", l, ctor));
            let k = SYMBOLS.len();
            for len in 0..=l {
                for mut idx in 0..k.pow(len as u32) {
                    let mut s = String::new();
                    for _ in 0..len {
                        s.push_str(SYMBOLS[idx % k]);
                        idx /= k;
                    }
                    let cj = json!({"input": s, "ctor": format!("{:?}", ctor)});
                    cx.eval(name, &cj, || run(&s, ctor));
                }
            }
        }),
        replay: Box::new(|c: &Value| run(c["input"].as_str().unwrap(), ctor_of(c["ctor"].as_str().unwrap()))),
    };
    let clone_from = Section {
        name: "clone_from",
        explore: Box::new(|cx: &Cx| {
            let l = cx.tier.pick(2, 3);
            cx.rule("clone_from", &format!("for every ordered pair (a, b): ReprCString / borrowed ReprCStr / ReprCStr from a CStr compare equal exactly when the texts are equal and equal texts hash equally; then a.clone_from(&b) for every ordered pair of strings of <= {} symbols over the same alphabet (shorter, equal and longer sources): a reads as b, owns a well-formed buffer of its own, both buffers are freed with their allocated sizes, nothing leaks", l));
            let all = all_strings(l);
            for a in &all {
                for b in &all {
                    cx.eval("clone_from", &json!({"a": a, "b": b}), || run_clone_from(a, b));
                }
            }
        }),
        replay: Box::new(|c: &Value| run_clone_from(c["a"].as_str().unwrap(), c["b"].as_str().unwrap())),
    };
    let bounds = Section {
        name: "input_bounds",
        explore: Box::new(|cx: &Cx| {
            let l = cx.tier.pick(4, 5);
            cx.rule("input_bounds", &format!("every string of <= {} symbols over the same alphabet, as &[u8] and as &str, placed so that its last byte is the last readable byte before an unreadable page and so that its first byte follows one: the conversion must not read outside the input (a read beyond it kills the process, which the driver attributes to the case) and reads back the prefix", l));
            for s in all_strings(l) {
                cx.eval("input_bounds", &json!({"input": s}), || bounds_case(&s));
            }
        }),
        replay: Box::new(|c: &Value| bounds_case(c["input"].as_str().unwrap())),
    };
    let long = Section {
        name: "long_strings",
        explore: Box::new(|cx: &Cx| {
            cx.rule("long_strings", "strings far beyond the enumeration bound, around every 16-bit and 8-bit length boundary (254..=258, 65533..=65538, 70000, 131071..=131073 bytes): all-ASCII, with a 2-byte / 3-byte character straddling the boundary, with an interior NUL after the boundary and NUL-terminated; every constructor; same oracle as the short strings");
            for (tag, s) in long_inputs() {
                for ctor in [Ctor::Str, Ctor::String, Ctor::Bytes, Ctor::StringSpare7] {
                    let cj = json!({"long": tag, "ctor": format!("{:?}", ctor)});
                    cx.eval("long_strings", &cj, || run(&s, ctor));
                }
            }
        }),
        replay: Box::new(|c: &Value| {
            let tag = c["long"].as_str().unwrap().to_string();
            let s = long_inputs().into_iter().find(|x| x.0 == tag).expect("long input").1;
            run(&s, ctor_of(c["ctor"].as_str().unwrap()))
        }),
    };
    explore::run_main(CheckDef {
        property: "C14",
        level: "exploration",
        assumptions: vec!["inputs longer than the bound are not covered".into(), "the tracking allocator's red zone (0xA5.., NUL-terminated) makes an over-read terminate deterministically".into()],
        sections: vec![mk("from_str", Ctor::Str), mk("from_string", Ctor::String), mk("from_bytes", Ctor::Bytes),
            mk("from_string_spare1", Ctor::StringSpare1), mk("from_string_spare7", Ctor::StringSpare7), mk("from_string_spare64", Ctor::StringSpare64), clone_from, bounds, long],
        no_isolation: false,
    });
}
