//! C16 — runtime types keep the C layout published in the headers.
//! Every value is produced by the real Rust API and then driven *only* through the mirror structs of
//! `h_runtime::views` (what a C caller knows), and conversely assembled field by field and consumed by
//! the Rust API.

use cglue::arc::{CArc, CArcSome};
use cglue::boxed::{CBox, CSliceBox};
use cglue::callback::OpaqueCallback;
use cglue::iter::CIterator;
use cglue::option::COption;
use cglue::result::CResult;
use cglue::slice::{CSliceMut, CSliceRef};
use cglue::trait_group::Opaquable;
use cglue::vec::CVec;
use explore::driver::{CheckDef, Section};
use explore::{digest, CaseOut, Cx};
use h_runtime::views::*;
use h_runtime::{alloc_violation, guarded, quiet_panics};
use instr::{alloc, DropScope};
use serde_json::{json, Value};
use std::cell::Cell;
use std::ffi::c_void;
use std::mem::{align_of, size_of};
use std::sync::Arc;

type R = Result<u64, (String, String)>;

macro_rules! ensure {
    ($c:expr, $sig:expr, $($fmt:tt)*) => {
        if !($c) {
            return Err(($sig.to_string(), format!($($fmt)*)));
        }
    };
}

/// Element types of different size / alignment; all carry a drop-counter id.
trait El: 'static + Sized {
    const NAME: &'static str;
    fn make(v: u64) -> Self;
    fn val(&self) -> u64;
}

macro_rules! el {
    ($name:ident, $lit:expr, { $($field:ident : $ty:ty = $init:expr),* }, $align:literal) => {
        #[repr(C, align($align))]
        struct $name {
            dc: instr::Dc,
            $($field: $ty,)*
        }
        impl El for $name {
            const NAME: &'static str = $lit;
            fn make(v: u64) -> Self {
                #[allow(unused_variables)]
                let x = v;
                $name { dc: instr::Dc::new(v), $($field: $init(x),)* }
            }
            fn val(&self) -> u64 {
                self.dc.val
            }
        }
    };
}

el!(E16, "16B_align8", {}, 8);
el!(E24, "24B_align8", { tail: u8 = (|x: u64| x as u8) }, 8);
el!(E32, "32B_align16", { tail: u16 = (|x: u64| x as u16) }, 16);
el!(E64, "64B_align32", { tail: [u8; 3] = (|x: u64| [x as u8; 3]) }, 32);

thread_local! {
    static MY_DROP_CALLS: Cell<u64> = const { Cell::new(0) };
    static MY_CLONE_CALLS: Cell<u64> = const { Cell::new(0) };
    static MY_LAST_ARG: Cell<usize> = const { Cell::new(0) };
}

fn bump(c: &'static std::thread::LocalKey<Cell<u64>>) {
    c.with(|x| x.set(x.get() + 1));
}
fn get(c: &'static std::thread::LocalKey<Cell<u64>>) -> u64 {
    c.with(|x| x.get())
}

// ---------------------------------------------------------------------------------- CBox
fn cbox<T: El>() -> R {
    let d = DropScope::new();
    ensure!(size_of::<CBox<T>>() == size_of::<CBoxView>() && align_of::<CBox<T>>() == align_of::<CBoxView>(), "layout:cbox_size", "CBox size/align");
    // Rust -> C: release through the published fields
    let b = CBox::from(T::make(5));
    let payload_addr = &*b as *const T as usize;
    let v: CBoxView = unsafe { std::mem::transmute_copy(&b) };
    std::mem::forget(b);
    ensure!(v.instance as usize == payload_addr, "layout:cbox_instance", "first word is not the instance pointer");
    ensure!(unsafe { (*(v.instance as *const T)).val() } == 5, "layout:cbox_value", "instance does not point at the payload");
    let f = v.drop_fn.ok_or(("layout:cbox_dropfn".to_string(), "second word is not a function pointer".to_string()))?;
    ensure!(d.count(0) == 0, "layout:cbox_early", "dropped early");
    unsafe { f(v.instance) };
    ensure!(d.count(0) == 1, "layout:cbox_release", "calling drop_fn(instance) dropped the payload {} time(s)", d.count(0));
    // opaque form has the same bits
    let b = CBox::from(7u64);
    let bits: [usize; 2] = unsafe { std::mem::transmute_copy(&b) };
    let o = b.into_opaque();
    let obits: [usize; 2] = unsafe { std::mem::transmute_copy(&o) };
    ensure!(bits == obits, "layout:cbox_opaque_bits", "into_opaque changed the bit pattern");
    drop(o);
    // C -> Rust: assembled field by field
    unsafe extern "C" fn my_drop<T>(p: *mut c_void) {
        bump(&MY_DROP_CALLS);
        MY_LAST_ARG.with(|c| c.set(p as usize));
        drop(Box::from_raw(p as *mut T));
    }
    let raw = Box::into_raw(Box::new(T::make(9)));
    let view = CBoxView { instance: raw as *mut c_void, drop_fn: Some(my_drop::<T>) };
    let before = get(&MY_DROP_CALLS);
    let b: CBox<T> = unsafe { std::mem::transmute_copy(&view) };
    ensure!(b.val() == 9, "layout:cbox_from_c", "Rust reads a different payload from a C-assembled box");
    drop(b);
    ensure!(get(&MY_DROP_CALLS) == before + 1 && MY_LAST_ARG.with(|c| c.get()) == raw as usize, "layout:cbox_from_c_drop", "dropping a C-assembled box must call its drop_fn once with the instance");
    // a box whose drop_fn is NULL is not released by Rust
    let raw = Box::into_raw(Box::new(T::make(11)));
    let view = CBoxView { instance: raw as *mut c_void, drop_fn: None };
    let b: CBox<T> = unsafe { std::mem::transmute_copy(&view) };
    drop(b);
    ensure!(d.count(2) == 0, "layout:cbox_null_dropfn", "payload dropped although drop_fn was NULL");
    drop(unsafe { Box::from_raw(raw) });
    finish(&d, "cbox")
}

fn finish(d: &DropScope, what: &str) -> R {
    let bad = d.not_equal(1);
    ensure!(bad.is_empty(), format!("layout:{}_drops", what), "payload ids {:?} not dropped exactly once: {:?}", bad, d.counts());
    Ok(digest(&(what, d.ids())))
}

// ---------------------------------------------------------------------------------- CSliceBox
fn cslicebox<T: El>() -> R {
    let d = DropScope::new();
    ensure!(size_of::<CSliceBox<T>>() == size_of::<CSliceBoxView>(), "layout:slicebox_size", "CSliceBox size");
    for n in [0usize, 1, 3] {
        let base = d.ids();
        let b: Box<[T]> = (0..n as u64).map(T::make).collect::<Vec<_>>().into_boxed_slice();
        let (p, l) = (b.as_ptr() as usize, b.len());
        let sb = CSliceBox::from(b);
        let mut v: CSliceBoxView = unsafe { std::mem::transmute_copy(&sb) };
        std::mem::forget(sb);
        ensure!(v.data as usize == p && v.len == l, "layout:slicebox_fields", "data/len are not the first two words (n={})", n);
        for i in 0..n {
            ensure!(unsafe { (*(v.data as *const T).add(i)).val() } == i as u64, "layout:slicebox_read", "element {} differs", i);
        }
        let f = v.drop_fn.ok_or(("layout:slicebox_dropfn".to_string(), "third word is not a function pointer".to_string()))?;
        // the published signature hands the release function a {data, len} descriptor, nothing more: a foreign holder may
        // have copied the descriptor out of the box. It is placed between sentinel words here.
        const SENT: usize = 0x5a5a_a5a5_1234_4321;
        let mut frame: [usize; 6] = [SENT, v.data as usize, v.len, SENT, SENT, SENT];
        unsafe { f(frame.as_mut_ptr().add(1) as *mut CSliceView) };
        ensure!(frame[0] == SENT && frame[3] == SENT && frame[4] == SENT && frame[5] == SENT, "layout:slicebox_release_overrun", "drop_fn(&descriptor) wrote outside the {{data, len}} descriptor it was given (neighbouring words {:#x?})", [frame[0], frame[3], frame[4], frame[5]]);
        v.drop_fn = None;
        for i in 0..n {
            ensure!(d.count(base + i) == 1, "layout:slicebox_release", "element {} dropped {} time(s) by drop_fn(&instance)", i, d.count(base + i));
        }
    }
    finish(&d, "cslicebox")
}

// ---------------------------------------------------------------------------------- CArc
fn carc<T: El>() -> R {
    let d = DropScope::new();
    ensure!(size_of::<CArc<T>>() == size_of::<CArcView>() && size_of::<CArcSome<T>>() == size_of::<CArcView>(), "layout:carc_size", "CArc size");
    let retained = Arc::new(T::make(3));
    let h: CArc<T> = CArc::from(retained.clone());
    let v: CArcView = unsafe { std::mem::transmute_copy(&h) };
    std::mem::forget(h);
    ensure!(v.instance as usize == Arc::as_ptr(&retained) as usize, "layout:carc_instance", "first word is not the instance");
    let (cf, df) = match (v.clone_fn, v.drop_fn) {
        (Some(c), Some(dd)) => (c, dd),
        _ => return Err(("layout:carc_fns".into(), "clone_fn/drop_fn are not the second/third word".into())),
    };
    let p2 = unsafe { cf(v.instance) };
    ensure!(p2 == v.instance && Arc::strong_count(&retained) == 3, "layout:carc_clone", "clone_fn(instance): count {} pointer equal {}", Arc::strong_count(&retained), p2 == v.instance);
    unsafe { df(p2) };
    ensure!(Arc::strong_count(&retained) == 2 && d.count(0) == 0, "layout:carc_drop", "drop_fn(instance): count {}", Arc::strong_count(&retained));
    unsafe { df(v.instance) };
    ensure!(Arc::strong_count(&retained) == 1 && d.count(0) == 0, "layout:carc_drop", "second drop_fn: count {}", Arc::strong_count(&retained));
    // an empty CArc is all-null instance
    let e = CArc::<T>::default();
    let ev: CArcView = unsafe { std::mem::transmute_copy(&e) };
    ensure!(ev.instance.is_null(), "layout:carc_empty", "empty CArc has a non-null instance");
    drop(e);
    // an arc emptied by take(), released by a foreign holder the way the published header does it
    // (`if (drop_fn) drop_fn(instance);`) and cloned the way it does it when a clone function is present
    {
        let mut h: CArc<T> = CArc::from(retained.clone());
        let taken = h.take();
        let hv: CArcView = unsafe { std::mem::transmute_copy(&h) };
        std::mem::forget(h);
        ensure!(hv.instance.is_null(), "layout:carc_taken", "an arc emptied by take() keeps its instance pointer");
        let before = Arc::strong_count(&retained);
        if let Some(dfn) = hv.drop_fn {
            unsafe { dfn(hv.instance) };
        }
        ensure!(Arc::strong_count(&retained) == before && d.count(0) == 0, "layout:carc_taken_release", "releasing an emptied arc through its published fields changed the count of the value it used to hold ({} -> {})", before, Arc::strong_count(&retained));
        drop(taken);
        ensure!(Arc::strong_count(&retained) == before - 1, "layout:carc_taken_release", "the taken-out handle does not own the reference");
    }
    // opaque form: same bits
    let h: CArcSome<T> = CArcSome::from(retained.clone());
    let bits: [usize; 3] = unsafe { std::mem::transmute_copy(&h) };
    let o = h.into_opaque();
    let obits: [usize; 3] = unsafe { std::mem::transmute_copy(&o) };
    ensure!(bits == obits, "layout:carc_opaque_bits", "into_opaque changed the bit pattern");
    drop(o);
    // C -> Rust
    unsafe extern "C" fn my_clone(p: *const c_void) -> *const c_void {
        bump(&MY_CLONE_CALLS);
        p
    }
    unsafe extern "C" fn my_drop(p: *const c_void) {
        bump(&MY_DROP_CALLS);
        MY_LAST_ARG.with(|c| c.set(p as usize));
    }
    let (c0, d0) = (get(&MY_CLONE_CALLS), get(&MY_DROP_CALLS));
    let view = CArcView { instance: Arc::as_ptr(&retained) as *const c_void, clone_fn: Some(my_clone), drop_fn: Some(my_drop) };
    let h: CArc<T> = unsafe { std::mem::transmute_copy(&view) };
    ensure!(h.as_ref().map(|r| r.val()) == Some(3), "layout:carc_from_c", "Rust reads a different value from a C-assembled arc");
    let h2 = h.clone();
    ensure!(get(&MY_CLONE_CALLS) == c0 + 1, "layout:carc_from_c_clone", "Clone must call the stored clone_fn once");
    drop(h2);
    drop(h);
    ensure!(get(&MY_DROP_CALLS) == d0 + 2, "layout:carc_from_c_drop", "Drop must call the stored drop_fn once per handle");
    // C -> Rust, an arc without a drop function (a value in static storage: `drop_fn == NULL`): it is not empty - it reads, clones
    // through its clone function and copies all three fields; releasing any handle calls nothing
    {
        let (c0, d0) = (get(&MY_CLONE_CALLS), get(&MY_DROP_CALLS));
        let view = CArcView { instance: Arc::as_ptr(&retained) as *const c_void, clone_fn: Some(my_clone), drop_fn: None };
        let h: CArc<T> = unsafe { std::mem::transmute_copy(&view) };
        ensure!(h.as_ref().map(|r| r.val()) == Some(3), "layout:carc_nodrop_read", "Rust reads a different value from a C-assembled arc without a drop function");
        let h2 = h.clone();
        let v2: CArcView = unsafe { std::mem::transmute_copy(&h2) };
        ensure!(get(&MY_CLONE_CALLS) == c0 + 1, "layout:carc_nodrop_clone", "cloning a non-empty arc without a drop function called its clone function {} time(s)", get(&MY_CLONE_CALLS) - c0);
        ensure!(v2.instance == view.instance && h2.as_ref().map(|r| r.val()) == Some(3), "layout:carc_nodrop_clone", "the clone of a non-empty arc without a drop function does not refer to the shared value (instance {:#x}, expected {:#x})", v2.instance as usize, view.instance as usize);
        ensure!(v2.clone_fn.map(|f| f as usize) == view.clone_fn.map(|f| f as usize) && v2.drop_fn.is_none(), "layout:carc_nodrop_clone", "the clone does not carry the same function pointers");
        let o = h2.into_opaque();
        let o2 = o.clone();
        let ov: CArcView = unsafe { std::mem::transmute_copy(&o2) };
        ensure!(get(&MY_CLONE_CALLS) == c0 + 2 && ov.instance == view.instance, "layout:carc_nodrop_clone", "the opaque clone of an arc without a drop function is not a handle of the shared value");
        drop(o2);
        drop(o);
        drop(h);
        ensure!(get(&MY_DROP_CALLS) == d0, "layout:carc_nodrop_release", "releasing handles without a drop function made {} release call(s)", get(&MY_DROP_CALLS) - d0);
    }
    // C -> Rust, a clone function that refuses (returns NULL): however Rust reports that, no reference that was never acquired
    // is released, and the original handle stays usable and is released once
    {
        unsafe extern "C" fn refusing_clone(_p: *const c_void) -> *const c_void {
            bump(&MY_CLONE_CALLS);
            std::ptr::null()
        }
        let (c0, d0) = (get(&MY_CLONE_CALLS), get(&MY_DROP_CALLS));
        let view = CArcView { instance: Arc::as_ptr(&retained) as *const c_void, clone_fn: Some(refusing_clone), drop_fn: Some(my_drop) };
        let hs: CArcSome<T> = unsafe { std::mem::transmute_copy(&view) };
        let r = guarded(|| hs.clone());
        let made = match r {
            Ok(c) => {
                std::mem::forget(c);
                true
            }
            Err(()) => false,
        };
        ensure!(get(&MY_CLONE_CALLS) == c0 + 1, "layout:carc_refused_clone", "clone called the clone function {} time(s)", get(&MY_CLONE_CALLS) - c0);
        ensure!(get(&MY_DROP_CALLS) == d0, "layout:carc_refused_clone", "a clone the foreign clone function refused (NULL){} made {} release call(s) although no reference was acquired", if made { "" } else { ", reported by a panic," }, get(&MY_DROP_CALLS) - d0);
        ensure!(AsRef::<T>::as_ref(&hs).val() == 3, "layout:carc_refused_clone", "the original handle does not read the value any more");
        let h: CArc<T> = unsafe { std::mem::transmute_copy(&view) };
        let r2 = guarded(|| h.clone());
        if let Ok(c) = r2 {
            std::mem::forget(c);
        }
        ensure!(get(&MY_DROP_CALLS) == d0, "layout:carc_refused_clone", "a refused clone of a CArc made {} release call(s)", get(&MY_DROP_CALLS) - d0);
        std::mem::forget(h);
        drop(hs);
        ensure!(get(&MY_DROP_CALLS) == d0 + 1, "layout:carc_refused_clone", "the original handle was released {} time(s) after a refused clone", get(&MY_DROP_CALLS) - d0);
    }
    drop(retained);
    // C -> Rust, a foreign arc that hands out ONE INSTANCE POINTER PER HANDLE (a handle table / per-owner cells): the clone
    // holds the pointer its clone function returned, and every pointer handed out is released exactly once
    thread_local! {
        static CELLS: std::cell::RefCell<Vec<(usize, u32)>> = const { std::cell::RefCell::new(Vec::new()) };
    }
    unsafe extern "C" fn cell_clone<T: El>(p: *const c_void) -> *const c_void {
        let v = (*(p as *const T)).val();
        let b = Box::into_raw(Box::new(T::make(v)));
        CELLS.with(|c| c.borrow_mut().push((b as usize, 0)));
        b as *const c_void
    }
    unsafe extern "C" fn cell_drop(p: *const c_void) {
        CELLS.with(|c| {
            for e in c.borrow_mut().iter_mut() {
                if e.0 == p as usize {
                    e.1 += 1;
                }
            }
        });
    }
    CELLS.with(|c| *c.borrow_mut() = Vec::new());
    let first = Box::into_raw(Box::new(T::make(4)));
    CELLS.with(|c| c.borrow_mut().push((first as usize, 0)));
    let view = CArcView { instance: first as *const c_void, clone_fn: Some(cell_clone::<T>), drop_fn: Some(cell_drop) };
    let h: CArc<T> = unsafe { std::mem::transmute_copy(&view) };
    let h2 = h.clone();
    let h3 = h2.clone();
    let (v2, v3): (CArcView, CArcView) = unsafe { (std::mem::transmute_copy(&h2), std::mem::transmute_copy(&h3)) };
    let cells: Vec<(usize, u32)> = CELLS.with(|c| c.borrow().clone());
    ensure!(cells.len() == 3, "layout:carc_from_c_clone", "two clones of a C-assembled arc called its clone function {} time(s)", cells.len() - 1);
    ensure!(v2.instance as usize == cells[1].0 && v3.instance as usize == cells[2].0, "layout:carc_clone_instance", "a cloned arc does not hold the instance pointer its clone function returned (clone holds {:#x} / {:#x}, clone_fn returned {:#x} / {:#x})", v2.instance as usize, v3.instance as usize, cells[1].0, cells[2].0);
    ensure!(h2.as_ref().map(|r| r.val()) == Some(4) && h3.as_ref().map(|r| r.val()) == Some(4), "layout:carc_from_c", "Rust reads a different value through a cloned C-assembled arc");
    drop(h);
    drop(h3);
    drop(h2);
    let cells: Vec<(usize, u32)> = CELLS.with(|c| c.borrow().clone());
    ensure!(cells.iter().all(|e| e.1 == 1), "layout:carc_release_per_instance", "every instance pointer handed out by the foreign arc must be released exactly once: release counts {:?}", cells.iter().map(|e| e.1).collect::<Vec<_>>());
    for (p, _) in cells {
        drop(unsafe { Box::from_raw(p as *mut T) });
    }
    CELLS.with(|c| *c.borrow_mut() = Vec::new());
    finish(&d, "carc")
}

// ---------------------------------------------------------------------------------- slices
fn cslices<T: El>() -> R {
    let d = DropScope::new();
    ensure!(size_of::<CSliceRef<T>>() == size_of::<CSliceView>() && size_of::<CSliceMut<T>>() == size_of::<CSliceView>(), "layout:slice_size", "slice size");
    let mut buf: Vec<T> = (0..4u64).map(T::make).collect();
    for (off, n) in [(0usize, 0usize), (0, 4), (1, 2), (4, 0)] {
        let s = &buf[off..off + n];
        let c = CSliceRef::from(s);
        let v: CSliceView = unsafe { std::mem::transmute_copy(&c) };
        ensure!(v.data as usize == s.as_ptr() as usize && v.len == n, "layout:sliceref_fields", "{{data,len}} differ at {}+{}", off, n);
        // C -> Rust
        let view = CSliceView { data: s.as_ptr() as *mut c_void, len: n };
        let c2: CSliceRef<T> = unsafe { std::mem::transmute_copy(&view) };
        ensure!(c2.as_slice().len() == n && c2.as_slice().iter().map(|e| e.val()).eq(s.iter().map(|e| e.val())), "layout:sliceref_from_c", "Rust reads different elements");
    }
    {
        let s = &mut buf[1..3];
        let p = s.as_ptr() as usize;
        let m = CSliceMut::from(s);
        let v: CSliceView = unsafe { std::mem::transmute_copy(&m) };
        ensure!(v.data as usize == p && v.len == 2, "layout:slicemut_fields", "{{data,len}} differ");
    }
    drop(buf);
    finish(&d, "cslices")
}

// ---------------------------------------------------------------------------------- CVec
fn cvec<T: El>() -> R {
    let d = DropScope::new();
    ensure!(size_of::<CVec<T>>() == size_of::<CVecView<T>>() && align_of::<CVec<T>>() == align_of::<CVecView<T>>(), "layout:cvec_size", "CVec size");
    // Rust -> C: grow, append and free through the published fields only
    let mut cv = CVec::from(vec![T::make(0), T::make(1)]);
    cv.push(T::make(2));
    let (p, l, c) = (cv.as_ptr() as usize, cv.len(), cv.capacity());
    let mut v: CVecView<T> = unsafe { std::mem::transmute_copy(&cv) };
    std::mem::forget(cv);
    ensure!(v.data as usize == p && v.len == l && v.capacity == c, "layout:cvec_fields", "{{data,len,capacity}} differ");
    let (df, rf) = match (v.drop_fn, v.reserve_fn) {
        (Some(a), Some(b)) => (a, b),
        _ => return Err(("layout:cvec_fns".into(), "drop_fn/reserve_fn are not the 4th/5th word".into())),
    };
    let want = v.capacity - v.len + 5;
    let newcap = rf(&mut v, want);
    ensure!(v.capacity >= v.len + want && newcap == v.capacity, "layout:cvec_reserve", "reserve_fn(&vec, {}): capacity {} returned {}", want, v.capacity, newcap);
    for i in 0..3 {
        ensure!(unsafe { (*v.data.add(i)).val() } == i as u64, "layout:cvec_reserve_contents", "element {} lost by reserve_fn", i);
    }
    unsafe { v.data.add(v.len).write(T::make(3)) };
    v.len += 1;
    // hand it back to Rust, which must see 4 elements
    let mut back: CVec<T> = unsafe { std::mem::transmute_copy(&v) };
    ensure!(back.len() == 4 && back.iter().map(|e| e.val()).eq(0..4), "layout:cvec_back", "Rust sees {:?}", back.iter().map(|e| e.val()).collect::<Vec<_>>());
    ensure!(back.pop().map(|e| e.val()) == Some(3), "layout:cvec_back_pop", "pop");
    let v: CVecView<T> = unsafe { std::mem::transmute_copy(&back) };
    std::mem::forget(back);
    unsafe { df(v.data, v.len, v.capacity) };
    for id in 0..3 {
        ensure!(d.count(id) == 1, "layout:cvec_release", "element {} dropped {} time(s) by drop_fn(data,len,capacity)", id, d.count(id));
    }
    // C -> Rust: Rust must grow and free through the stored functions
    extern "C" fn my_reserve<T>(v: *mut CVecView<T>, n: usize) -> usize {
        bump(&MY_CLONE_CALLS);
        unsafe {
            let vv = &mut *v;
            let mut tmp = Vec::from_raw_parts(vv.data, vv.len, vv.capacity);
            tmp.reserve(n);
            vv.data = tmp.as_mut_ptr();
            vv.capacity = tmp.capacity();
            std::mem::forget(tmp);
            vv.capacity
        }
    }
    unsafe extern "C" fn my_drop<T>(data: *mut T, len: usize, cap: usize) {
        bump(&MY_DROP_CALLS);
        drop(Vec::from_raw_parts(data, len, cap));
    }
    let mut src: Vec<T> = Vec::with_capacity(1);
    src.push(T::make(10));
    let view = CVecView { data: src.as_mut_ptr(), len: 1, capacity: 1, drop_fn: Some(my_drop::<T>), reserve_fn: Some(my_reserve::<T>) };
    std::mem::forget(src);
    let (r0, d0) = (get(&MY_CLONE_CALLS), get(&MY_DROP_CALLS));
    let mut cv: CVec<T> = unsafe { std::mem::transmute_copy(&view) };
    cv.push(T::make(11));
    ensure!(get(&MY_CLONE_CALLS) == r0 + 1, "layout:cvec_from_c_reserve", "growing a C-assembled vector must go through its reserve_fn");
    ensure!(cv.iter().map(|e| e.val()).eq([10, 11]), "layout:cvec_from_c_contents", "contents");
    drop(cv);
    ensure!(get(&MY_DROP_CALLS) == d0 + 1, "layout:cvec_from_c_drop", "dropping a C-assembled vector must call its drop_fn once");
    finish(&d, "cvec")
}

// ---------------------------------------------------------------------------------- callbacks
fn callback<T: El>() -> R {
    let d = DropScope::new();
    ensure!(size_of::<OpaqueCallback<T>>() == size_of::<CallbackView<T>>(), "layout:callback_size", "callback size");
    let mut seen: Vec<u64> = Vec::with_capacity(4);
    {
        let mut clos = |t: T| {
            seen.push(t.val());
            t.val() != 2
        };
        let clos_addr = &clos as *const _ as usize;
        let cb: OpaqueCallback<T> = (&mut clos).into();
        let v: CallbackView<T> = unsafe { std::mem::transmute_copy(&cb) };
        std::mem::forget(cb);
        ensure!(v.context as usize == clos_addr, "layout:callback_context", "first word is not the context");
        let f = v.func.ok_or(("layout:callback_func".to_string(), "second word is not a function pointer".to_string()))?;
        ensure!(f(v.context, T::make(1)), "layout:callback_ret", "func(context, item) must return true to continue");
        ensure!(!f(v.context, T::make(2)), "layout:callback_ret", "func(context, item) must return false to stop");
    }
    ensure!(seen == [1, 2], "layout:callback_invoke", "closure saw {:?}", seen);
    // C -> Rust
    extern "C" fn my_func<T: El>(ctx: *mut c_void, item: T) -> bool {
        let acc = unsafe { &mut *(ctx as *mut u64) };
        *acc = *acc * 100 + item.val();
        item.val() < 8
    }
    let mut acc = 0u64;
    let view = CallbackView::<T> { context: &mut acc as *mut u64 as *mut c_void, func: Some(my_func::<T>) };
    let mut cb: OpaqueCallback<T> = unsafe { std::mem::transmute_copy(&view) };
    let r1 = cb.call(T::make(7));
    let r2 = cb.call(T::make(9));
    ensure!(r1 && !r2 && acc == 709, "layout:callback_from_c", "Rust call of a C-assembled callback: returns {},{} acc {}", r1, r2, acc);
    finish(&d, "callback")
}

// ---------------------------------------------------------------------------------- iterators
fn citer<T: El>() -> R {
    let d = DropScope::new();
    ensure!(size_of::<CIterator<T>>() == size_of::<CIteratorView<T>>(), "layout:iter_size", "iterator size");
    let mut src = vec![T::make(1), T::make(2)].into_iter();
    let src_addr = &src as *const _ as usize;
    {
        let it = CIterator::new(&mut src);
        let v: CIteratorView<T> = unsafe { std::mem::transmute_copy(&it) };
        std::mem::forget(it);
        ensure!(v.iter as usize == src_addr, "layout:iter_state", "first word is not the iterator state");
        let f = v.func.ok_or(("layout:iter_func".to_string(), "second word is not a function pointer".to_string()))?;
        // `out` is a pure out-parameter: a C caller has ONE slot, holding whatever was there before (here: the bits of a value
        // somebody else owns, then the bits of the items already moved out) - the next function must only write it
        let sentinel = T::make(999);
        let mut out = std::mem::MaybeUninit::<T>::uninit();
        unsafe { std::ptr::copy_nonoverlapping(&sentinel as *const T, out.as_mut_ptr(), 1) };
        let mut items = Vec::new();
        for want in [1u64, 2] {
            let rc = f(v.iter, out.as_mut_ptr());
            ensure!(rc == 0, "layout:iter_rc_item", "next function returned {} for an item (must be 0)", rc);
            let item = unsafe { out.as_ptr().read() };
            ensure!(item.val() == want, "layout:iter_item", "item {} expected {}", item.val(), want);
            items.push(item);
            ensure!(d.not_equal(0).is_empty(), "layout:iter_out_slot", "the next function released what was in the caller's out slot before writing the item: drop counts {:?}", d.counts());
        }
        let rc = f(v.iter, out.as_mut_ptr());
        ensure!(rc != 0, "layout:iter_rc_end", "next function returned 0 at the end");
        ensure!(d.not_equal(0).is_empty(), "layout:iter_out_slot", "the next function released what was in the caller's out slot at the end of the iteration: drop counts {:?}", d.counts());
        drop(items);
        drop(sentinel);
    }
    drop(src);
    // C -> Rust: "0 for an item" — any non-zero value ends the iteration
    thread_local! {
        static END_CODE: Cell<i32> = const { Cell::new(1) };
    }
    extern "C" fn my_next<T: El>(state: *mut c_void, out: *mut T) -> i32 {
        let n = unsafe { &mut *(state as *mut u64) };
        if *n >= 3 {
            return END_CODE.with(|c| c.get());
        }
        *n += 1;
        unsafe { out.write(T::make(*n * 10)) };
        0
    }
    for end in [1i32, 2, -1, i32::MIN, 0x100] {
        END_CODE.with(|c| c.set(end));
        let mut state = 0u64;
        let view = CIteratorView::<T> { iter: &mut state as *mut u64 as *mut c_void, func: Some(my_next::<T>) };
        let it: CIterator<T> = unsafe { std::mem::transmute_copy(&view) };
        // bounded: a wrapper that does not stop must not hang the check
        let got: Vec<u64> = it.take(8).map(|e| e.val()).collect();
        ensure!(got == [10, 20, 30], "layout:iter_from_c", "Rust iteration over a C-assembled iterator whose next function returns {} at the end gives {:?}", end, got);
    }
    finish(&d, "citer")
}

// ---------------------------------------------------------------------------------- option / result tags
fn tags() -> R {
    macro_rules! opt {
        ($t:ty, $v:expr) => {{
            ensure!(size_of::<COption<$t>>() == size_of::<COptionView<$t>>() && align_of::<COption<$t>>() == align_of::<COptionView<$t>>(), "layout:option_size", "COption<{}> size/align", stringify!($t));
            let s: COption<$t> = Some($v).into();
            let n: COption<$t> = None.into();
            let sv: COptionView<$t> = unsafe { std::mem::transmute_copy(&s) };
            let tag_n: u32 = unsafe { std::mem::transmute_copy(&n) };
            ensure!(sv.tag == 1 && sv.some == $v, "layout:option_some", "COption<{}>::Some has tag {} payload {:?}", stringify!($t), sv.tag, sv.some);
            ensure!(tag_n == 0, "layout:option_none", "COption<{}>::None has tag {}", stringify!($t), tag_n);
            let built = COptionView::<$t> { tag: 1, some: $v };
            let back: COption<$t> = unsafe { std::mem::transmute_copy(&built) };
            ensure!(Option::from(back) == Some($v), "layout:option_from_c", "C-assembled Some not read back");
            let built = COptionView::<$t> { tag: 0, some: $v };
            let back: COption<$t> = unsafe { std::mem::transmute_copy(&built) };
            ensure!(Option::<$t>::from(back).is_none(), "layout:option_from_c", "C-assembled None read as Some");
        }};
    }
    opt!(u8, 0xabu8);
    opt!(u16, 0xabcdu16);
    opt!(u32, 0xdead_beefu32);
    opt!(u64, u64::MAX - 1);
    opt!(u128, u128::MAX - 5);
    opt!(usize, 12345usize);
    macro_rules! res {
        ($t:ty, $e:ty, $v:expr, $ev:expr) => {{
            ensure!(size_of::<CResult<$t, $e>>() == size_of::<CResultView<$t, $e>>() && align_of::<CResult<$t, $e>>() == align_of::<CResultView<$t, $e>>(), "layout:result_size", "CResult<{},{}> size/align", stringify!($t), stringify!($e));
            let o: CResult<$t, $e> = Ok($v).into();
            let e: CResult<$t, $e> = Err($ev).into();
            let ov: CResultView<$t, $e> = unsafe { std::mem::transmute_copy(&o) };
            let ev: CResultView<$t, $e> = unsafe { std::mem::transmute_copy(&e) };
            ensure!(ov.tag == 0 && unsafe { ov.payload.ok } == $v, "layout:result_ok", "Ok has tag {}", ov.tag);
            ensure!(ev.tag == 1 && unsafe { ev.payload.err } == $ev, "layout:result_err", "Err has tag {}", ev.tag);
            let built = CResultView::<$t, $e> { tag: 1, payload: CResultPayload { err: $ev } };
            let back: CResult<$t, $e> = unsafe { std::mem::transmute_copy(&built) };
            ensure!(Result::from(back) == Err($ev), "layout:result_from_c", "C-assembled Err not read back");
            let built = CResultView::<$t, $e> { tag: 0, payload: CResultPayload { ok: $v } };
            let back: CResult<$t, $e> = unsafe { std::mem::transmute_copy(&built) };
            ensure!(Result::from(back) == Ok($v), "layout:result_from_c", "C-assembled Ok not read back");
        }};
    }
    res!(u8, u64, 7u8, u64::MAX);
    res!(u64, u8, u64::MAX, 7u8);
    res!(u32, u32, 1u32, 1u32);
    res!(u128, u16, 9u128, 3u16);
    Ok(digest(&"tags"))
}

fn run(f: impl FnOnce() -> R) -> CaseOut {
    alloc::begin();
    let r = guarded(f);
    let rep = alloc::end();
    match r {
        Err(()) => CaseOut::bad("panic", "panicked"),
        Ok(Err(v)) => CaseOut { obs: 0, nontrivial: true, violation: Some(v) },
        Ok(Ok(obs)) => CaseOut { obs, nontrivial: true, violation: alloc_violation(&rep) },
    }
}

const TYPES: &[&str] = &["cbox", "cslicebox", "carc", "cslices", "cvec", "callback", "citer"];
const ELEMS: &[&str] = &["16B_align8", "24B_align8", "32B_align16", "64B_align32"];

fn cell(ty: &str, el: &str) -> CaseOut {
    macro_rules! by_el {
        ($f:ident) => {
            match el {
                "16B_align8" => run($f::<E16>),
                "24B_align8" => run($f::<E24>),
                "32B_align16" => run($f::<E32>),
                _ => run($f::<E64>),
            }
        };
    }
    let mut out = match ty {
        "cbox" => by_el!(cbox),
        "cslicebox" => by_el!(cslicebox),
        "carc" => by_el!(carc),
        "cslices" => by_el!(cslices),
        "cvec" => by_el!(cvec),
        "callback" => by_el!(callback),
        "citer" => by_el!(citer),
        _ => run(tags),
    };
    out.obs ^= digest(&(ty, el));
    out
}

fn main() {
    quiet_panics();
    let sections = vec![Section {
        name: "c_view",
        explore: Box::new(|cx: &Cx| {
            cx.rule("c_view", "matrix: runtime wrapper type {CBox, CSliceBox, CArc/CArcSome, CSliceRef/CSliceMut, CVec, OpaqueCallback, CIterator} x element type {16B/24B align 8, 32B align 16, 64B align 32; all with drop counters} x {value made by the Rust API and operated only through the C mirror struct (release, clone, read, grow, append, invoke, advance), value assembled field by field and consumed by the Rust API}; plus COption/CResult tags and payload offsets for 6+4 payload types; oracle: same effect as the Rust operation (drop counts, contents, refcounts, call counts), size/align equal, None=0/Some=1, Ok=0/Err=1, iterator returns 0 for an item");
            cx.note("c_view", "build_profile", json!(if cfg!(debug_assertions) { "debug-assertions on" } else { "debug-assertions off" }));
            cx.note("c_view", "opt_level", json!(option_env!("VERIF_OPT").unwrap_or("profile default")));
            for ty in TYPES {
                for el in ELEMS {
                    let case = json!({"type": ty, "elem": el});
                    cx.eval("c_view", &case, || cell(ty, el));
                }
            }
            cx.eval("c_view", &json!({"type": "tags", "elem": "-"}), || cell("tags", "-"));
        }),
        replay: Box::new(|c: &Value| cell(c["type"].as_str().unwrap(), c["elem"].as_str().unwrap())),
    }];
    explore::run_main(CheckDef {
        property: "C16",
        level: "exploration",
        assumptions: vec![
            "the mirror structs in h_runtime/src/views.rs are a faithful transcription of the declarations in examples/pregen-headers/bindings.h and cglue-bindgen/src/types.rs".into(),
            "rustc's #[repr(C)] layout on this target equals the C compiler's".into(),
        ],
        sections,
        no_isolation: false,
    });
}
