//! C13 (runtime half) — integer result codes: zero means success and the output is initialised.

use cglue::result::{from_int_result, from_int_result_empty, into_int_out_result, into_int_result, IntError, IntResult};
use explore::driver::{CheckDef, Section};
use explore::{digest, CaseOut, Cx};
use h_runtime::{alloc_violation, guarded, quiet_panics};
use instr::{alloc, drops, Dc, DropScope};
use rayon::prelude::*;
use serde_json::{json, Value};
use std::io;
use std::mem::MaybeUninit;
use std::num::NonZeroI32;

type R = Result<u64, (String, String)>;

macro_rules! ensure {
    ($c:expr, $sig:expr, $($fmt:tt)*) => {
        if !($c) {
            return Err(($sig.to_string(), format!($($fmt)*)));
        }
    };
}

const POISON: u8 = 0xA7;

fn poisoned<T>() -> MaybeUninit<T> {
    let mut m = MaybeUninit::<T>::uninit();
    unsafe { std::ptr::write_bytes(m.as_mut_ptr() as *mut u8, POISON, std::mem::size_of::<T>()) };
    m
}

fn still_poisoned<T>(m: &MaybeUninit<T>) -> bool {
    let b = unsafe { std::slice::from_raw_parts(m.as_ptr() as *const u8, std::mem::size_of::<T>()) };
    b.iter().all(|x| *x == POISON)
}

/// Which error value is used in a case.
#[derive(Clone, Debug)]
enum E {
    Unit,
    Fmt,
    IoOs(i32),
    IoKind(io::ErrorKind),
    IoCustom(io::ErrorKind),
}

const KINDS: &[io::ErrorKind] = &[
    io::ErrorKind::NotFound,
    io::ErrorKind::PermissionDenied,
    io::ErrorKind::ConnectionRefused,
    io::ErrorKind::ConnectionReset,
    io::ErrorKind::ConnectionAborted,
    io::ErrorKind::NotConnected,
    io::ErrorKind::AddrInUse,
    io::ErrorKind::AddrNotAvailable,
    io::ErrorKind::BrokenPipe,
    io::ErrorKind::AlreadyExists,
    io::ErrorKind::WouldBlock,
    io::ErrorKind::InvalidInput,
    io::ErrorKind::InvalidData,
    io::ErrorKind::TimedOut,
    io::ErrorKind::WriteZero,
    io::ErrorKind::Interrupted,
    io::ErrorKind::Unsupported,
    io::ErrorKind::UnexpectedEof,
    io::ErrorKind::OutOfMemory,
    io::ErrorKind::Other,
];

fn mk_io(e: &E) -> io::Error {
    match e {
        E::IoOs(c) => io::Error::from_raw_os_error(*c),
        E::IoKind(k) => io::Error::from(*k),
        E::IoCustom(k) => io::Error::new(*k, "custom"),
        _ => unreachable!(),
    }
}

/// All four functions on one (Ok|Err) value with a drop-counting success payload.
fn roundtrip<Er: IntError, F: Fn() -> Er>(ok: bool, mk: F, check_err: &dyn Fn(&Er, i32) -> Result<(), String>) -> R {
    let drops_scope = DropScope::new();
    // ---- into_int_out_result
    let mut slot = poisoned::<Dc>();
    let res: Result<Dc, Er> = if ok { Ok(Dc::new(41)) } else { Err(mk()) };
    let code = into_int_out_result(res, &mut slot);
    ensure!((code == 0) == ok, "int:code_zero_iff_ok", "into_int_out_result returned {} for {}", code, if ok { "Ok" } else { "Err" });
    if ok {
        ensure!(drops_scope.count(0) == 0, "int:ok_dropped", "success value dropped instead of moved into the slot");
        let v = unsafe { slot.as_ptr().read() };
        ensure!(v.id == 0 && v.val == 41, "int:slot_value", "slot holds {:?}", (v.id, v.val));
        std::mem::forget(v);
    } else {
        ensure!(still_poisoned(&slot), "int:slot_written_on_err", "output slot was modified although the result was Err");
    }
    // ---- from_int_result on the same (code, slot) pair
    let back: Result<Dc, Er> = unsafe { from_int_result(code, slot) };
    ensure!(back.is_ok() == ok, "int:decode_variant", "from_int_result({}) gave {}", code, if back.is_ok() { "Ok" } else { "Err" });
    match back {
        Ok(v) => {
            ensure!(v.id == 0 && v.val == 41 && drops_scope.count(0) == 0, "int:decode_value", "decoded success value differs or was dropped");
            drop(v);
            ensure!(drops_scope.count(0) == 1, "int:ok_drop_count", "success value drop count {}", drops_scope.count(0));
        }
        Err(e) => {
            if let Err(m) = check_err(&e, code) {
                return Err(("int:decode_err".into(), m));
            }
        }
    }
    ensure!(drops::bogus_drops() == 0, "int:slot_read_on_err", "a value was fabricated from the untouched slot and dropped");
    // ---- IntResult trait forwards
    let mut slot2 = poisoned::<Dc>();
    let res2: Result<Dc, Er> = if ok { Ok(Dc::new(42)) } else { Err(mk()) };
    let code2 = res2.into_int_out_result(&mut slot2);
    ensure!(code2 == code, "int:trait_forward", "IntResult::into_int_out_result gives {} vs {}", code2, code);
    if ok {
        unsafe { slot2.assume_init_drop() };
    } else {
        ensure!(still_poisoned(&slot2), "int:slot_written_on_err", "output slot was modified (trait forward)");
    }
    // ---- into_int_result (value discarded)
    let res3: Result<Dc, Er> = if ok { Ok(Dc::new(43)) } else { Err(mk()) };
    let n_before = drops_scope.ids();
    let code3 = into_int_result(res3);
    ensure!(code3 == code, "int:plain_code", "into_int_result gives {} vs {}", code3, code);
    if ok {
        ensure!(drops_scope.count(n_before - 1) == 1, "int:plain_drop", "into_int_result(Ok(v)) must drop v exactly once");
    }
    let res4: Result<Dc, Er> = if ok { Ok(Dc::new(44)) } else { Err(mk()) };
    ensure!(IntResult::into_int_result(res4) == code, "int:trait_forward_plain", "IntResult::into_int_result differs");
    // ---- from_int_result_empty
    let em: Result<(), Er> = from_int_result_empty(code);
    ensure!(em.is_ok() == ok, "int:empty_variant", "from_int_result_empty({}) variant", code);
    if let Err(e) = em {
        if let Err(m) = check_err(&e, code) {
            return Err(("int:decode_err".into(), m));
        }
    }
    let bad = drops_scope.not_equal(1);
    ensure!(bad.is_empty(), "int:drop_count", "payload ids {:?} not dropped exactly once: {:?}", bad, drops_scope.counts());
    Ok(digest(&(ok, code)))
}

fn value_case(ok: bool, e: &E) -> R {
    match e {
        // which non-zero code a shipped error type uses is its own business (roundtrip checks "0 exactly for Ok")
        E::Unit => roundtrip::<(), _>(ok, || (), &|_, _| Ok(())),
        E::Fmt => roundtrip::<std::fmt::Error, _>(ok, || std::fmt::Error, &|_, _| Ok(())),
        io_e => {
            let e2 = io_e.clone();
            let e3 = io_e.clone();
            roundtrip::<io::Error, _>(ok, move || mk_io(&e2), &move |dec: &io::Error, code| {
                // a non-zero OS code survives; non-OS errors map to the catch-all code
                match &e3 {
                    E::IoOs(c) if *c != 0 => {
                        if code != *c || dec.raw_os_error() != Some(*c) {
                            return Err(format!("OS error {} encoded as {} decoded as {:?}", c, code, dec.raw_os_error()));
                        }
                    }
                    _ => {
                        if code == 0 || dec.raw_os_error() != Some(code) {
                            return Err(format!("non-OS error encoded as {} decoded as {:?}", code, dec.raw_os_error()));
                        }
                    }
                }
                Ok(())
            })
        }
    }
}

fn run_value(ok: bool, e: &E) -> CaseOut {
    alloc::begin();
    let r = guarded(|| value_case(ok, e));
    let rep = alloc::end();
    match r {
        Err(()) => CaseOut::bad("panic", "panicked (an error encoded to 0 makes NonZeroI32::new(..).unwrap() panic)"),
        Ok(Err(v)) => CaseOut { obs: 0, nontrivial: true, violation: Some(v) },
        Ok(Ok(obs)) => CaseOut { obs, nontrivial: true, violation: alloc_violation(&rep) },
    }
}

fn e_to_json(e: &E) -> Value {
    match e {
        E::Unit => json!("unit"),
        E::Fmt => json!("fmt"),
        E::IoOs(c) => json!({"os": c}),
        E::IoKind(k) => json!({"kind": KINDS.iter().position(|x| x == k)}),
        E::IoCustom(k) => json!({"custom": KINDS.iter().position(|x| x == k)}),
    }
}

fn e_from_json(v: &Value) -> E {
    if v == "unit" {
        E::Unit
    } else if v == "fmt" {
        E::Fmt
    } else if let Some(c) = v.get("os") {
        E::IoOs(c.as_i64().unwrap() as i32)
    } else if let Some(k) = v.get("kind") {
        E::IoKind(KINDS[k.as_u64().unwrap() as usize])
    } else {
        E::IoCustom(KINDS[v["custom"].as_u64().unwrap() as usize])
    }
}

/// Encode/decode one raw OS code; returns Err(description) on a violation.
#[inline]
fn os_code(c: i32) -> Result<(), &'static str> {
    let enc = match std::panic::catch_unwind(|| io::Error::from_raw_os_error(c).into_int_err().get()) {
        Ok(v) => v,
        Err(_) => return Err("encoding panicked"),
    };
    if enc == 0 {
        return Err("encoded to 0");
    }
    if c != 0 && enc != c {
        return Err("non-zero OS code altered by encoding");
    }
    let dec = io::Error::from_int_err(NonZeroI32::new(enc).unwrap());
    if dec.raw_os_error() != Some(enc) {
        return Err("decoded error carries a different OS code");
    }
    let r: Result<(), io::Error> = from_int_result_empty(into_int_result::<(), _>(Err(io::Error::from_raw_os_error(c))));
    match r {
        Err(e) if c == 0 || e.raw_os_error() == Some(c) => Ok(()),
        _ => Err("Result round trip lost the code"),
    }
}

fn sweep(cx: &Cx, sec: &str, ranges: Vec<(i64, i64)>) {
    // chunks of 2^20 codes, in parallel
    let mut chunks = Vec::new();
    for (lo, hi) in ranges {
        let mut a = lo;
        while a <= hi {
            let b = (a + (1 << 20) - 1).min(hi);
            chunks.push((a, b));
            a = b + 1;
        }
    }
    chunks.par_iter().for_each(|&(lo, hi)| {
        let case = json!({"os_range": [lo, hi]});
        if !cx.journal(sec, &case) {
            return;
        }
        let mut bad = None;
        for c in lo..=hi {
            if let Err(m) = os_code(c as i32) {
                bad = Some((c, m));
                break;
            }
        }
        let n = (hi - lo + 1) as u64;
        cx.bulk(sec, n, n, json!({"os_range": [lo, hi]}), bad.map(|(c, m)| ("int:os_code".to_string(), format!("raw OS error {}: {}", c, m), json!({"os_range": [c, c]}))));
    });
}

fn main() {
    quiet_panics();
    let sections = vec![
        Section {
            name: "values",
            explore: Box::new(|cx: &Cx| {
                cx.rule("values", "every combination of {Ok, Err} x error value {(), fmt::Error, io::Error from OS codes {0, 1, -1, 2, 11, 0xffff, i32::MIN, i32::MAX}, io::Error from every listed non-OS ErrorKind (simple and custom)} through into_int_out_result / into_int_result / IntResult forwards / from_int_result / from_int_result_empty with a drop-counting success payload and a poisoned output slot");
                let mut errs = vec![E::Unit, E::Fmt];
                for c in [0, 1, -1, 2, 11, 0xffff, i32::MIN, i32::MAX] {
                    errs.push(E::IoOs(c));
                }
                for k in KINDS {
                    errs.push(E::IoKind(*k));
                    errs.push(E::IoCustom(*k));
                }
                for e in &errs {
                    for ok in [true, false] {
                        let case = json!({"ok": ok, "err": e_to_json(e)});
                        cx.eval("values", &case, || run_value(ok, e));
                    }
                }
            }),
            replay: Box::new(|c: &Value| run_value(c["ok"].as_bool().unwrap(), &e_from_json(&c["err"]))),
        },
        Section {
            name: "os_codes",
            explore: Box::new(|cx: &Cx| {
                // the complete sweep takes a few seconds on 16 cores, so both tiers do all of it
                cx.rule("os_codes", "ALL 2^32 raw OS error codes: encode != 0, non-zero codes unchanged, decode carries the same code, Result round trip");
                sweep(cx, "os_codes", vec![(i32::MIN as i64, i32::MAX as i64)]);
            }),
            replay: Box::new(|c: &Value| {
                let lo = c["os_range"][0].as_i64().unwrap();
                let hi = c["os_range"][1].as_i64().unwrap();
                for code in lo..=hi {
                    if let Err(m) = os_code(code as i32) {
                        return CaseOut::bad("int:os_code", format!("raw OS error {}: {}", code, m));
                    }
                }
                CaseOut::ok(digest(&(lo, hi)))
            }),
        },
    ];
    explore::run_main(CheckDef {
        property: "C13",
        level: "exploration",
        assumptions: vec!["std::io::Error::raw_os_error / from_raw_os_error are the reference for 'the same OS code'".into()],
        sections,
        no_isolation: false,
    });
}
