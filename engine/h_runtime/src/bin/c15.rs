//! C15 — callbacks and iterators deliver every item once, in order, until told to stop.

use cglue::callback::{Callbackable, FeedCallback, FromExtend, OpaqueCallback};
use cglue::iter::{AsCIterator, CIterator};
use explore::driver::{CheckDef, Section};
use explore::{digest, CaseOut, Cx};
use h_runtime::{alloc_violation, guarded, quiet_panics};
use instr::{alloc, drops, Dc, DropScope};
use serde::{Deserialize, Serialize};
use serde_json::{json, Value};
use std::collections::VecDeque;

type R = Result<u64, (String, String)>;

macro_rules! ensure {
    ($c:expr, $sig:expr, $($fmt:tt)*) => {
        if !($c) {
            return Err(($sig.to_string(), format!($($fmt)*)));
        }
    };
}

// ------------------------------------------------------------------------------------------
// callbacks

#[derive(Clone, Copy, Debug, Serialize, Deserialize, PartialEq)]
enum Sink {
    /// closure that returns false on its `stop`-th invocation (0 = never)
    Closure,
    /// From<&mut Vec<T>>
    Vec,
    /// FromExtend on a VecDeque
    ExtendDeque,
    /// FromExtend on a custom Extend collection
    ExtendCustom,
}

#[derive(Clone, Copy, Debug, Serialize, Deserialize, PartialEq)]
enum Path {
    /// manual loop over OpaqueCallback::call until it returns false
    Call,
    FeedInto,
    FeedIntoMut,
    Extend,
    /// through the Callbackable trait on OpaqueCallback
    CallbackableOwned,
    /// through the Callbackable trait on &mut OpaqueCallback
    CallbackableRef,
    /// the same entry points fed from a lazy source passed by reference: what is left in the source
    /// afterwards shows how many items were pulled from it
    FeedIntoByRef,
    FeedIntoMutByRef,
    ExtendByRef,
}

struct Custom(Vec<u64>);
impl Extend<Dc> for Custom {
    fn extend<I: IntoIterator<Item = Dc>>(&mut self, iter: I) {
        for d in iter {
            self.0.push(d.val);
        }
    }
}

fn drive_generic<C: Callbackable<Dc>>(mut cb: C, items: Vec<Dc>) -> usize {
    let mut offered = 0;
    for it in items {
        offered += 1;
        if !cb.call(it) {
            break;
        }
    }
    offered
}

/// Feed `n` items (values 1..=n) through `path` into `sink`; closure sinks stop at `stop`.
fn callback_case(n: usize, stop: usize, sink: Sink, path: Path) -> R {
    let drops_scope = DropScope::new();
    let lazy = matches!(path, Path::FeedIntoByRef | Path::FeedIntoMutByRef | Path::ExtendByRef);
    let items: Vec<Dc> = if lazy { Vec::new() } else { (1..=n as u64).map(Dc::new).collect() };
    // lazy source of unknown length (size_hint lower bound 0), unlike the exact-size Vec used by the other paths
    let mut src = (1..=n as u64).map(Dc::new).filter(|_| true);
    let expect_offered = if sink == Sink::Closure && stop != 0 && stop <= n { stop } else { n };
    let mut seen: Vec<u64> = Vec::with_capacity(n + 1);
    let mut calls_after_stop = 0usize;
    let mut vec_sink: Vec<Dc> = Vec::new();
    let mut deque_sink: VecDeque<Dc> = VecDeque::new();
    let mut custom_sink = Custom(Vec::new());
    let mut stopped = false;
    let mut closure = |d: Dc| {
        if stopped {
            calls_after_stop += 1;
        }
        seen.push(d.val);
        let go = !(stop != 0 && seen.len() == stop);
        if !go {
            stopped = true;
        }
        go
    };
    let offered: Option<usize> = {
        let mut cb: OpaqueCallback<Dc> = match sink {
            Sink::Closure => (&mut closure).into(),
            Sink::Vec => (&mut vec_sink).into(),
            Sink::ExtendDeque => deque_sink.from_extend(),
            Sink::ExtendCustom => custom_sink.from_extend(),
        };
        match path {
            Path::Call => {
                let mut k = 0;
                for it in items {
                    k += 1;
                    if !cb.call(it) {
                        break;
                    }
                }
                Some(k)
            }
            Path::FeedInto => Some(items.into_iter().feed_into(cb)),
            Path::FeedIntoMut => Some(items.into_iter().feed_into_mut(&mut cb)),
            Path::Extend => {
                cb.extend(items);
                None
            }
            Path::CallbackableOwned => Some(drive_generic(cb, items)),
            Path::CallbackableRef => Some(drive_generic(&mut cb, items)),
            Path::FeedIntoByRef => Some(src.by_ref().feed_into(cb)),
            Path::FeedIntoMutByRef => Some(src.by_ref().feed_into_mut(&mut cb)),
            Path::ExtendByRef => {
                cb.extend(src.by_ref());
                None
            }
        }
    };
    if lazy {
        // the source must have been advanced by exactly the items that were offered
        let rest: Vec<Dc> = src.collect();
        let rest_vals: Vec<u64> = rest.iter().map(|d| d.val).collect();
        let want_rest: Vec<u64> = (expect_offered as u64 + 1..=n as u64).collect();
        ensure!(rest_vals == want_rest, "cb:source_overrun", "after the sink stopped at item {} the source still yields {:?}, expected {:?}: items were pulled from the source without being offered (n={}, stop={})", expect_offered, rest_vals, want_rest, n, stop);
        drop(rest);
    }
    let want: Vec<u64> = (1..=expect_offered as u64).collect();
    let got: Vec<u64> = match sink {
        Sink::Closure => seen.clone(),
        Sink::Vec => vec_sink.iter().map(|d| d.val).collect(),
        Sink::ExtendDeque => deque_sink.iter().map(|d| d.val).collect(),
        Sink::ExtendCustom => custom_sink.0.clone(),
    };
    ensure!(got == want, "cb:delivery", "sink received {:?}, expected exactly {:?} (n={}, stop={})", got, want, n, stop);
    ensure!(calls_after_stop == 0, "cb:after_stop", "callback invoked {} time(s) after it returned false", calls_after_stop);
    if let Some(o) = offered {
        ensure!(o == expect_offered, "cb:count", "reported {} item(s) offered, expected {}", o, expect_offered);
    }
    // every item exists exactly once: either still in a collecting sink or dropped once
    let counts = drops_scope.counts();
    ensure!(counts.len() == n, "cb:fabricated", "{} payloads exist, {} were created", counts.len(), n);
    for (id, c) in counts.iter().enumerate() {
        let held = match sink {
            Sink::Vec => vec_sink.iter().any(|d| d.id == id),
            Sink::ExtendDeque => deque_sink.iter().any(|d| d.id == id),
            _ => false,
        };
        ensure!(*c == if held { 0 } else { 1 }, "cb:item_drop", "item {} (held by sink: {}) was dropped {} time(s)", id + 1, held, c);
    }
    ensure!(drops::bogus_drops() == 0, "cb:bogus", "a fabricated item was dropped");
    drop(vec_sink);
    drop(deque_sink);
    let bad = drops_scope.not_equal(1);
    ensure!(bad.is_empty(), "cb:final_drop", "items {:?} not dropped exactly once", bad);
    Ok(digest(&(n, stop, sink as u8, path as u8, got)))
}

/// ONE callback fed in two rounds (a paging sink: the consumer asks for the next page through the same callback): every round is
/// a feeding of its own - the closure is invoked once per offered item again, also after an earlier round was stopped by it.
/// The closure returns false exactly on its `stop`-th invocation overall (0 = never).
fn reuse_case(n1: usize, n2: usize, stop: usize, path: u8) -> R {
    let drops_scope = DropScope::new();
    let mut seen: Vec<u64> = Vec::with_capacity(n1 + n2 + 1);
    let mut closure = |d: Dc| {
        seen.push(d.val);
        !(stop != 0 && seen.len() == stop)
    };
    let round1: Vec<Dc> = (1..=n1 as u64).map(Dc::new).collect();
    let round2: Vec<Dc> = (101..=100 + n2 as u64).map(Dc::new).collect();
    let want1 = if stop != 0 && stop <= n1 { stop } else { n1 };
    let want2 = if stop > want1 && stop - want1 <= n2 && stop > n1 { stop - n1 } else { n2 };
    let (o1, o2) = {
        let mut cb: OpaqueCallback<Dc> = (&mut closure).into();
        match path {
            0 => (round1.into_iter().feed_into_mut(&mut cb), round2.into_iter().feed_into_mut(&mut cb)),
            1 => (drive_generic(&mut cb, round1), drive_generic(&mut cb, round2)),
            _ => {
                let mut k1 = 0;
                for it in round1 {
                    k1 += 1;
                    if !cb.call(it) {
                        break;
                    }
                }
                (k1, round2.into_iter().feed_into(cb))
            }
        }
    };
    ensure!(o1 == want1, "cb:count", "first round: reported {} item(s) offered, expected {} (n1={}, stop={})", o1, want1, n1, stop);
    ensure!(o2 == want2, "cb:reuse_count", "second round through the same callback: reported {} item(s) offered, expected {} (n1={}, n2={}, the closure returned false on invocation {})", o2, want2, n1, n2, stop);
    let want: Vec<u64> = (1..=want1 as u64).chain(101..=100 + want2 as u64).collect();
    ensure!(seen == want, "cb:reuse_delivery", "over two rounds through one callback the closure received {:?}, expected {:?} (n1={}, n2={}, stop={})", seen, want, n1, n2, stop);
    let bad = drops_scope.not_equal(1);
    ensure!(bad.is_empty(), "cb:final_drop", "items {:?} not dropped exactly once", bad);
    Ok(digest(&(n1, n2, stop, path, seen)))
}

// ------------------------------------------------------------------------------------------
// iterators

#[derive(Clone, Copy, Debug, Serialize, Deserialize, PartialEq)]
enum Src {
    VecIter,
    Mapped,
    /// yields `gap_at` items, then None once, then the rest (not fused)
    Unfused,
}

struct Unfused {
    items: VecDeque<Dc>,
    gap_at: usize,
    yielded: usize,
    gap_done: bool,
}
impl Iterator for Unfused {
    type Item = Dc;
    fn next(&mut self) -> Option<Dc> {
        if self.yielded == self.gap_at && !self.gap_done {
            self.gap_done = true;
            return None;
        }
        let r = self.items.pop_front();
        if r.is_some() {
            self.yielded += 1;
        }
        r
    }
}

#[derive(Clone, Copy, Debug, Serialize, Deserialize, PartialEq)]
enum IOp {
    /// next() through a wrapper made with CIterator::new
    NextNew,
    /// next() through a wrapper made with From<&mut I>
    NextInto,
    /// next() through a wrapper made with as_citer()
    NextAsCiter,
    /// two next() calls through one wrapper
    NextTwice,
    /// use the source directly (no wrapper alive)
    NextSource,
    /// create a wrapper and drop it without calling it
    WrapOnly,
    /// wrapper.nth(1): one item skipped, the next returned
    Nth1,
    /// wrapper.skip(2).next()
    Skip2Next,
    /// wrapper.step_by(2).take(2): items 0 and 2 of the remaining source returned, item 1 skipped
    StepBy2Take2,
    /// wrapper.take(2).count(): two items consumed, none returned
    Take2Count,
}

fn mk_src(kind: Src, n: usize) -> Box<dyn FnOnce() -> (Box<dyn Iterator<Item = Dc>>, Vec<u64>)> {
    Box::new(move || {
        let items: Vec<Dc> = (1..=n as u64).map(Dc::new).collect();
        match kind {
            Src::VecIter => (Box::new(items.into_iter()), (1..=n as u64).collect()),
            Src::Mapped => (
                Box::new(items.into_iter().map(|mut d| {
                    d.val *= 10;
                    d
                })),
                (1..=n as u64).map(|v| v * 10).collect(),
            ),
            Src::Unfused => (Box::new(Unfused { items: items.into(), gap_at: n / 2, yielded: 0, gap_done: false }), (1..=n as u64).collect()),
        }
    })
}

/// Reference: what the source itself yields on successive next() calls.
fn model_next(kind: Src, n: usize, vals: &[u64], pos: &mut usize, gap_done: &mut bool) -> Option<u64> {
    if kind == Src::Unfused && *pos == n / 2 && !*gap_done {
        *gap_done = true;
        return None;
    }
    if *pos < vals.len() {
        *pos += 1;
        Some(vals[*pos - 1])
    } else {
        None
    }
}

fn iter_case(kind: Src, n: usize, ops: &[IOp]) -> R {
    let drops_scope = DropScope::new();
    let (mut src, vals) = mk_src(kind, n)();
    let (mut pos, mut gap_done) = (0usize, false);
    let mut trace = Vec::with_capacity(ops.len() * 2);
    let mut yielded_ids: Vec<usize> = Vec::with_capacity(n);
    for (step, op) in ops.iter().enumerate() {
        // (value the wrapper returned, whether the model expects this pull to be returned to the caller)
        let mut results: Vec<Option<Dc>> = Vec::with_capacity(2);
        // number of source pulls the model performs for this op, and which of them are returned (others are skipped)
        let plan: Vec<bool> = match op {
            IOp::NextNew | IOp::NextInto | IOp::NextAsCiter | IOp::NextSource => vec![true],
            IOp::NextTwice => vec![true, true],
            IOp::WrapOnly => vec![],
            IOp::Nth1 => vec![false, true],
            IOp::Skip2Next => vec![false, false, true],
            IOp::StepBy2Take2 => vec![true, false, true],
            IOp::Take2Count => vec![false, false],
        };
        match op {
            IOp::NextNew => {
                let mut w = CIterator::new(&mut src);
                results.push(w.next());
            }
            IOp::NextInto => {
                let mut w: CIterator<Dc> = (&mut src).into();
                results.push(w.next());
            }
            IOp::NextAsCiter => {
                let mut w = src.as_citer();
                results.push(w.next());
            }
            IOp::NextTwice => {
                let mut w = CIterator::new(&mut src);
                results.push(w.next());
                results.push(w.next());
            }
            IOp::NextSource => results.push(src.next()),
            IOp::WrapOnly => {
                let w = CIterator::new(&mut src);
                drop(w);
            }
            IOp::Nth1 => {
                let mut w = CIterator::new(&mut src);
                results.push(w.nth(1));
            }
            IOp::Skip2Next => {
                let w = CIterator::new(&mut src);
                results.push(w.skip(2).next());
            }
            IOp::StepBy2Take2 => {
                let w = CIterator::new(&mut src);
                let mut it = w.step_by(2);
                results.push(it.next());
                results.push(it.next());
            }
            IOp::Take2Count => {
                let w = CIterator::new(&mut src);
                let n = w.take(2).count();
                trace.push(Some(n as u64));
            }
        }
        // the model: pull from the source as the op would (adaptor ops are only enumerated over fused sources, where
        // pulling again after the end changes nothing)
        let mut wants: Vec<Option<u64>> = Vec::new();
        for returned in &plan {
            let w = model_next(kind, n, &vals, &mut pos, &mut gap_done);
            if *returned {
                wants.push(w);
            }
        }
        // nth/skip on an exhausted source yield a single None for the op
        let wants: Vec<Option<u64>> = match op {
            IOp::Nth1 | IOp::Skip2Next => vec![wants.last().cloned().unwrap_or(None)],
            _ => wants,
        };
        if !matches!(op, IOp::Take2Count) && results.len() != wants.len() {
            return Err(("harness".into(), format!("step {}: model/result arity {} vs {}", step, wants.len(), results.len())));
        }
        for (r, want) in results.into_iter().zip(wants.into_iter()) {
            let got = r.as_ref().map(|d| d.val);
            ensure!(got == want, "iter:item", "step {} {:?}: wrapper yielded {:?}, the source yields {:?}", step, op, got, want);
            if let Some(d) = r {
                ensure!(d.id < n && !yielded_ids.contains(&d.id) && drops_scope.count(d.id) == 0, "iter:fabricated", "step {}: item id {} is not a fresh item of the source", step, d.id);
                yielded_ids.push(d.id);
                drop(d);
            }
            trace.push(got);
        }
        ensure!(drops::bogus_drops() == 0, "iter:bogus", "step {}: a fabricated value was dropped", step);
        // every item the source has handed out (returned to us or skipped by an adaptor) is dropped exactly once, the
        // others are still alive inside the source
        for id in 0..n {
            let c = drops_scope.count(id);
            let want = if id < pos { 1 } else { 0 };
            ensure!(c == want, "iter:item_drop", "step {} {:?}: item {} dropped {} time(s), expected {} ({} items pulled from the source so far)", step, op, id, c, want, pos);
        }
    }
    drop(src);
    let bad = drops_scope.not_equal(1);
    ensure!(bad.is_empty() && drops_scope.ids() == n, "iter:final_drop", "items {:?} not dropped exactly once ({} payloads exist, {} created)", bad, drops_scope.ids(), n);
    Ok(digest(&(kind as u8, n, trace)))
}


/// zero-sized items with a destructor (created when the source is pulled): ops 0 next via a new wrapper, 1 two nexts
/// through one wrapper, 2 next on the source, 3 wrapper.nth(1), 4 wrapper.take(2).count(), 5 release the oldest held item
fn zst_iter_case(n: usize, ops: &[u8]) -> R {
    use instr::DcZst;
    DcZst::reset();
    let mut src = (0..n).map(|_| DcZst::new());
    let mut held: Vec<DcZst> = Vec::with_capacity(16);
    let mut pulled = 0usize;
    let mut trace = Vec::with_capacity(ops.len());
    for (step, op) in ops.iter().enumerate() {
        // model: how many items this op pulls from the source, and how many of those it hands to the caller
        let left = n - pulled;
        let (pulls, returns) = match *op {
            0 | 2 => (left.min(1), left.min(1)),
            1 => (left.min(2), left.min(2)),
            3 => (left.min(2), if left >= 2 { 1 } else { 0 }),
            4 => (left.min(2), 0),
            _ => (0, 0),
        };
        let before = held.len();
        match *op {
            0 => {
                let mut w = CIterator::new(&mut src);
                held.extend(w.next());
            }
            1 => {
                let mut w = CIterator::new(&mut src);
                held.extend(w.next());
                held.extend(w.next());
            }
            2 => held.extend(src.next()),
            3 => {
                let mut w = CIterator::new(&mut src);
                held.extend(w.nth(1));
            }
            4 => {
                let w = CIterator::new(&mut src);
                let c = w.take(2).count();
                ensure!(c == pulls, "iter:item", "step {}: take(2).count() over a wrapper with {} item(s) left counted {}", step, left, c);
            }
            _ => {
                if !held.is_empty() {
                    drop(held.remove(0));
                }
            }
        }
        pulled += pulls;
        ensure!(held.len() - before.min(held.len()) == returns || *op == 5, "iter:item", "step {} op {}: {} item(s) handed out, the source yields {}", step, op, held.len() as isize - before as isize, returns);
        let (made, gone) = DcZst::stats();
        ensure!(made == pulled as u64, "iter:fabricated", "step {} op {}: {} zero-sized item(s) pulled from the source so far, {} were created", step, op, pulled, made);
        ensure!(gone == (pulled - held.len()) as u64, "iter:item_drop", "step {} op {}: {} zero-sized item(s) pulled, {} still held by the consumer, but {} destroyed (an item must not be destroyed before the consumer lets go of it, nor twice)", step, op, pulled, held.len(), gone);
        trace.push((made, gone));
    }
    drop(src);
    drop(held);
    let (made, gone) = DcZst::stats();
    ensure!(made == gone && made == pulled as u64, "iter:final_drop", "{} zero-sized items created, {} destroyed", made, gone);
    Ok(digest(&(n, trace)))
}

fn run(f: impl FnOnce() -> R, nontrivial: bool) -> CaseOut {
    alloc::begin();
    let r = guarded(f);
    let rep = alloc::end();
    match r {
        Err(()) => CaseOut::bad("panic", "panicked"),
        Ok(Err(v)) => CaseOut { obs: 0, nontrivial: true, violation: Some(v) },
        Ok(Ok(obs)) => CaseOut { obs, nontrivial, violation: alloc_violation(&rep) },
    }
}

const SINKS: [Sink; 4] = [Sink::Closure, Sink::Vec, Sink::ExtendDeque, Sink::ExtendCustom];
const PATHS: [Path; 9] = [Path::Call, Path::FeedInto, Path::FeedIntoMut, Path::Extend, Path::CallbackableOwned, Path::CallbackableRef, Path::FeedIntoByRef, Path::FeedIntoMutByRef, Path::ExtendByRef];
const IOPS: [IOp; 10] = [IOp::NextNew, IOp::NextInto, IOp::NextAsCiter, IOp::NextTwice, IOp::NextSource, IOp::WrapOnly, IOp::Nth1, IOp::Skip2Next, IOp::StepBy2Take2, IOp::Take2Count];
const SRCS: [Src; 3] = [Src::VecIter, Src::Mapped, Src::Unfused];

fn main() {
    quiet_panics();
    let sections = vec![
        Section {
            name: "callbacks",
            explore: Box::new(|cx: &Cx| {
                let n_max = cx.tier.pick(4, 7);
                cx.rule("callbacks", &format!("item sequences of length 0..={} (drop-counting items) x stop position (never, every position 1..=len, one past the end) x sink {{closure, &mut Vec, from_extend VecDeque, from_extend custom Extend}} x path {{call loop, feed_into, feed_into_mut, Extend::extend, Callbackable on OpaqueCallback / &mut OpaqueCallback, and feed_into / feed_into_mut / extend from a lazy source of unknown length (size_hint lower bound 0) passed by_ref()}}; oracle: the source is advanced by exactly the offered items, sink sees exactly the offered prefix in order, nothing after the first false, reported count == items offered, each item dropped or held exactly once", n_max));
                for n in 0..=n_max {
                    for sink in SINKS {
                        let stops: Vec<usize> = if sink == Sink::Closure { (0..=n + 1).collect() } else { vec![0] };
                        for stop in stops {
                            for path in PATHS {
                                let case = json!({"n": n, "stop": stop, "sink": sink, "path": path});
                                cx.eval("callbacks", &case, || run(|| callback_case(n, stop, sink, path), n > 0));
                            }
                        }
                    }
                }
            }),
            replay: Box::new(|c: &Value| {
                let sink: Sink = serde_json::from_value(c["sink"].clone()).unwrap();
                let path: Path = serde_json::from_value(c["path"].clone()).unwrap();
                run(|| callback_case(c["n"].as_u64().unwrap() as usize, c["stop"].as_u64().unwrap() as usize, sink, path), true)
            }),
        },
        Section {
            name: "callback_reuse",
            explore: Box::new(|cx: &Cx| {
                let n_max = cx.tier.pick(3, 5);
                cx.rule("callback_reuse", &format!("one OpaqueCallback over a closure fed in TWO rounds of 0..={} items each (feed_into_mut twice; Callbackable on &mut twice; call loop then feed_into) x the invocation on which the closure returns false (never, every position over both rounds): each round is a feeding of its own - the closure sees exactly the offered items of both rounds in order, each round reports its own count, every item dropped exactly once", n_max));
                for n1 in 0..=n_max {
                    for n2 in 0..=n_max {
                        for stop in 0..=n1 + n2 + 1 {
                            for path in 0..3u8 {
                                let case = json!({"n1": n1, "n2": n2, "stop": stop, "reuse_path": path});
                                cx.eval("callback_reuse", &case, || run(|| reuse_case(n1, n2, stop, path), n1 + n2 > 0));
                            }
                        }
                    }
                }
            }),
            replay: Box::new(|c: &Value| {
                let g = |k: &str| c[k].as_u64().unwrap() as usize;
                run(|| reuse_case(g("n1"), g("n2"), g("stop"), g("reuse_path") as u8), true)
            }),
        },
        Section {
            name: "iterators_zst_items",
            explore: Box::new(|cx: &Cx| {
                let (n_max, depth) = cx.tier.pick((3, 4), (4, 5));
                cx.rule("iterators_zst_items", &format!("sources of 0..={} zero-sized items with a destructor (created when pulled) x every sequence of <= {} operations over {{next via a new wrapper, two nexts through one wrapper, next on the source, nth(1), take(2).count(), release a held item}}; oracle after every step: items created == items pulled from the source, items destroyed == pulled - still held by the consumer", n_max, depth));
                for n in 0..=n_max {
                    for len in 0..=depth {
                        for mut idx in 0..6usize.pow(len as u32) {
                            let mut ops = Vec::with_capacity(len);
                            for _ in 0..len {
                                ops.push((idx % 6) as u8);
                                idx /= 6;
                            }
                            let case = json!({"zst_n": n, "zst_ops": ops});
                            cx.eval("iterators_zst_items", &case, || run(|| zst_iter_case(n, &ops), !ops.is_empty()));
                        }
                    }
                }
            }),
            replay: Box::new(|c: &Value| {
                let ops: Vec<u8> = serde_json::from_value(c["zst_ops"].clone()).unwrap();
                let n = c["zst_n"].as_u64().unwrap() as usize;
                run(|| zst_iter_case(n, &ops), true)
            }),
        },
        Section {
            name: "iterators",
            explore: Box::new(|cx: &Cx| {
                let (n_max, depth) = cx.tier.pick((4, 4), (5, 6));
                cx.rule("iterators", &format!("source iterators (vec::IntoIter, map adaptor, a non-fused iterator with a None in the middle) of length 0..={} x every operation sequence of length <= {} over {{next via CIterator::new / From<&mut I> / as_citer, two nexts through one wrapper, next on the source directly, wrap-and-release, and (fused sources) the std adaptors nth(1), skip(2).next(), step_by(2) x2, take(2).count() on the wrapper}}; oracle: every call yields exactly what the source model yields, items are fresh items of the source, dropped exactly once, nothing fabricated", n_max, depth));
                let mut nodes = 0u64;
                for kind in SRCS {
                    for n in 0..=n_max {
                        for len in 0..=depth {
                            let total = IOPS.len().pow(len as u32);
                            for mut idx in 0..total {
                                let mut ops = Vec::with_capacity(len);
                                for _ in 0..len {
                                    ops.push(IOPS[idx % IOPS.len()]);
                                    idx /= IOPS.len();
                                }
                                // std's adaptors differ in how they treat a None in the middle of a non-fused source; that is
                                // their business, not the wrapper's: adaptor ops are explored over the fused sources only
                                if kind == Src::Unfused && ops.iter().any(|o| matches!(o, IOp::Nth1 | IOp::Skip2Next | IOp::StepBy2Take2 | IOp::Take2Count)) {
                                    continue;
                                }
                                let case = json!({"src": kind, "n": n, "ops": ops});
                                cx.eval("iterators", &case, || run(|| iter_case(kind, n, &ops), !ops.is_empty()));
                                nodes += 1;
                            }
                        }
                    }
                }
                // every operation sequence is a node of the history tree; each was executed from scratch
                cx.add_states("iterators", nodes, nodes.saturating_sub(1), depth as u64);
            }),
            replay: Box::new(|c: &Value| {
                let kind: Src = serde_json::from_value(c["src"].clone()).unwrap();
                let ops: Vec<IOp> = serde_json::from_value(c["ops"].clone()).unwrap();
                run(|| iter_case(kind, c["n"].as_u64().unwrap() as usize, &ops), true)
            }),
        },
    ];
    explore::run_main(CheckDef {
        property: "C15",
        level: "model_checking",
        assumptions: vec!["sequence lengths and history depths above the bounds are not covered".into()],
        sections,
        no_isolation: false,
    });
}
