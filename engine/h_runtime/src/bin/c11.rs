//! C11 — CVec is observationally a Vec.
//! History exploration of the real `cglue::vec::CVec` in lock-step with a `Vec` reference model.

use cglue::vec::CVec;
use explore::driver::{CheckDef, Section};
use explore::{digest, hist, CaseOut, Cx, HistSut, StepOut, Tier};
use h_runtime::views::CVecView;
use h_runtime::{alloc_violation, guarded, quiet_panics};
use instr::{alloc, Dc, DcZst, DropScope};
use serde::{Deserialize, Serialize};
use serde_json::Value;
use std::cell::Cell;

#[derive(Clone, Copy, Debug, Serialize, Deserialize, PartialEq, Eq, Hash)]
enum Op {
    /// CVec::default()
    Default,
    /// CVec::from(vec with n elements and exact capacity)
    FromExact(usize),
    /// CVec::from(vec with n elements and capacity n + spare)
    FromSpare(usize, usize),
    Push,
    Pop,
    Insert(usize),
    Remove(usize),
    Reserve(usize),
    /// clone, continue on the clone, drop the source
    CloneSwap,
    /// `dst.clone_from(&src)` into an existing vector of 0 / len + 1 / len + 3 elements, continue on dst, drop the source
    CloneFromSwap(usize),
    /// element write through DerefMut
    Write(usize),
    /// read len/is_empty/capacity/as_ptr/Debug through the accessors
    Inspect,
    /// clone() while the k-th element's Clone panics (element types that support it): like Vec, the partial clone is
    /// cleaned up (every element cloned so far dropped once), the source is untouched
    ClonePanic(usize),
}

trait Elem: 'static + Sized {
    const NAME: &'static str;
    fn make(v: u64) -> Self;
    fn val(&self) -> u64;
    fn dup(&self) -> Self;
    fn id(&self) -> Option<usize> {
        None
    }
    /// does this element type have a Clone that can be armed to panic?
    const PANICKY: bool = false;
    /// arm: the (k+1)-th Clone::clone from now on panics; disarm with None
    fn arm_clone_panic(_k: Option<usize>) {}
    /// value of a clone of an element whose value is `v` (identity unless Clone is not a bitwise copy)
    fn cloned_val(v: u64) -> u64 {
        v
    }
    /// extra per-step accounting for element types that count themselves (zero-sized with Drop)
    fn live_check(_in_vec: usize) -> Result<(), String> {
        Ok(())
    }
}
/// zero-sized element with a destructor: constructions and drops are counted globally per thread
impl Elem for DcZst {
    const NAME: &'static str = "zst_drop";
    fn make(_: u64) -> Self {
        DcZst::new()
    }
    fn val(&self) -> u64 {
        0
    }
    fn dup(&self) -> Self {
        DcZst::new()
    }
    fn live_check(in_vec: usize) -> Result<(), String> {
        let (n, d) = DcZst::stats();
        if n - d != in_vec as u64 {
            return Err(format!("{} zero-sized elements constructed, {} dropped, {} in the vector", n, d, in_vec));
        }
        Ok(())
    }
}
impl Elem for u8 {
    const NAME: &'static str = "u8";
    fn make(v: u64) -> Self {
        v as u8
    }
    fn val(&self) -> u64 {
        *self as u64
    }
    fn dup(&self) -> Self {
        *self
    }
}
impl Elem for u64 {
    const NAME: &'static str = "u64";
    fn make(v: u64) -> Self {
        v
    }
    fn val(&self) -> u64 {
        *self
    }
    fn dup(&self) -> Self {
        *self
    }
}
/// plain data without a destructor whose `Clone` is NOT a bitwise copy (it bumps a generation): a vector clone has
/// to go through `T::clone` for every element
struct Gen {
    v: u64,
    gen: u64,
}
impl Clone for Gen {
    fn clone(&self) -> Self {
        Gen { v: self.v, gen: self.gen + 1 }
    }
}
impl Elem for Gen {
    const NAME: &'static str = "clone_generation";
    fn make(v: u64) -> Self {
        Gen { v, gen: 0 }
    }
    fn val(&self) -> u64 {
        self.v + 1_000_000 * self.gen
    }
    fn dup(&self) -> Self {
        Gen { v: self.v, gen: self.gen }
    }
    fn cloned_val(v: u64) -> u64 {
        v + 1_000_000
    }
}
thread_local! {
    static PANIC_IN: Cell<Option<usize>> = const { Cell::new(None) };
}
/// drop-counted element whose Clone can be armed to panic after k successful clones
struct Pc(Dc);
impl Clone for Pc {
    fn clone(&self) -> Self {
        let left = PANIC_IN.with(|c| c.get());
        if let Some(k) = left {
            if k == 0 {
                PANIC_IN.with(|c| c.set(None));
                panic!("armed Clone::clone");
            }
            PANIC_IN.with(|c| c.set(Some(k - 1)));
        }
        Pc(self.0.clone())
    }
}
impl Elem for Pc {
    const NAME: &'static str = "panicking_clone";
    const PANICKY: bool = true;
    fn arm_clone_panic(k: Option<usize>) {
        PANIC_IN.with(|c| c.set(k));
    }
    fn make(v: u64) -> Self {
        Pc(Dc::new(v))
    }
    fn val(&self) -> u64 {
        self.0.val
    }
    fn dup(&self) -> Self {
        Pc(self.0.clone())
    }
    fn id(&self) -> Option<usize> {
        Some(self.0.id)
    }
}
/// zero-sized element: all values are equal, only counts matter
#[derive(Clone)]
struct Z;
impl Elem for Z {
    const NAME: &'static str = "zst";
    fn make(_: u64) -> Self {
        Z
    }
    fn val(&self) -> u64 {
        0
    }
    fn dup(&self) -> Self {
        Z
    }
}
impl Elem for Dc {
    const NAME: &'static str = "dropcounter";
    fn make(v: u64) -> Self {
        Dc::new(v)
    }
    fn val(&self) -> u64 {
        self.val
    }
    fn dup(&self) -> Self {
        self.clone()
    }
    fn id(&self) -> Option<usize> {
        Some(self.id)
    }
}
/// 24-byte element with 8-byte alignment and heap state
struct Fat {
    a: u64,
    b: Box<u64>,
    c: u8,
}
impl Elem for Fat {
    const NAME: &'static str = "fat_heap";
    fn make(v: u64) -> Self {
        Fat { a: v, b: Box::new(!v), c: v as u8 }
    }
    fn val(&self) -> u64 {
        if *self.b != !self.a || self.c != self.a as u8 {
            u64::MAX
        } else {
            self.a
        }
    }
    fn dup(&self) -> Self {
        Fat::make(self.a)
    }
}

// `Clone` is needed for CVec::clone
impl Clone for Fat {
    fn clone(&self) -> Self {
        self.dup()
    }
}

thread_local! {
    static RESERVE_CALLS: Cell<u64> = const { Cell::new(0) };
    static DROP_CALLS: Cell<u64> = const { Cell::new(0) };
    static DROP_ARGS: Cell<(usize, usize, usize)> = const { Cell::new((0, 0, 0)) };
    static ORIG_RESERVE: Cell<usize> = const { Cell::new(0) };
    static ORIG_DROP: Cell<usize> = const { Cell::new(0) };
}

extern "C" fn tramp_reserve<T>(v: *mut CVecView<T>, n: usize) -> usize {
    RESERVE_CALLS.with(|c| c.set(c.get() + 1));
    let orig: extern "C" fn(*mut CVecView<T>, usize) -> usize = unsafe { std::mem::transmute(ORIG_RESERVE.with(|c| c.get())) };
    orig(v, n)
}

unsafe extern "C" fn tramp_drop<T>(data: *mut T, len: usize, cap: usize) {
    DROP_CALLS.with(|c| c.set(c.get() + 1));
    DROP_ARGS.with(|c| c.set((data as usize, len, cap)));
    let orig: unsafe extern "C" fn(*mut T, usize, usize) = std::mem::transmute(ORIG_DROP.with(|c| c.get()));
    orig(data, len, cap)
}

/// Replace the function pointers stored in the vector by counting trampolines (through the C view).
fn install<T>(cv: &mut CVec<T>) -> Result<(), (String, String)> {
    assert_eq!(std::mem::size_of::<CVec<T>>(), std::mem::size_of::<CVecView<T>>());
    let view = unsafe { &mut *(cv as *mut CVec<T> as *mut CVecView<T>) };
    let (r, d) = match (view.reserve_fn, view.drop_fn) {
        (Some(r), Some(d)) => (r, d),
        _ => return Err(("vec:null_fn".into(), "CVec holds a null reserve_fn/drop_fn".into())),
    };
    ORIG_RESERVE.with(|c| c.set(r as usize));
    ORIG_DROP.with(|c| c.set(d as usize));
    view.reserve_fn = Some(tramp_reserve::<T>);
    view.drop_fn = Some(tramp_drop::<T>);
    Ok(())
}

struct Sut<E: Elem> {
    max_len: usize,
    /// size class of the allocator while the history runs: 0 = every growth relocates the buffer,
    /// n = growth inside an n-byte class keeps the buffer address (in-place realloc)
    class: usize,
    _p: std::marker::PhantomData<fn() -> E>,
}

fn rank_pattern(vals: &[u64]) -> Vec<u8> {
    let mut sorted: Vec<u64> = vals.to_vec();
    sorted.sort();
    sorted.dedup();
    vals.iter().map(|v| sorted.binary_search(v).unwrap() as u8).collect()
}

impl<E: Elem + Clone> Sut<E> {
    fn enabled(&self, model: Option<&Vec<u64>>) -> Vec<Op> {
        let mut v = Vec::new();
        match model {
            None => {
                v.push(Op::Default);
                for n in 0..=2 {
                    v.push(Op::FromExact(n));
                }
                v.push(Op::FromSpare(0, 3));
                v.push(Op::FromSpare(2, 1));
                // several KiB of unused capacity
                v.push(Op::FromSpare(2, 5000));
            }
            Some(m) => {
                let len = m.len();
                if len < self.max_len {
                    v.push(Op::Push);
                }
                v.push(Op::Pop);
                for i in 0..=len + 1 {
                    if len < self.max_len || i > len {
                        v.push(Op::Insert(i));
                    }
                }
                for i in 0..=len {
                    v.push(Op::Remove(i));
                }
                for k in [0usize, 1, 5] {
                    v.push(Op::Reserve(k));
                }
                v.push(Op::CloneSwap);
                for k in 0..3 {
                    v.push(Op::CloneFromSwap(k));
                }
                if E::PANICKY {
                    for k in 0..len {
                        v.push(Op::ClonePanic(k));
                    }
                }
                for i in 0..len {
                    v.push(Op::Write(i));
                }
                v.push(Op::Inspect);
            }
        }
        v
    }

    /// The whole case; every divergence is returned as (signature, description).
    fn exec(&self, hist: &[Op], obs: &mut Vec<u64>) -> Result<(u64, Option<Vec<u64>>), (String, String)> {
        let drops = DropScope::new();
        DcZst::reset();
        RESERVE_CALLS.with(|c| c.set(0));
        DROP_CALLS.with(|c| c.set(0));
        // leaked (not dropped) when a violation makes us return early
        let mut cv: std::mem::ManuallyDrop<Option<CVec<E>>> = std::mem::ManuallyDrop::new(None);
        let mut model: Option<Vec<u64>> = None;
        let mut fresh = 0u64;
        let mut next_val = || {
            fresh += 1;
            fresh
        };
        for (step, op) in hist.iter().enumerate() {
            let at = |what: &str| format!("step {} {:?}: {}", step, op, what);
            let reserve_before = RESERVE_CALLS.with(|c| c.get());
            let cap_before = cv.as_ref().map(|c| c.capacity());
            let ptr_before = cv.as_ref().map(|c| c.as_ptr() as usize);
            let mut may_realloc_without_reserve = false;
            match *op {
                Op::Default => {
                    let mut c = CVec::<E>::default();
                    install(&mut c)?;
                    *cv = Some(c);
                    model = Some(Vec::new());
                    may_realloc_without_reserve = true;
                }
                Op::FromExact(n) | Op::FromSpare(n, _) => {
                    let spare = if let Op::FromSpare(_, s) = *op { s } else { 0 };
                    let mut v: Vec<E> = Vec::with_capacity(n + spare);
                    let mut m = Vec::new();
                    for _ in 0..n {
                        let x = next_val();
                        v.push(E::make(x));
                        m.push(E::make(x).val());
                    }
                    if spare == 0 {
                        v.shrink_to_fit();
                    }
                    let l = v.len();
                    let mut c2 = CVec::from(v);
                    // whether the Vec's buffer is adopted as it is or re-fitted first is the implementation's choice; the
                    // capacity it reports must be that of the block it holds (checked by the allocator when it is grown / freed)
                    if c2.len() != l || c2.capacity() < l {
                        bail2("vec:from", at(&format!("From<Vec> of {} element(s): len {} capacity {}", l, c2.len(), c2.capacity())))?;
                    }
                    install(&mut c2)?;
                    *cv = Some(c2);
                    model = Some(m);
                    may_realloc_without_reserve = true;
                }
                Op::Push => {
                    let x = next_val();
                    cv.as_mut().unwrap().push(E::make(x));
                    model.as_mut().unwrap().push(E::make(x).val());
                }
                Op::Pop => {
                    let got = cv.as_mut().unwrap().pop().map(|e| e.val());
                    let want = model.as_mut().unwrap().pop();
                    if got != want {
                        bail2("vec:pop", at(&format!("pop returned {:?}, Vec returned {:?}", got, want)))?;
                    }
                }
                Op::Insert(i) => {
                    let x = next_val();
                    let m = model.as_mut().unwrap();
                    let c = cv.as_mut().unwrap();
                    let snapshot: Vec<u64> = c.iter().map(|e| e.val()).collect();
                    let r = guarded(|| c.insert(i, E::make(x)));
                    if i <= m.len() {
                        if r.is_err() {
                            bail2("vec:insert_panic", at("in-range insert panicked"))?;
                        }
                        m.insert(i, E::make(x).val());
                    } else {
                        if r.is_ok() {
                            bail2("vec:insert_oob", at("out-of-range insert did not panic"))?;
                        }
                        let now: Vec<u64> = c.iter().map(|e| e.val()).collect();
                        if now != snapshot || c.capacity() != cap_before.unwrap() {
                            bail2("vec:insert_oob_modified", at("out-of-range insert modified the vector"))?;
                        }
                    }
                }
                Op::Remove(i) => {
                    let m = model.as_mut().unwrap();
                    let c = cv.as_mut().unwrap();
                    let snapshot: Vec<u64> = c.iter().map(|e| e.val()).collect();
                    let r = guarded(|| c.remove(i).val());
                    if i < m.len() {
                        let want = m.remove(i);
                        match r {
                            Ok(got) if got == want => {}
                            Ok(got) => bail2("vec:remove", at(&format!("remove returned {} expected {}", got, want)))?,
                            Err(()) => bail2("vec:remove_panic", at("in-range remove panicked"))?,
                        }
                    } else {
                        if r.is_ok() {
                            bail2("vec:remove_oob", at("out-of-range remove did not panic"))?;
                        }
                        let now: Vec<u64> = c.iter().map(|e| e.val()).collect();
                        if now != snapshot || c.capacity() != cap_before.unwrap() {
                            bail2("vec:remove_oob_modified", at("out-of-range remove modified the vector"))?;
                        }
                    }
                }
                Op::Reserve(k) => {
                    let c = cv.as_mut().unwrap();
                    c.reserve(k);
                    if c.capacity() - c.len() < k {
                        bail2("vec:reserve", at(&format!("after reserve({}) capacity {} len {}", k, c.capacity(), c.len())))?;
                    }
                }
                Op::CloneSwap | Op::CloneFromSwap(_) => {
                    let src = cv.take().unwrap();
                    let mut cl = if let Op::CloneFromSwap(k) = *op {
                        let n = match k { 0 => 0, 1 => src.len() + 1, _ => src.len() + 3 };
                        let mut dst: CVec<E> = CVec::from((0..n).map(|_| E::make(next_val())).collect::<Vec<E>>());
                        dst.clone_from(&src);
                        dst
                    } else {
                        src.clone()
                    };
                    // source must be untouched by clone
                    let sv: Vec<u64> = src.iter().map(|e| e.val()).collect();
                    if &sv != model.as_ref().unwrap() {
                        bail2("vec:clone_src", at("clone modified its source"))?;
                    }
                    if cl.as_ptr() == src.as_ptr() && src.capacity() != 0 && std::mem::size_of::<E>() != 0 {
                        bail2("vec:clone_alias", at("clone shares the buffer with its source"))?;
                    }
                    let d0 = DROP_CALLS.with(|c| c.get());
                    let (sp, sl, sc) = (src.as_ptr() as usize, src.len(), src.capacity());
                    drop(src);
                    if DROP_CALLS.with(|c| c.get()) != d0 + 1 || DROP_ARGS.with(|c| c.get()) != (sp, sl, sc) {
                        bail2("vec:drop_fn", at("dropping the source did not call the stored drop_fn once with (data,len,capacity)"))?;
                    }
                    install(&mut cl)?;
                    *cv = Some(cl);
                    // the clone holds clones of the elements
                    for x in model.as_mut().unwrap().iter_mut() {
                        *x = E::cloned_val(*x);
                    }
                    may_realloc_without_reserve = true;
                }
                Op::Write(i) => {
                    let x = next_val();
                    let c = cv.as_mut().unwrap();
                    c[i] = E::make(x);
                    model.as_mut().unwrap()[i] = E::make(x).val();
                }
                Op::ClonePanic(k) => {
                    let c = cv.as_ref().unwrap();
                    let first_new = drops.ids();
                    E::arm_clone_panic(Some(k));
                    let r = std::panic::catch_unwind(std::panic::AssertUnwindSafe(|| c.clone()));
                    E::arm_clone_panic(None);
                    match r {
                        Ok(cl) => {
                            std::mem::forget(cl);
                            bail2("harness", at("the armed Clone did not panic"))?;
                        }
                        Err(_) => {}
                    }
                    // what the interrupted clone() created is gone again, each value exactly once (Vec::clone behaves so)
                    let counts = drops.counts();
                    for id in first_new..drops.ids() {
                        if counts[id] != 1 {
                            bail2("vec:clone_panic_cleanup", at(&format!("clone() interrupted by a panic in the {}-th element's Clone: element created as id {} was dropped {} time(s) (the {} clone(s) made before the panic must be dropped exactly once)", k, id, counts[id], k)))?;
                        }
                    }
                    if drops.ids() - first_new != k {
                        bail2("vec:clone_panic_cleanup", at(&format!("clone() interrupted at element {} created {} values", k, drops.ids() - first_new)))?;
                    }
                }
                Op::Inspect => {
                    let c = cv.as_mut().unwrap();
                    let m = model.as_ref().unwrap();
                    if c.len() != m.len() || c.is_empty() != m.is_empty() || c.as_ptr() != c.as_mut_ptr() as *const E {
                        bail2("vec:accessors", at("len/is_empty/as_ptr disagree"))?;
                    }
                }
            }
            // ---- oracle after every step
            let c = cv.as_ref().unwrap();
            let m = model.as_ref().unwrap();
            let now: Vec<u64> = c.iter().map(|e| e.val()).collect();
            if &now != m || c.len() != m.len() {
                bail2("vec:contents", at(&format!("contents {:?} (len {}) but Vec has {:?}", now, c.len(), m)))?;
            }
            if c.capacity() < c.len() {
                bail2("vec:capacity", at(&format!("capacity {} < len {}", c.capacity(), c.len())))?;
            }
            if !may_realloc_without_reserve {
                let changed = Some(c.capacity()) != cap_before || (Some(c.as_ptr() as usize) != ptr_before);
                let reserved = RESERVE_CALLS.with(|c| c.get()) != reserve_before;
                if changed && !reserved {
                    bail2("vec:grow_bypass", at("buffer/capacity changed without a call to the stored reserve_fn"))?;
                }
            }
            // element drop accounting
            let mut live_ids = 0usize;
            for e in c.iter() {
                if let Some(id) = e.id() {
                    live_ids += 1;
                    if drops.count(id) != 0 {
                        bail2("vec:elem_dropped_while_live", at(&format!("element id {} is in the vector but was dropped {} time(s)", id, drops.count(id))))?;
                    }
                }
            }
            let counts = drops.counts();
            if counts.iter().any(|&c| c > 1) {
                bail2("vec:elem_double_drop", at(&format!("drop counts {:?}", counts)))?;
            }
            if E::NAME == "dropcounter" {
                let alive = counts.iter().filter(|&&c| c == 0).count();
                if alive != live_ids {
                    bail2("vec:elem_leak", at(&format!("{} payloads alive but {} in the vector (counts {:?})", alive, live_ids, counts)))?;
                }
            }
            if let Err(m) = E::live_check(c.len()) {
                bail2("vec:zst_elem_drops", at(&m))?;
            }
            if alloc::events_so_far() != 0 {
                bail2("alloc:event", at("allocator event"))?;
            }
            obs.push(digest(&(now, c.capacity() as u64)));
        }
        // ---- canonical key (before teardown)
        let key = match (&*cv, &model) {
            (Some(c), Some(m)) => digest(&(E::NAME, rank_pattern(m), c.len(), c.capacity())),
            _ => digest(&(E::NAME, "root")),
        };
        // ---- teardown
        if let Some(c) = cv.take() {
            let d0 = DROP_CALLS.with(|c| c.get());
            let (p, l, cap) = (c.as_ptr() as usize, c.len(), c.capacity());
            drop(c);
            if DROP_CALLS.with(|c| c.get()) != d0 + 1 {
                return Err(("vec:drop_fn".into(), "final drop did not call the stored drop_fn exactly once".into()));
            }
            if DROP_ARGS.with(|c| c.get()) != (p, l, cap) {
                return Err(("vec:drop_fn_args".into(), format!("drop_fn called with {:?}, vector had (data,{},{})", DROP_ARGS.with(|c| c.get()), l, cap)));
            }
        }
        if let Err(m) = E::live_check(0) {
            return Err(("vec:zst_elem_drops".into(), format!("after teardown: {}", m)));
        }
        let bad = drops.not_equal(1);
        if !bad.is_empty() {
            return Err(("vec:elem_drop_count".into(), format!("after teardown payload ids {:?} have drop counts {:?}", bad, drops.counts())));
        }
        // the model is handed out for computing the enabled operations; it was allocated inside the
        // window, so re-create it untracked
        let m = alloc::untracked(|| model.as_ref().map(|m| m.clone()));
        drop(model);
        Ok((key, m))
    }
}

fn bail2(sig: &str, desc: String) -> Result<(), (String, String)> {
    Err((sig.to_string(), desc))
}

impl<E: Elem + Clone> HistSut for Sut<E> {
    type Op = Op;
    fn run(&self, hist: &[Op]) -> StepOut<Op> {
        // everything that outlives the allocation window is allocated before it / untracked
        let mut obs = Vec::with_capacity(hist.len() + 1);
        alloc::set_size_class(self.class);
        alloc::begin();
        let r = self.exec(hist, &mut obs);
        let rep = alloc::end();
        alloc::set_size_class(0);
        let obs_d = digest(&obs);
        match r {
            Err(v) => StepOut { key: 0, enabled: vec![], obs: obs_d, violation: Some(v) },
            Ok((key, model)) => StepOut { key, enabled: self.enabled(model.as_ref()), obs: obs_d, violation: alloc_violation(&rep) },
        }
    }
}

fn replay_with<E: Elem + Clone>(case: &Value, max_len: usize, class: usize) -> CaseOut {
    let hist: Vec<Op> = serde_json::from_value(case["history"].clone()).expect("history");
    let sut = Sut::<E> { max_len, class, _p: Default::default() };
    let out = sut.run(&hist);
    CaseOut { obs: out.obs, nontrivial: true, violation: out.violation }
}

const CLASS: usize = 256;

fn section<E: Elem + Clone>(name: &'static str) -> Section {
    section_with::<E>(name, 0)
}

fn section_with<E: Elem + Clone>(name: &'static str, class: usize) -> Section {
    Section {
        name,
        explore: Box::new(move |cx: &Cx| {
            let (max_len, full_d, bfs_d) = match cx.tier {
                Tier::Quick => (4, 5, 7),
                Tier::Thorough => (5, 6, 9),
            };
            let sut = Sut::<E> { max_len, class, _p: Default::default() };
            let pre = if class != 0 { format!("allocator carves blocks in {}-byte classes and grows them in place (realloc keeps the address while the new size fits the class); ", class) } else { String::new() };
            cx.rule(name, &format!("{}histories over {{default, from(Vec exact / spare of a few elements / 5000 spare elements), push, pop, insert(i<=len+1), remove(i<=len), reserve(0|1|5), clone-and-swap, clone_from into an empty / longer / much longer vector and swap, clone with a panicking element Clone (element types that support it), write(i), inspect}} on CVec<{}> with len <= {}; each history re-executed on a fresh real CVec in lock-step with Vec; non-trivial = non-empty history; distinct = distinct observation digests (contents+capacity after every step)", pre, E::NAME, max_len));
            hist::full(&sut, full_d, cx, name);
            let bname: &'static str = Box::leak(format!("{}_bfs", name).into_boxed_str());
            cx.rule(bname, "same alphabet, BFS with dedup on (element type, rank pattern of contents, len, capacity)");
            hist::bfs(&sut, bfs_d, cx, bname, 2_000_000);
        }),
        replay: Box::new(move |case| replay_with::<E>(case, 6, class)),
    }
}

// ---- vectors destroyed by the unwinder: "every element is dropped exactly once" also when the vector is a local (or a field of a
// local, or is dropped from inside another destructor) of a frame that panics
const UNWIND_HOWS: [&str; 5] = ["explicit_panic", "insert_out_of_range", "remove_out_of_range", "field_of_local", "dropped_by_a_destructor"];

fn unwind_case(n: usize, how: usize, spare: usize) -> Result<u64, (String, String)> {
    struct Holder {
        v: Option<CVec<Dc>>,
    }
    struct Outer {
        v: Option<CVec<Dc>>,
    }
    impl Drop for Outer {
        fn drop(&mut self) {
            // the vector is released while this destructor runs (during the unwinding)
            drop(self.v.take());
        }
    }
    let d = DropScope::new();
    let (live0, _) = alloc::live();
    let r = guarded(|| {
        let mut src: Vec<Dc> = Vec::with_capacity(n + spare);
        for i in 0..n {
            src.push(Dc::new(i as u64));
        }
        let mut cv = CVec::from(src);
        match how {
            0 => panic!("boom"),
            1 => cv.insert(n + 1, Dc::new(100)),
            2 => {
                let _ = cv.remove(n);
            }
            3 => {
                let _h = Holder { v: Some(cv) };
                panic!("boom");
            }
            _ => {
                let _o = Outer { v: Some(cv) };
                panic!("boom");
            }
        }
        drop(cv);
    });
    if r.is_ok() {
        return Err(("vec:unwind_no_panic".into(), format!("{} on a vector of {} did not panic", UNWIND_HOWS[how], n)));
    }
    let bad = d.not_equal(1);
    if !bad.is_empty() {
        return Err(("vec:unwind_drops".into(), format!("a CVec of {} elements (spare capacity {}) destroyed by the unwinder ({}): elements {:?} were not dropped exactly once, drop counts {:?}", n, spare, UNWIND_HOWS[how], bad, d.counts())));
    }
    let (live1, _) = alloc::live();
    if live1 != live0 {
        return Err(("vec:unwind_leak".into(), format!("{} allocation(s) still live after a CVec of {} elements was destroyed by the unwinder ({})", live1 - live0, n, UNWIND_HOWS[how])));
    }
    Ok(digest(&(n, how, spare, d.counts())))
}

fn run_unwind(n: usize, how: usize, spare: usize) -> CaseOut {
    alloc::begin();
    let r = guarded(|| unwind_case(n, how, spare));
    let rep = alloc::end();
    match r {
        Err(()) => CaseOut::bad("panic", "panicked"),
        Ok(Err(v)) => CaseOut { obs: 0, nontrivial: true, violation: Some(v) },
        Ok(Ok(obs)) => CaseOut { obs, nontrivial: n > 0, violation: alloc_violation(&rep) },
    }
}

fn unwind_section() -> Section {
    Section {
        name: "unwind_drop",
        explore: Box::new(|cx: &Cx| {
            let nmax = cx.tier.pick(5, 9);
            cx.rule("unwind_drop", &format!("a CVec of 0..={} drop-counting elements (exact capacity / 3 spare) that is a local, a field of a local, or owned by a value whose destructor releases it, of a frame that panics (explicit panic, out-of-range insert, out-of-range remove) and is destroyed by the unwinder; the panic is caught above: every element dropped exactly once, the buffer freed, allocator balanced", nmax));
            for n in 0..=nmax {
                for how in 0..UNWIND_HOWS.len() {
                    for spare in [0usize, 3] {
                        let case = serde_json::json!({"n": n, "how": how, "how_name": UNWIND_HOWS[how], "spare": spare});
                        cx.eval("unwind_drop", &case, || run_unwind(n, how, spare));
                    }
                }
            }
        }),
        replay: Box::new(|c| {
            let g = |k: &str| c[k].as_u64().unwrap() as usize;
            run_unwind(g("n"), g("how"), g("spare"))
        }),
    }
}

fn main() {
    quiet_panics();
    let mut sections = vec![section::<u64>("u64"), section::<u8>("u8"), section::<Z>("zst"), section::<Dc>("dropcounter"), section::<DcZst>("zst_drop"), section::<Fat>("fat_heap"),
        section::<Gen>("clone_generation"), section::<Pc>("panicking_clone"), section_with::<u64>("u64_inplace", CLASS), section_with::<Dc>("dropcounter_inplace", CLASS), section_with::<Fat>("fat_heap_inplace", CLASS)];
    // the *_bfs sections replay through the same function
    let extra: Vec<Section> = vec![
        Section { name: "u64_bfs", explore: Box::new(|_| {}), replay: Box::new(|c| replay_with::<u64>(c, 6, 0)) },
        Section { name: "u8_bfs", explore: Box::new(|_| {}), replay: Box::new(|c| replay_with::<u8>(c, 6, 0)) },
        Section { name: "zst_bfs", explore: Box::new(|_| {}), replay: Box::new(|c| replay_with::<Z>(c, 6, 0)) },
        Section { name: "dropcounter_bfs", explore: Box::new(|_| {}), replay: Box::new(|c| replay_with::<Dc>(c, 6, 0)) },
        Section { name: "zst_drop_bfs", explore: Box::new(|_| {}), replay: Box::new(|c| replay_with::<DcZst>(c, 6, 0)) },
        Section { name: "fat_heap_bfs", explore: Box::new(|_| {}), replay: Box::new(|c| replay_with::<Fat>(c, 6, 0)) },
        Section { name: "panicking_clone_bfs", explore: Box::new(|_| {}), replay: Box::new(|c| replay_with::<Pc>(c, 6, 0)) },
        Section { name: "clone_generation_bfs", explore: Box::new(|_| {}), replay: Box::new(|c| replay_with::<Gen>(c, 6, 0)) },
        Section { name: "u64_inplace_bfs", explore: Box::new(|_| {}), replay: Box::new(|c| replay_with::<u64>(c, 6, CLASS)) },
        Section { name: "dropcounter_inplace_bfs", explore: Box::new(|_| {}), replay: Box::new(|c| replay_with::<Dc>(c, 6, CLASS)) },
        Section { name: "fat_heap_inplace_bfs", explore: Box::new(|_| {}), replay: Box::new(|c| replay_with::<Fat>(c, 6, CLASS)) },
    ];
    sections.extend(extra);
    sections.push(unwind_section());
    explore::run_main(CheckDef {
        property: "C11",
        level: "model_checking",
        assumptions: vec![
            "std::vec::Vec is the reference model".into(),
            "operation sequences longer than the depth bound and lengths above the length bound are not covered".into(),
            "the property text's 'random for long ones' is not done: this check enumerates only".into(),
        ],
        sections,
        no_isolation: false,
    });
}
