//! C10 — CArc / CArcSome behave as Arc / Option<Arc> (sequential histories; the concurrent half is
//! the loom harness `h_loom_arc`).

use cglue::arc::{CArc, CArcSome};
use cglue::trait_group::{c_void, Opaquable};
use explore::driver::{CheckDef, Section};
use explore::{digest, hist, CaseOut, Cx, HistSut, StepOut, Tier};
use h_runtime::views::CArcView;
use h_runtime::{alloc_violation, quiet_panics};
use instr::{alloc, DcHeap, DropScope};
use serde::{Deserialize, Serialize};
use serde_json::Value;
use std::sync::Arc;

/// alignment marker of the payload: the data offset inside the Arc allocation depends on it
trait Al: Default + 'static {
    const NAME: &'static str;
}
impl Al for () {
    const NAME: &'static str = "align8";
}
#[derive(Default)]
#[repr(align(64))]
struct A64;
impl Al for A64 {
    const NAME: &'static str = "align64";
}

struct P<A> {
    dc: DcHeap,
    tag: u64,
    _a: A,
}

impl<A: Al> P<A> {
    fn new(tag: u64) -> Self {
        P { dc: DcHeap::new(tag), tag, _a: A::default() }
    }
}

#[derive(Clone, Copy, Debug, Serialize, Deserialize, PartialEq, Eq, Hash, PartialOrd, Ord)]
enum Kind {
    Arc,
    Some,
    OArc,
    OSome,
    /// opaque handles assembled by "another module": same layout, that module's own clone / drop functions
    FArc,
    FSome,
}

enum H<A: 'static> {
    Arc(CArc<P<A>>),
    Some(CArcSome<P<A>>),
    OArc(CArc<c_void>),
    OSome(CArcSome<c_void>),
    FArc(CArc<c_void>),
    FSome(CArcSome<c_void>),
}

thread_local! {
    static F_CLONES: std::cell::Cell<u64> = const { std::cell::Cell::new(0) };
    static F_DROPS: std::cell::Cell<u64> = const { std::cell::Cell::new(0) };
}
/// the other module's clone function: same effect as the library's, another address, counted
unsafe extern "C" fn f_clone<A: Al>(p: *const std::ffi::c_void) -> *const std::ffi::c_void {
    let _ = F_CLONES.try_with(|c| c.set(c.get() + 1));
    if !p.is_null() {
        Arc::increment_strong_count(p as *const P<A>);
    }
    p
}
unsafe extern "C" fn f_drop<A: Al>(p: *const std::ffi::c_void) {
    let _ = F_DROPS.try_with(|c| c.set(c.get() + 1));
    if !p.is_null() {
        Arc::decrement_strong_count(p as *const P<A>);
    }
}

impl<A: Al> H<A> {
    fn kind(&self) -> Kind {
        match self {
            H::Arc(_) => Kind::Arc,
            H::Some(_) => Kind::Some,
            H::OArc(_) => Kind::OArc,
            H::OSome(_) => Kind::OSome,
            H::FArc(_) => Kind::FArc,
            H::FSome(_) => Kind::FSome,
        }
    }
    fn view(&self) -> &CArcView {
        unsafe {
            match self {
                H::Arc(h) => &*(h as *const _ as *const CArcView),
                H::Some(h) => &*(h as *const _ as *const CArcView),
                H::OArc(h) => &*(h as *const _ as *const CArcView),
                H::OSome(h) => &*(h as *const _ as *const CArcView),
                H::FArc(h) => &*(h as *const _ as *const CArcView),
                H::FSome(h) => &*(h as *const _ as *const CArcView),
            }
        }
    }
    /// instance pointer as the *Rust API* reports it
    fn api_ptr(&self) -> usize {
        match self {
            H::Arc(h) => h.as_ref().map(|r| r as *const P<A> as usize).unwrap_or(0),
            H::Some(h) => &**h as *const P<A> as usize,
            H::OArc(h) | H::FArc(h) => h.as_ref().map(|r| r as *const c_void as usize).unwrap_or(0),
            H::OSome(h) | H::FSome(h) => h.as_ref() as *const c_void as usize,
        }
    }
}

#[derive(Clone, Copy, Debug, Serialize, Deserialize, PartialEq, Eq, Hash)]
enum Op {
    /// CArc::from(value) / CArcSome::from(value): a new allocation
    NewValue(bool),
    /// From<Arc>: `None` = a new allocation, `Some(a)` = another handle to allocation a; bool: CArcSome?
    FromArc(Option<usize>, bool),
    /// CArc::from(Some(arc)) for a new / existing allocation
    FromOptSome(Option<usize>),
    FromOptNone,
    Default,
    Clone(usize),
    Take(usize),
    Transpose(usize),
    IntoOpaque(usize),
    IntoArc(usize),
    Drop(usize),
    // --- extended alphabet (sections *_ext)
    /// an opaque handle to a new allocation, assembled through the published layout with the other module's functions
    NewForeign(bool),
    /// handles[i].clone_from(&handles[j]) (same static type)
    CloneFrom(usize, usize),
    /// the handle goes out of scope while a panic unwinds
    DropUnwinding(usize),
}

struct Sut<A> {
    max_handles: usize,
    max_allocs: usize,
    /// teardown order: false = handles first, then the retained Arcs (the payload goes with a std Arc);
    /// true = retained Arcs first, so that the LAST HANDLE of every allocation has to destroy the payload
    handles_last: bool,
    /// extended alphabet: foreign-assembled handles, clone_from, drops during unwinding
    ext: bool,
    _a: std::marker::PhantomData<fn() -> A>,
}

type V = Result<(), (String, String)>;

struct World<A: 'static> {
    retained: Vec<Arc<P<A>>>,
    payload_ids: Vec<usize>,
    handles: Vec<(H<A>, Option<usize>)>,
    ref_clone: usize,
    ref_drop: usize,
}

impl<A: Al> World<A> {
    fn new_alloc(&mut self) -> Arc<P<A>> {
        let tag = 100 + self.retained.len() as u64;
        let p = P::<A>::new(tag);
        self.payload_ids.push(p.dc.id);
        let a = Arc::new(p);
        self.retained.push(a.clone());
        a
    }
    /// retain an Arc for an allocation that was created inside cglue (From<T>), via the raw pointer
    fn adopt(&mut self, raw: usize) {
        unsafe {
            Arc::increment_strong_count(raw as *const P<A>);
            let a = Arc::from_raw(raw as *const P<A>);
            self.payload_ids.push(a.dc.id);
            self.retained.push(a);
        }
    }
    fn check(&self, drops: &DropScope, at: &dyn Fn(&str) -> String) -> V {
        for (a, r) in self.retained.iter().enumerate() {
            let n = self.handles.iter().filter(|(_, al)| *al == Some(a)).count();
            let sc = Arc::strong_count(r);
            if sc != 1 + n {
                return Err(("arc:count".into(), at(&format!("allocation {}: strong count {} but {} live handle(s) (+1 retained)", a, sc, n))));
            }
            if drops.count(self.payload_ids[a]) != 0 {
                return Err(("arc:early_drop".into(), at(&format!("payload of allocation {} dropped while handles exist", a))));
            }
        }
        for (i, (h, al)) in self.handles.iter().enumerate() {
            let v = h.view();
            match al {
                Some(a) => {
                    let want = Arc::as_ptr(&self.retained[*a]) as usize;
                    if h.api_ptr() != want || v.instance as usize != want {
                        return Err(("arc:deref".into(), at(&format!("handle {} ({:?}) does not point to allocation {}", i, h.kind(), a))));
                    }
                    if let H::Some(s) = h {
                        if s.tag != self.retained[*a].tag || s.dc.val() != self.retained[*a].tag {
                            return Err(("arc:deref_value".into(), at(&format!("handle {} reads a different value", i))));
                        }
                    }
                    let cf = v.clone_fn.map(|f| f as usize).unwrap_or(0);
                    let df = v.drop_fn.map(|f| f as usize).unwrap_or(0);
                    let (wc, wd) = if matches!(h.kind(), Kind::FArc | Kind::FSome) { (f_clone::<A> as usize, f_drop::<A> as usize) } else { (self.ref_clone, self.ref_drop) };
                    if cf != wc || df != wd {
                        return Err(("arc:fn_ptrs".into(), at(&format!("handle {} ({:?}) carries clone_fn/drop_fn {:#x}/{:#x}, the module that created what it refers to has {:#x}/{:#x}", i, h.kind(), cf, df, wc, wd))));
                    }
                }
                None => {
                    if h.api_ptr() != 0 || !v.instance.is_null() {
                        return Err(("arc:empty".into(), at(&format!("handle {} should be empty", i))));
                    }
                    // (which function pointers an empty handle carries is not part of the property:
                    // dropping/cloning it must be a no-op, which teardown and Clone/Drop operations check)
                }
            }
        }
        if alloc::events_so_far() != 0 {
            return Err(("alloc:event".into(), at("allocator event")));
        }
        Ok(())
    }
}

impl<A: Al> Sut<A> {
    fn enabled(&self, handles: &[(Kind, Option<usize>)], allocs: usize) -> Vec<Op> {
        let mut v = Vec::new();
        let room = handles.len() < self.max_handles;
        if room {
            if allocs < self.max_allocs {
                v.push(Op::NewValue(false));
                v.push(Op::NewValue(true));
                v.push(Op::FromArc(None, false));
                v.push(Op::FromArc(None, true));
                v.push(Op::FromOptSome(None));
            }
            for a in 0..allocs {
                v.push(Op::FromArc(Some(a), false));
                v.push(Op::FromArc(Some(a), true));
                v.push(Op::FromOptSome(Some(a)));
            }
            v.push(Op::FromOptNone);
            v.push(Op::Default);
            if self.ext && allocs < self.max_allocs {
                v.push(Op::NewForeign(false));
                v.push(Op::NewForeign(true));
            }
        }
        if self.ext {
            let class = |k: &Kind| match k {
                Kind::Arc => 0,
                Kind::Some => 1,
                Kind::OArc | Kind::FArc => 2,
                Kind::OSome | Kind::FSome => 3,
            };
            for (i, (ki, _)) in handles.iter().enumerate() {
                for (j, (kj, _)) in handles.iter().enumerate() {
                    if i != j && class(ki) == class(kj) {
                        v.push(Op::CloneFrom(i, j));
                    }
                }
                v.push(Op::DropUnwinding(i));
            }
        }
        for (i, (k, _al)) in handles.iter().enumerate() {
            if room {
                v.push(Op::Clone(i));
                if matches!(k, Kind::Arc | Kind::OArc | Kind::FArc) {
                    v.push(Op::Take(i));
                }
            }
            v.push(Op::Transpose(i));
            if matches!(k, Kind::Arc | Kind::Some) {
                v.push(Op::IntoOpaque(i));
            }
            if matches!(k, Kind::Some) {
                v.push(Op::IntoArc(i));
            }
            v.push(Op::Drop(i));
        }
        v
    }

    fn exec(&self, hist: &[Op], obs: &mut Vec<u64>) -> Result<(u64, Vec<(Kind, Option<usize>)>, usize), (String, String)> {
        let drops = DropScope::new();
        // reference function pointers: those of a handle created by this very instantiation
        let (ref_clone, ref_drop) = {
            let probe = H::Arc(CArc::<P<A>>::from(Arc::new(P::<A>::new(0))));
            let v = probe.view();
            (v.clone_fn.map(|f| f as usize).unwrap_or(0), v.drop_fn.map(|f| f as usize).unwrap_or(0))
        };
        let probe_ids = drops.ids();
        // on a violation the world is leaked, not dropped: running more of a broken implementation would only add noise / UB
        let mut w = std::mem::ManuallyDrop::new(World { retained: Vec::new(), payload_ids: Vec::new(), handles: Vec::new(), ref_clone, ref_drop });
        for (step, op) in hist.iter().enumerate() {
            let at = |what: &str| format!("step {} {:?}: {}", step, op, what);
            match *op {
                Op::NewValue(some) => {
                    let tag = 100 + w.retained.len() as u64;
                    let p = P::<A>::new(tag);
                    let h = if some { H::Some(CArcSome::from(p)) } else { H::Arc(CArc::from(p)) };
                    let raw = h.view().instance as usize;
                    if raw == 0 {
                        return Err(("arc:from_value".into(), at("From<T> produced an empty handle")));
                    }
                    w.adopt(raw);
                    let a = w.retained.len() - 1;
                    w.handles.push((h, Some(a)));
                }
                Op::FromArc(al, some) => {
                    let (arc, a) = match al {
                        None => (w.new_alloc(), w.retained.len() - 1),
                        Some(a) => (w.retained[a].clone(), a),
                    };
                    let h = if some { H::Some(CArcSome::from(arc)) } else { H::Arc(CArc::from(arc)) };
                    w.handles.push((h, Some(a)));
                }
                Op::FromOptSome(al) => {
                    let (arc, a) = match al {
                        None => (w.new_alloc(), w.retained.len() - 1),
                        Some(a) => (w.retained[a].clone(), a),
                    };
                    w.handles.push((H::Arc(CArc::from(Some(arc))), Some(a)));
                }
                Op::FromOptNone => w.handles.push((H::Arc(CArc::from(None::<Arc<P<A>>>)), None)),
                Op::Default => w.handles.push((H::Arc(CArc::default()), None)),
                Op::Clone(i) => {
                    let al = w.handles[i].1;
                    let c = match &w.handles[i].0 {
                        H::Arc(h) => H::Arc(h.clone()),
                        H::Some(h) => H::Some(h.clone()),
                        H::OArc(h) => H::OArc(h.clone()),
                        H::OSome(h) => H::OSome(h.clone()),
                        H::FArc(h) => H::FArc(h.clone()),
                        H::FSome(h) => H::FSome(h.clone()),
                    };
                    w.handles.push((c, al));
                }
                Op::Take(i) => {
                    let al = w.handles[i].1;
                    let t = match &mut w.handles[i].0 {
                        H::Arc(h) => H::Arc(h.take()),
                        H::OArc(h) => H::OArc(h.take()),
                        H::FArc(h) => H::FArc(h.take()),
                        _ => unreachable!(),
                    };
                    w.handles[i].1 = None;
                    w.handles.push((t, al));
                }
                Op::Transpose(i) => {
                    let (h, al) = w.handles.remove(i);
                    let nh = match h {
                        H::Arc(h) => h.transpose().map(H::Some),
                        H::OArc(h) => h.transpose().map(H::OSome),
                        H::Some(h) => Some(H::Arc(h.transpose())),
                        H::OSome(h) => Some(H::OArc(h.transpose())),
                        H::FArc(h) => h.transpose().map(H::FSome),
                        H::FSome(h) => Some(H::FArc(h.transpose())),
                    };
                    match (nh, al) {
                        (Some(h), Some(_)) => w.handles.insert(i, (h, al)),
                        (None, None) => {}
                        (Some(h), None) => {
                            std::mem::forget(h);
                            return Err(("arc:transpose".into(), at("transposing an empty CArc produced Some")));
                        }
                        (None, Some(_)) => return Err(("arc:transpose".into(), at("transposing a non-empty CArc produced None"))),
                    }
                }
                Op::IntoOpaque(i) => {
                    let (h, al) = w.handles.remove(i);
                    let nh = match h {
                        H::Arc(h) => H::OArc(h.into_opaque()),
                        H::Some(h) => H::OSome(h.into_opaque()),
                        _ => unreachable!(),
                    };
                    w.handles.insert(i, (nh, al));
                }
                Op::IntoArc(i) => {
                    let (h, al) = w.handles.remove(i);
                    let a = al.unwrap();
                    match h {
                        H::Some(h) => {
                            let arc = unsafe { h.into_arc() };
                            if !Arc::ptr_eq(&arc, &w.retained[a]) {
                                std::mem::forget(arc);
                                return Err(("arc:into_arc".into(), at("into_arc returned a different allocation")));
                            }
                            // the Arc took over the handle's count
                            let n = w.handles.iter().filter(|(_, x)| *x == Some(a)).count();
                            if Arc::strong_count(&arc) != 2 + n {
                                return Err(("arc:into_arc_count".into(), at(&format!("after into_arc strong count {} expected {}", Arc::strong_count(&arc), 2 + n))));
                            }
                            drop(arc);
                        }
                        _ => unreachable!(),
                    }
                }
                Op::Drop(i) => {
                    let (h, _al) = w.handles.remove(i);
                    drop(h);
                }
                Op::NewForeign(some) => {
                    let arc = w.new_alloc();
                    let a = w.retained.len() - 1;
                    let view = CArcView { instance: Arc::into_raw(arc) as *const std::ffi::c_void, clone_fn: Some(f_clone::<A>), drop_fn: Some(f_drop::<A>) };
                    let h = unsafe {
                        if some {
                            H::FSome(std::mem::transmute::<CArcView, CArcSome<c_void>>(view))
                        } else {
                            H::FArc(std::mem::transmute::<CArcView, CArc<c_void>>(view))
                        }
                    };
                    w.handles.push((h, Some(a)));
                }
                Op::CloneFrom(i, j) => {
                    // like `*i = j.clone()`: afterwards i is a handle to what j refers to, made by j's module
                    let (src, src_al) = w.handles.remove(j);
                    let ii = if i > j { i - 1 } else { i };
                    let (dst, _old) = w.handles.remove(ii);
                    let nd = match (dst, &src) {
                        (H::Arc(mut d), H::Arc(s)) => {
                            d.clone_from(s);
                            H::Arc(d)
                        }
                        (H::Some(mut d), H::Some(s)) => {
                            d.clone_from(s);
                            H::Some(d)
                        }
                        (H::OArc(mut d) | H::FArc(mut d), H::OArc(s)) => {
                            d.clone_from(s);
                            H::OArc(d)
                        }
                        (H::OArc(mut d) | H::FArc(mut d), H::FArc(s)) => {
                            d.clone_from(s);
                            H::FArc(d)
                        }
                        (H::OSome(mut d) | H::FSome(mut d), H::OSome(s)) => {
                            d.clone_from(s);
                            H::OSome(d)
                        }
                        (H::OSome(mut d) | H::FSome(mut d), H::FSome(s)) => {
                            d.clone_from(s);
                            H::FSome(d)
                        }
                        _ => return Err(("harness".into(), at("clone_from between different static types"))),
                    };
                    w.handles.insert(ii, (nd, src_al));
                    w.handles.insert(j, (src, src_al));
                }
                Op::DropUnwinding(i) => {
                    let (h, _al) = w.handles.remove(i);
                    let r = std::panic::catch_unwind(std::panic::AssertUnwindSafe(move || {
                        let _owner = h;
                        panic!("unwinding with a live handle");
                    }));
                    if r.is_ok() {
                        return Err(("harness".into(), at("the panic did not unwind")));
                    }
                }
            }
            w.check(&drops, &at)?;
            obs.push(digest(&(w.handles.iter().map(|(h, a)| (h.kind(), *a)).collect::<Vec<_>>(), w.retained.iter().map(Arc::strong_count).collect::<Vec<_>>())));
        }
        let shape: Vec<(Kind, Option<usize>)> = alloc::untracked(|| w.handles.iter().map(|(h, a)| (h.kind(), *a)).collect());
        let nalloc = w.retained.len();
        let mut sorted = shape.clone();
        sorted.sort();
        let key = digest(&(sorted, nalloc));
        // teardown
        let World { retained, payload_ids, handles, .. } = std::mem::ManuallyDrop::into_inner(w);
        let mut retained = std::mem::ManuallyDrop::new(retained);
        let mut handles = std::mem::ManuallyDrop::new(handles);
        if self.handles_last {
            // the retained Arcs go first: from here on the handles are the only owners, and the last
            // handle of every allocation has to destroy the payload — exactly then, exactly once
            let weak: Vec<std::sync::Weak<P<A>>> = alloc::untracked(|| retained.iter().map(Arc::downgrade).collect());
            let mut a = 0usize;
            while !retained.is_empty() {
                let r = retained.remove(0);
                let left = handles.iter().filter(|(_, x)| *x == Some(a)).count();
                drop(r);
                let want = if left == 0 { 1 } else { 0 };
                if drops.count(payload_ids[a]) != want {
                    return Err(("arc:payload_drop".into(), format!("teardown: after the retained Arc of allocation {} went away with {} handle(s) left, its payload was dropped {} time(s)", a, left, drops.count(payload_ids[a]))));
                }
                a += 1;
            }
            let mut j = 0usize;
            while !handles.is_empty() {
                let (h, al) = handles.remove(0);
                drop(h);
                if let Some(a) = al {
                    let left = handles.iter().filter(|(_, x)| *x == Some(a)).count();
                    let sc = weak[a].strong_count();
                    if sc != left {
                        return Err(("arc:count".into(), format!("teardown: allocation {}: strong count {} with {} handle(s) left and no retained Arc", a, sc, left)));
                    }
                    let want = if left == 0 { 1 } else { 0 };
                    if drops.count(payload_ids[a]) != want {
                        let sig = if left == 0 { "arc:payload_drop" } else { "arc:early_drop" };
                        return Err((sig.into(), format!("teardown: after handle {} of allocation {} went away with {} handle(s) left, its payload was dropped {} time(s) (the last handle, and only it, destroys the value)", j, a, left, drops.count(payload_ids[a]))));
                    }
                }
                j += 1;
            }
            alloc::untracked(|| drop(weak));
        } else {
            // handles first (in slot order), then the retained Arcs
            let mut j = 0;
            while !handles.is_empty() {
                let (h, al) = handles.remove(0);
                j += 1;
                drop(h);
                if let Some(a) = al {
                    if drops.count(payload_ids[a]) != 0 {
                        return Err(("arc:early_drop".into(), format!("teardown: payload of allocation {} dropped when handle {} went away although a retained Arc exists", a, j - 1)));
                    }
                }
            }
            let mut a = 0usize;
            while !retained.is_empty() {
                let r = retained.remove(0);
                a += 1;
                let a = a - 1;
                if Arc::strong_count(&r) != 1 {
                    let sc = Arc::strong_count(&r);
                    std::mem::forget(r);
                    return Err(("arc:final_count".into(), format!("teardown: allocation {} has strong count {} after all handles were dropped (expected 1)", a, sc)));
                }
                drop(r);
                if drops.count(payload_ids[a]) != 1 {
                    return Err(("arc:payload_drop".into(), format!("teardown: payload of allocation {} dropped {} times", a, drops.count(payload_ids[a]))));
                }
            }
        }
        let _ = probe_ids;
        drop(std::mem::ManuallyDrop::into_inner(handles));
        drop(std::mem::ManuallyDrop::into_inner(retained));
        drop(payload_ids);
        let bad = drops.not_equal(1);
        if !bad.is_empty() {
            return Err(("arc:payload_drop".into(), format!("payload ids {:?} not dropped exactly once: {:?}", bad, drops.counts())));
        }
        Ok((key, shape, nalloc))
    }
}

impl<A: Al> HistSut for Sut<A> {
    type Op = Op;
    fn run(&self, hist: &[Op]) -> StepOut<Op> {
        let mut obs = Vec::with_capacity(hist.len() + 1);
        alloc::begin();
        let r = self.exec(hist, &mut obs);
        let rep = alloc::end();
        let obs_d = digest(&obs);
        match r {
            Err(v) => StepOut { key: 0, enabled: vec![], obs: obs_d, violation: Some(v) },
            Ok((key, shape, nalloc)) => StepOut { key, enabled: self.enabled(&shape, nalloc), obs: obs_d, violation: alloc_violation(&rep) },
        }
    }
}

fn replay<A: Al>(case: &Value, handles_last: bool) -> CaseOut {
    let hist: Vec<Op> = serde_json::from_value(case["history"].clone()).expect("history");
    let out = Sut::<A> { max_handles: 8, max_allocs: 4, handles_last, ext: true, _a: Default::default() }.run(&hist);
    CaseOut { obs: out.obs, nontrivial: true, violation: out.violation }
}

fn sections_for<A: Al>(suffix: &'static str, handles_last: bool, scale: usize) -> Vec<Section> {
    sections_ext::<A>(suffix, handles_last, scale, false)
}

fn sections_ext<A: Al>(suffix: &'static str, handles_last: bool, scale: usize, ext: bool) -> Vec<Section> {
    let full: &'static str = Box::leak(format!("histories_full{}", suffix).into_boxed_str());
    let bfs: &'static str = Box::leak(format!("histories_bfs{}", suffix).into_boxed_str());
    let pre = format!("{}payload type with {}; teardown {}; ", if ext { "extended alphabet: additionally opaque handles assembled through the published layout with another module's clone/drop functions, clone_from between handles of one static type, and handles dropped while a panic unwinds; " } else { "" }, A::NAME, if handles_last { "drops the retained std Arcs first, so the last HANDLE of each allocation must destroy the payload (checked after every single drop: count == handles left, payload dropped iff none left)" } else { "drops the handles first, then the retained std Arcs" });
    let pre2 = pre.clone();
    vec![
        Section {
            name: full,
            explore: Box::new(move |cx: &Cx| {
                let (mh, ma, d) = match cx.tier {
                    Tier::Quick => (4, 2, 5 - scale),
                    Tier::Thorough => (4, 2, 6 - scale),
                };
                cx.rule(full, &format!("{}all histories of length <= {} over {{from value/Arc/Option<Arc> (new or existing allocation), default, clone, take, transpose (both ways), into_opaque, into_arc, drop}} on a pool of <= {} handles (CArc, CArcSome, typed and opaque) over <= {} allocations; oracle after every step: strong_count == 1 + live handles per allocation, payload not dropped, every handle points to its allocation (API and C view), function pointers are those of the creating instantiation, empty handles have a null instance; teardown: payload dropped exactly once; allocator balanced", pre, d, mh, ma));
                hist::full(&Sut::<A> { max_handles: mh, max_allocs: ma, handles_last, ext, _a: Default::default() }, d, cx, full);
            }),
            replay: Box::new(move |c| replay::<A>(c, handles_last)),
        },
        Section {
            name: bfs,
            explore: Box::new(move |cx: &Cx| {
                let (mh, ma, d) = match cx.tier {
                    Tier::Quick => (5, 2, 10),
                    Tier::Thorough => (6, 3, 14),
                };
                cx.rule(bfs, &format!("{}same alphabet, pool <= {}, BFS to depth {} with dedup on the sorted multiset of (handle kind, allocation) and the number of allocations", pre2, mh, d));
                hist::bfs(&Sut::<A> { max_handles: mh, max_allocs: ma, handles_last, ext, _a: Default::default() }, d, cx, bfs, 3_000_000);
            }),
            replay: Box::new(move |c| replay::<A>(c, handles_last)),
        },
    ]
}


// ------------------------------------------------------------------------------------------
// zero-sized payload with a destructor: nothing to allocate for the value, but the handles still count and the last one
// still has to run the destructor, exactly once

/// ops: 0 from value (CArc), 1 from value (CArcSome), 2 from Arc (CArc), 3 clone(i%n), 4 transpose(i%n) round trip,
/// 5 into_opaque(i%n), 6 drop(0), 7 drop(last)
fn zst_seq(ops: &[u8]) -> Result<u64, (String, String)> {
    use instr::DcZst;
    enum Z {
        A(CArc<DcZst>),
        S(CArcSome<DcZst>),
        OA(CArc<c_void>),
        OS(CArcSome<c_void>),
    }
    DcZst::reset();
    // every handle refers to the allocation with this index; allocs[k] = number of live handles
    let mut hs: Vec<(Z, usize)> = Vec::new();
    let mut live: Vec<usize> = Vec::new();
    let mut obs: Vec<u64> = Vec::new();
    for (step, op) in ops.iter().enumerate() {
        let n = hs.len();
        match *op {
            0 => {
                hs.push((Z::A(CArc::from(DcZst::new())), live.len()));
                live.push(1);
            }
            1 => {
                hs.push((Z::S(CArcSome::from(DcZst::new())), live.len()));
                live.push(1);
            }
            2 => {
                hs.push((Z::A(CArc::from(Arc::new(DcZst::new()))), live.len()));
                live.push(1);
            }
            3 if n > 0 => {
                let i = step % n;
                let a = hs[i].1;
                let c = match &hs[i].0 {
                    Z::A(h) => Z::A(h.clone()),
                    Z::S(h) => Z::S(h.clone()),
                    Z::OA(h) => Z::OA(h.clone()),
                    Z::OS(h) => Z::OS(h.clone()),
                };
                live[a] += 1;
                hs.push((c, a));
            }
            4 if n > 0 => {
                let i = step % n;
                let (h, a) = hs.remove(i);
                let nh = match h {
                    Z::A(h) => Z::S(h.transpose().expect("non-empty")),
                    Z::S(h) => Z::A(h.transpose()),
                    Z::OA(h) => Z::OS(h.transpose().expect("non-empty")),
                    Z::OS(h) => Z::OA(h.transpose()),
                };
                hs.insert(i, (nh, a));
            }
            5 if n > 0 => {
                let i = step % n;
                let (h, a) = hs.remove(i);
                let nh = match h {
                    Z::A(h) => Z::OA(h.into_opaque()),
                    Z::S(h) => Z::OS(h.into_opaque()),
                    o => o,
                };
                hs.insert(i, (nh, a));
            }
            6 if n > 0 => {
                let (h, a) = hs.remove(0);
                live[a] -= 1;
                drop(h);
            }
            7 if n > 0 => {
                let (h, a) = hs.pop().unwrap();
                live[a] -= 1;
                drop(h);
            }
            _ => {}
        }
        let (made, gone) = DcZst::stats();
        let want_gone = live.iter().filter(|c| **c == 0).count() as u64;
        if made != live.len() as u64 || gone != want_gone {
            let d = format!("step {} op {}: {} zero-sized payload(s) created, {} destroyed; {} allocation(s) have no handle left (handles per allocation {:?})", step, op, made, gone, want_gone, live);
            std::mem::forget(hs);
            return Err((if gone < want_gone { "arc:zst_payload_not_destroyed" } else { "arc:zst_payload_destroyed_early" }.into(), d));
        }
        obs.push(digest(&(made, gone, hs.len())));
    }
    while let Some((h, a)) = hs.pop() {
        live[a] -= 1;
        drop(h);
        let (_, gone) = DcZst::stats();
        let want_gone = live.iter().filter(|c| **c == 0).count() as u64;
        if gone != want_gone {
            return Err((if gone < want_gone { "arc:zst_payload_not_destroyed" } else { "arc:zst_payload_destroyed_early" }.into(), format!("teardown: {} destroyed, {} allocation(s) without a handle", gone, want_gone)));
        }
    }
    Ok(digest(&obs))
}

fn zst_case(ops: &[u8]) -> CaseOut {
    alloc::begin();
    let r = std::panic::catch_unwind(|| zst_seq(ops));
    let rep = alloc::end();
    match r {
        Err(_) => CaseOut::bad("panic", "panicked".to_string()),
        Ok(Err((s, d))) => CaseOut::bad(s, d),
        Ok(Ok(o)) => CaseOut { obs: o, nontrivial: !ops.is_empty(), violation: alloc_violation(&rep) },
    }
}

fn zst_section() -> Section {
    Section {
        name: "zst_payload",
        explore: Box::new(|cx: &Cx| {
            let depth = cx.tier.pick(5, 6);
            cx.rule("zst_payload", &format!("zero-sized payload with a destructor: every sequence of <= {} operations over {{from value (CArc / CArcSome), from Arc, clone, transpose, into_opaque, drop first, drop last}}; oracle after every step: one payload exists per allocation and it is destroyed exactly when the allocation has no handle left; allocator balanced", depth));
            fn rec(cx: &Cx, seq: &mut Vec<u8>, depth: usize) {
                let case = serde_json::json!({"zst_ops": seq});
                cx.eval("zst_payload", &case, || zst_case(seq));
                if seq.len() == depth {
                    return;
                }
                for op in 0..8u8 {
                    seq.push(op);
                    rec(cx, seq, depth);
                    seq.pop();
                }
            }
            rec(cx, &mut Vec::new(), depth);
        }),
        replay: Box::new(|c: &Value| {
            let ops: Vec<u8> = serde_json::from_value(c["zst_ops"].clone()).unwrap();
            zst_case(&ops)
        }),
    }
}

// ---- payloads that own further arcs: the release of one allocation re-enters the library from the payload's destructor
struct ChainNode {
    dc: instr::Dc,
    next: CArc<ChainNode>,
}

/// a chain of `n` allocations, node i owning the only handle (or one of two handles) of node i + 1; `observer`: which node
/// (if any) has a second handle that is released last; `opaque`: the head handle is converted to its opaque form first
fn nested_case(n: usize, observer: Option<usize>, opaque: bool) -> CaseOut {
    alloc::begin();
    let r = std::panic::catch_unwind(|| -> Result<u64, (String, String)> {
        let drops = instr::DropScope::new();
        let mut next: CArc<ChainNode> = CArc::default();
        let mut ids = vec![0usize; n];
        let mut obs_handle: Option<CArc<ChainNode>> = None;
        for i in (0..n).rev() {
            let dc = instr::Dc::new(i as u64);
            ids[i] = dc.id;
            next = CArc::from(ChainNode { dc, next });
            if observer == Some(i) {
                obs_handle = Some(next.clone());
            }
        }
        if opaque {
            drop(next.into_opaque());
        } else {
            drop(next);
        }
        // every node up to (excluding) the observed one is gone, the observed one and everything behind it is alive
        let alive_from = observer.unwrap_or(n);
        for i in 0..n {
            let want = if i < alive_from { 1 } else { 0 };
            if drops.count(ids[i]) != want {
                return Err(("arc:nested_release".into(), format!("chain of {} allocations (node i owns a handle of node i+1), head handle released{}: node {} was destroyed {} time(s), expected {} (counts {:?})", n, if opaque { " in opaque form" } else { "" }, i, drops.count(ids[i]), want, ids.iter().map(|d| drops.count(*d)).collect::<Vec<_>>())));
            }
        }
        drop(obs_handle);
        for i in 0..n {
            if drops.count(ids[i]) != 1 {
                return Err(("arc:nested_release".into(), format!("chain of {} allocations: after the last handle is gone node {} was destroyed {} time(s) (counts {:?})", n, i, drops.count(ids[i]), ids.iter().map(|d| drops.count(*d)).collect::<Vec<_>>())));
            }
        }
        Ok(digest(&(n, observer, opaque)))
    });
    let rep = alloc::end();
    match r {
        Err(_) => CaseOut::bad("panic", "panicked".to_string()),
        Ok(Err((s, d))) => CaseOut::bad(s, d),
        Ok(Ok(o)) => CaseOut { obs: o, nontrivial: true, violation: alloc_violation(&rep) },
    }
}

fn nested_section() -> Section {
    Section {
        name: "nested_payloads",
        explore: Box::new(|cx: &Cx| {
            let nmax = cx.tier.pick(6, 12);
            cx.rule("nested_payloads", &format!("payloads that own further arcs: chains of 1..={} allocations in which node i holds a handle of node i + 1, optionally with a second (observer) handle on one node, head handle released directly / in opaque form: every node is destroyed exactly once, exactly when its last handle is gone (the release of one allocation re-enters the library from the payload's destructor); allocator balanced", nmax));
            for n in 1..=nmax {
                for observer in std::iter::once(None).chain((0..n).map(Some)) {
                    for opaque in [false, true] {
                        cx.eval("nested_payloads", &serde_json::json!({"n": n, "observer": observer, "opaque": opaque}), || nested_case(n, observer, opaque));
                    }
                }
            }
        }),
        replay: Box::new(|c: &Value| nested_case(c["n"].as_u64().unwrap() as usize, c["observer"].as_u64().map(|v| v as usize), c["opaque"].as_bool().unwrap())),
    }
}

fn main() {
    quiet_panics();
    let mut sections = sections_for::<()>("", false, 0);
    sections.push(zst_section());
    sections.push(nested_section());
    sections.extend(sections_for::<()>("_handles_last", true, 0));
    sections.extend(sections_for::<A64>("_align64", false, 1));
    sections.extend(sections_for::<A64>("_align64_handles_last", true, 1));
    sections.extend(sections_ext::<()>("_ext_handles_last", true, 1, true));
    explore::run_main(CheckDef {
        property: "C10",
        level: "model_checking",
        assumptions: vec![
            "std::sync::Arc is trusted (strong_count is the observation)".into(),
            "histories longer than the depth bound / pools larger than the handle bound are not covered".into(),
        ],
        sections,
        no_isolation: false,
    });
}
