//! C12 — slice views and the C option/result/tuple types are lossless.
//! Exhaustive input enumeration against the real conversion functions.

use cglue::option::COption;
use cglue::result::CResult;
use cglue::slice::{CSliceMut, CSliceRef};
use cglue::tuple::{CTup1, CTup2, CTup3, CTup4};
use explore::driver::{CheckDef, Section};
use explore::{digest, CaseOut, Cx, Tier};
use h_runtime::{alloc_violation, guarded, quiet_panics};
use instr::{alloc, Dc, DcZst, DropScope};
use serde_json::{json, Value};
use std::convert::TryFrom;

type R = Result<u64, (String, String)>;

macro_rules! ensure {
    ($c:expr, $sig:expr, $($fmt:tt)*) => {
        if !($c) {
            return Err(($sig.to_string(), format!($($fmt)*)));
        }
    };
}

trait El: Copy + PartialEq + std::fmt::Debug + 'static {
    const NAME: &'static str;
    fn make(i: usize) -> Self;
}
impl El for u8 {
    const NAME: &'static str = "u8";
    fn make(i: usize) -> Self {
        (i * 7 + 1) as u8
    }
}
impl El for u64 {
    const NAME: &'static str = "u64";
    fn make(i: usize) -> Self {
        (i as u64 + 1) * 0x0101_0101_0101_0101
    }
}
#[derive(Clone, Copy, PartialEq, Debug)]
struct Zst;
impl El for Zst {
    const NAME: &'static str = "zst";
    fn make(_: usize) -> Self {
        Zst
    }
}
#[derive(Clone, Copy, PartialEq, Debug)]
#[repr(C)]
struct S3 {
    a: u8,
    b: u8,
    c: u8,
}
impl El for S3 {
    const NAME: &'static str = "s3";
    fn make(i: usize) -> Self {
        S3 { a: i as u8, b: (i * 3) as u8, c: !(i as u8) }
    }
}

fn slice_case<T: El>(buf_len: usize, off: usize, n: usize) -> R {
    let mut buf: Vec<T> = (0..buf_len).map(T::make).collect();
    let orig = buf.clone();
    let base = buf.as_ptr() as usize;
    let esz = std::mem::size_of::<T>();
    // ---------- shared views
    {
        let s: &[T] = &buf[off..off + n];
        let (p, l) = (s.as_ptr() as usize, s.len());
        let a = CSliceRef::from_slice(s);
        let b: CSliceRef<T> = s.into();
        for (name, c) in [("from_slice", a), ("From<&[T]>", b)] {
            ensure!(c.as_ptr() as usize == p && c.len() == l && c.is_empty() == (l == 0), "slice:ref_fields", "{}: ptr/len {:#x}/{} expected {:#x}/{}", name, c.as_ptr() as usize, c.len(), p, l);
            let back = c.as_slice();
            ensure!(back.as_ptr() as usize == p && back.len() == l && back == s, "slice:ref_as_slice", "{}: as_slice differs", name);
            let d: &[T] = &c;
            ensure!(d.as_ptr() as usize == p && d == s, "slice:ref_deref", "{}: Deref differs", name);
            let f: &[T] = c.into();
            ensure!(f.as_ptr() as usize == p && f == s, "slice:ref_into", "{}: Into<&[T]> differs", name);
        }
    }
    // ---------- mutable views: every write path must land in the backing buffer, at the right place
    let mut seen = Vec::new();
    for path in 0..6 {
        buf.copy_from_slice(&orig);
        let marker = T::make(200 + path);
        {
            let s: &mut [T] = &mut buf[off..off + n];
            let (p, l) = (s.as_ptr() as usize, s.len());
            let mut m = CSliceMut::from(s);
            ensure!(m.as_ptr() as usize == p && m.as_mut_ptr() as usize == p && m.len() == l && m.is_empty() == (l == 0), "slice:mut_fields", "CSliceMut ptr/len differ");
            {
                let r: CSliceRef<T> = (&m).into();
                ensure!(r.as_ptr() as usize == p && r.len() == l, "slice:mut_to_ref", "From<&CSliceMut> for CSliceRef differs");
            }
            ensure!(m.as_slice().as_ptr() as usize == p && m.as_slice().len() == l, "slice:mut_as_slice", "as_slice differs");
            match path {
                0 => {
                    for e in m.as_slice_mut().iter_mut() {
                        *e = marker;
                    }
                }
                1 => {
                    let d: &mut [T] = &mut m;
                    for e in d.iter_mut() {
                        *e = marker;
                    }
                }
                2 => {
                    let mut re = CSliceMut::from(&mut m);
                    ensure!(re.as_ptr() as usize == p && re.len() == l, "slice:mut_reborrow", "From<&mut CSliceMut> differs");
                    for e in re.iter_mut() {
                        *e = marker;
                    }
                    // the view that was re-borrowed is as before once the re-borrow has ended
                    ensure!(m.as_ptr() as usize == p && m.len() == l && m.as_slice().len() == l, "slice:mut_reborrow_original", "after From<&mut CSliceMut> the original view has address {:#x} / length {} (was {:#x} / {})", m.as_ptr() as usize, m.len(), p, l);
                    let r2 = CSliceRef::from(&m);
                    ensure!(r2.as_ptr() as usize == p && r2.len() == l, "slice:mut_reborrow_original", "after From<&mut CSliceMut> a CSliceRef of the original view has length {} (was {})", r2.len(), l);
                }
                3 => {
                    let d: &mut [T] = m.into();
                    ensure!(d.as_ptr() as usize == p && d.len() == l, "slice:mut_into", "Into<&mut [T]> differs");
                    for e in d.iter_mut() {
                        *e = marker;
                    }
                }
                4 => {
                    // write only the first and last element through DerefMut indexing
                    if l > 0 {
                        m[0] = marker;
                        m[l - 1] = marker;
                    }
                }
                _ => {
                    let d: &[T] = m.into();
                    ensure!(d.as_ptr() as usize == p && d.len() == l, "slice:mut_into_shared", "Into<&[T]> differs");
                }
            }
        }
        for i in 0..buf_len {
            let inside = i >= off && i < off + n;
            let written = match path {
                0..=3 => inside,
                4 => inside && (i == off || i == off + n - 1),
                _ => false,
            };
            let want = if written { marker } else { orig[i] };
            ensure!(buf[i] == want, "slice:write_visibility", "path {}: element {} of the backing buffer is {:?}, expected {:?} (slice at {}+{})", path, i, buf[i], want, off, n);
        }
        seen.push(digest(&format!("{:?}", buf)));
    }
    ensure!(buf.as_ptr() as usize == base, "slice:moved", "backing buffer moved");
    Ok(digest(&(T::NAME, off, n, esz, seen)))
}

fn slices<T: El>(cx: &Cx, sec: &'static str, max_len: usize) {
    let buf_len = max_len + 2;
    for off in 0..=buf_len {
        for n in 0..=max_len {
            if off + n > buf_len {
                continue;
            }
            let case = json!({"elem": T::NAME, "buf_len": buf_len, "offset": off, "len": n});
            cx.eval(sec, &case, || run_alloc(|| slice_case::<T>(buf_len, off, n), n > 0));
        }
    }
}

fn run_alloc(f: impl FnOnce() -> R, nontrivial: bool) -> CaseOut {
    alloc::begin();
    let r = guarded(f);
    let rep = alloc::end();
    match r {
        Err(()) => CaseOut::bad("panic", "the conversion panicked"),
        Ok(Err(v)) => CaseOut { obs: 0, nontrivial: true, violation: Some(v) },
        Ok(Ok(obs)) => CaseOut { obs, nontrivial, violation: alloc_violation(&rep) },
    }
}

fn replay_slice(case: &Value) -> CaseOut {
    let (b, o, n) = (case["buf_len"].as_u64().unwrap() as usize, case["offset"].as_u64().unwrap() as usize, case["len"].as_u64().unwrap() as usize);
    match case["elem"].as_str().unwrap() {
        "u8" => run_alloc(|| slice_case::<u8>(b, o, n), true),
        "u64" => run_alloc(|| slice_case::<u64>(b, o, n), true),
        "zst" => run_alloc(|| slice_case::<Zst>(b, o, n), true),
        _ => run_alloc(|| slice_case::<S3>(b, o, n), true),
    }
}

// ------------------------------------------------------------------------------------------
// UTF-8 decision

const ALPHA_Q: &[u8] = &[0x00, b'a', 0x7f, 0x80, 0xbf, 0xc2, 0xe2, 0xf0, 0xed];
const ALPHA_T: &[u8] = &[0x00, b'a', 0x7f, 0x80, 0xbf, 0xc0, 0xc2, 0xe0, 0xe2, 0xed, 0xf0, 0xf4, 0xa0, 0x9f, 0x90];

fn utf8_case(bytes: &[u8]) -> R {
    let std_res = std::str::from_utf8(bytes);
    let p = bytes.as_ptr() as usize;
    let c = CSliceRef::from(bytes);
    let got = <&str>::try_from(c);
    ensure!(got.is_ok() == std_res.is_ok(), "utf8:ref_decision", "TryFrom<CSliceRef<u8>> for &str is {:?} but from_utf8 is {:?} for {:02x?}", got.is_ok(), std_res.is_ok(), bytes);
    if let (Ok(a), Ok(b)) = (&got, &std_res) {
        ensure!(a == b && a.as_ptr() as usize == p, "utf8:ref_value", "decoded string differs for {:02x?}", bytes);
    }
    if let (Err(a), Err(b)) = (&got, &std_res) {
        ensure!(a == b, "utf8:ref_error", "Utf8Error differs for {:02x?}", bytes);
    }
    let mut copy = bytes.to_vec();
    let cp = copy.as_ptr() as usize;
    {
        let m = CSliceMut::from(&mut copy[..]);
        let g = <&str>::try_from(m);
        ensure!(g.is_ok() == std_res.is_ok(), "utf8:mut_decision", "TryFrom<CSliceMut<u8>> for &str wrong for {:02x?}", bytes);
        if let Ok(s) = g {
            ensure!(s.as_bytes() == bytes && s.as_ptr() as usize == cp, "utf8:mut_value", "decoded string differs");
        }
    }
    {
        let m = CSliceMut::from(&mut copy[..]);
        let g = <&mut str>::try_from(m);
        ensure!(g.is_ok() == std_res.is_ok(), "utf8:mutstr_decision", "TryFrom<CSliceMut<u8>> for &mut str wrong for {:02x?}", bytes);
        if let Ok(s) = g {
            ensure!(s.as_bytes() == bytes && s.as_ptr() as usize == cp, "utf8:mutstr_value", "decoded string differs");
        }
    }
    if let Ok(s) = std_res {
        // string -> slice -> string round trips
        let a = CSliceRef::from(s);
        let b = CSliceRef::from_str(s);
        ensure!(a.as_ptr() as usize == p && a.len() == s.len() && b.as_ptr() as usize == p && b.len() == s.len(), "utf8:from_str", "From<&str> lost address/length");
        let back = unsafe { a.into_str() };
        ensure!(back == s && back.as_ptr() as usize == p, "utf8:into_str", "into_str differs");
        ensure!(format!("{}", a) == s, "utf8:display", "Display differs");
        let mut owned = s.to_string();
        let op = owned.as_ptr() as usize;
        let m = CSliceMut::from(owned.as_mut_str());
        ensure!(m.as_ptr() as usize == op && m.len() == s.len(), "utf8:mut_from_str", "From<&mut str> lost address/length");
        let ms = unsafe { m.into_mut_str() };
        ensure!(ms == s, "utf8:into_mut_str", "into_mut_str differs");
    }
    Ok(digest(&(bytes, std_res.is_ok())))
}

fn utf8(cx: &Cx, alpha: &[u8], max_len: usize) {
    let k = alpha.len();
    for len in 0..=max_len {
        let total = k.pow(len as u32);
        for mut idx in 0..total {
            let mut bytes = Vec::with_capacity(len);
            for _ in 0..len {
                bytes.push(alpha[idx % k]);
                idx /= k;
            }
            let case = json!({"bytes": bytes});
            let valid = std::str::from_utf8(&bytes).is_ok();
            cx.eval("utf8", &case, || run_alloc(|| utf8_case(&bytes), !bytes.is_empty() && (valid || bytes.iter().any(|b| *b >= 0x80))));
        }
    }
}

/// One special byte sequence inside an ASCII sea, at every position, for every buffer length and every
/// start alignment: word-at-a-time shortcuts in the validation would show up here.
const SPECIALS: &[&[u8]] = &[
    &[0x80], &[0xff], &[0xc3], &[0xc3, 0xa9], &[0xc0, 0x80], &[0xe2, 0x82], &[0xe2, 0x82, 0xac], &[0xed, 0xa0, 0x80],
    &[0xf0, 0x9f, 0x98], &[0xf0, 0x9f, 0x98, 0x80], &[0xf4, 0x90, 0x80, 0x80], &[0x00],
    // valid text that a "helpful" conversion might treat specially: byte order mark, U+FFFE, replacement character, line / paragraph
    // separators, NEL, no-break space, ASCII white space and line ends, a quote
    &[0xef, 0xbb, 0xbf], &[0xef, 0xbf, 0xbe], &[0xef, 0xbf, 0xbd], &[0xe2, 0x80, 0xa8], &[0xc2, 0x85], &[0xc2, 0xa0], &[b' '], &[b'\n'], &[b'\r', b'\n'], &[b'\t'], &[b'"'],
    &[0xef, 0xbb, 0xbf, 0xef, 0xbb, 0xbf],
];

#[repr(align(64))]
struct Aligned([u8; 128]);

fn utf8_long(cx: &Cx, max_len: usize) {
    for total in 0..=max_len {
        for (si, sp) in SPECIALS.iter().enumerate() {
            if sp.len() > total {
                continue;
            }
            for pos in 0..=(total - sp.len()) {
                for off in 0..8usize {
                    let case = json!({"total": total, "special": si, "pos": pos, "align_offset": off});
                    cx.eval("utf8_long", &case, || run_alloc(|| utf8_long_case(total, si, pos, off), true));
                }
            }
        }
    }
}

fn utf8_long_case(total: usize, si: usize, pos: usize, off: usize) -> R {
    let mut buf = Aligned([b'a'; 128]);
    let sp = SPECIALS[si];
    buf.0[off + pos..off + pos + sp.len()].copy_from_slice(sp);
    let bytes = &buf.0[off..off + total];
    utf8_case(bytes)
}

// ------------------------------------------------------------------------------------------
// COption / CResult / CTup

fn variants_case(which: usize) -> R {
    let drops = DropScope::new();
    DcZst::reset();
    let alive = |d: &DropScope, want_alive: usize| d.counts().iter().filter(|c| **c == 0).count() == want_alive && d.counts().iter().all(|c| *c <= 1);
    match which {
        0 => {
            // Option<Dc> Some -> COption -> Option
            let c: COption<Dc> = Some(Dc::new(7)).into();
            ensure!(c.is_some() && c.as_ref().map(|d| d.val) == Some(7), "opt:some", "Some lost through From<Option>");
            ensure!(alive(&drops, 1), "opt:moves", "payload dropped/duplicated by From<Option>: {:?}", drops.counts());
            let o: Option<Dc> = c.into();
            ensure!(o.as_ref().map(|d| d.val) == Some(7) && alive(&drops, 1), "opt:back", "Some lost through Into<Option>");
            drop(o);
        }
        1 => {
            let c: COption<Dc> = None.into();
            ensure!(!c.is_some() && c.as_ref().is_none(), "opt:none", "None became Some");
            let o: Option<Dc> = c.into();
            ensure!(o.is_none(), "opt:none_back", "None became Some");
        }
        2 => {
            // take / as_mut / unwrap / default
            let mut c: COption<Dc> = Some(Dc::new(9)).into();
            c.as_mut().unwrap().val = 10;
            let t = c.take();
            ensure!(t.as_ref().map(|d| d.val) == Some(10) && !c.is_some() && alive(&drops, 1), "opt:take", "take lost or duplicated the payload");
            ensure!(c.take().is_none(), "opt:take_none", "second take returned a value");
            drop(t);
            let d: COption<Dc> = Default::default();
            ensure!(!d.is_some(), "opt:default", "default is Some");
            let u = COption::Some(Dc::new(3)).unwrap();
            ensure!(u.val == 3, "opt:unwrap", "unwrap value");
            drop(u);
            ensure!(guarded(|| COption::<u8>::None.unwrap()).is_err(), "opt:unwrap_none", "unwrap of None did not panic");
        }
        3 => {
            // zero-sized payloads keep the variant
            let c: COption<DcZst> = Some(DcZst::new()).into();
            ensure!(c.is_some(), "opt:zst_some", "Some(zero-sized) became None");
            let o: Option<DcZst> = c.into();
            ensure!(o.is_some(), "opt:zst_back", "Some(zero-sized) became None on the way back");
            drop(o);
            let c: COption<DcZst> = None.into();
            ensure!(!c.is_some(), "opt:zst_none", "None(zero-sized) became Some");
            ensure!(DcZst::stats() == (1, 1), "opt:zst_moves", "zero-sized payload constructed/dropped {:?}", DcZst::stats());
            let c: COption<()> = Some(()).into();
            ensure!(c.is_some() && Option::<()>::from(c).is_some(), "opt:unit", "Some(()) lost");
        }
        4 => {
            // Copy / Clone of COption over Copy payloads, extremes
            for v in [0u64, 1, u64::MAX] {
                let c: COption<u64> = Some(v).into();
                let d = c;
                ensure!(Option::from(c) == Some(v) && Option::from(d) == Some(v), "opt:copy", "value {} altered", v);
            }
        }
        5 => {
            let c: CResult<Dc, Dc> = Ok(Dc::new(1)).into();
            ensure!(c.is_ok() && !c.is_err() && c.as_ref().ok().map(|d| d.val) == Some(1) && alive(&drops, 1), "res:ok", "Ok lost through From<Result>");
            let r: Result<Dc, Dc> = c.into();
            ensure!(matches!(&r, Ok(d) if d.val == 1) && alive(&drops, 1), "res:ok_back", "Ok lost through Into<Result>");
            drop(r);
        }
        6 => {
            let c: CResult<Dc, Dc> = Err(Dc::new(2)).into();
            ensure!(!c.is_ok() && c.is_err() && c.as_ref().err().map(|d| d.val) == Some(2) && alive(&drops, 1), "res:err", "Err lost through From<Result>");
            let r: Result<Dc, Dc> = c.into();
            ensure!(matches!(&r, Err(d) if d.val == 2) && alive(&drops, 1), "res:err_back", "Err lost through Into<Result>");
            drop(r);
        }
        7 => {
            let mut c: CResult<Dc, Dc> = Ok(Dc::new(4)).into();
            c.as_mut().ok().unwrap().val = 5;
            let o = c.ok();
            ensure!(o.as_ref().map(|d| d.val) == Some(5) && alive(&drops, 1), "res:ok_fn", "ok() lost the payload");
            drop(o);
            let e: CResult<Dc, Dc> = Err(Dc::new(6)).into();
            let o = e.ok();
            ensure!(o.is_none() && alive(&drops, 0), "res:ok_fn_err", "ok() on Err: payload not dropped exactly once: {:?}", drops.counts());
            let u: CResult<Dc, u8> = Ok(Dc::new(8)).into();
            ensure!(u.unwrap().val == 8, "res:unwrap", "unwrap value");
            ensure!(guarded(|| CResult::<u8, u8>::Err(1).unwrap()).is_err(), "res:unwrap_err", "unwrap of Err did not panic");
            let mut e: CResult<u8, Dc> = Err(Dc::new(1)).into();
            e.as_mut().err().unwrap().val = 77;
            ensure!(matches!(Result::from(e), Err(d) if d.val == 77), "res:as_mut_err", "as_mut on Err");
        }
        8 => {
            // same-typed and zero-sized payloads keep the variant
            let a: CResult<u64, u64> = Ok(u64::MAX).into();
            let b: CResult<u64, u64> = Err(u64::MAX).into();
            ensure!(Result::from(a) == Ok(u64::MAX) && Result::from(b) == Err(u64::MAX), "res:same_type", "variant confused for equal payload types");
            let a: CResult<(), ()> = Ok(()).into();
            let b: CResult<(), ()> = Err(()).into();
            ensure!(a.is_ok() && b.is_err() && Result::from(a) == Ok(()) && Result::from(b) == Err(()), "res:zst", "variant lost for zero-sized payloads");
            let a: CResult<i64, u8> = Ok(i64::MIN).into();
            ensure!(Result::from(a) == Ok(i64::MIN), "res:extreme", "i64::MIN altered");
        }
        9 => {
            let t: CTup1<Dc> = (Dc::new(1),).into();
            ensure!(t.0.val == 1 && alive(&drops, 1), "tup:1", "CTup1");
            let (a,) = t.into_tuple();
            ensure!(a.val == 1 && alive(&drops, 1), "tup:1_back", "CTup1 back");
        }
        10 => {
            let t: CTup2<Dc, Dc> = (Dc::new(1), Dc::new(2)).into();
            ensure!(t.0.val == 1 && t.1.val == 2 && alive(&drops, 2), "tup:2", "CTup2 order/payload");
            let (a, b): (Dc, Dc) = t.into();
            ensure!(a.val == 1 && b.val == 2 && alive(&drops, 2), "tup:2_back", "CTup2 back");
            let t: CTup2<u8, u64> = (1u8, u64::MAX).into();
            ensure!(t.into_tuple() == (1u8, u64::MAX), "tup:2_mixed", "CTup2 mixed sizes");
        }
        11 => {
            let t: CTup3<Dc, Dc, Dc> = (Dc::new(1), Dc::new(2), Dc::new(3)).into();
            ensure!(t.0.val == 1 && t.1.val == 2 && t.2.val == 3 && alive(&drops, 3), "tup:3", "CTup3 order/payload");
            let (a, b, c) = t.into_tuple();
            ensure!(a.val == 1 && b.val == 2 && c.val == 3 && alive(&drops, 3), "tup:3_back", "CTup3 back");
        }
        13 => {
            return tuple_positions();
        }
        _ => {
            let t: CTup4<Dc, Dc, Dc, Dc> = (Dc::new(1), Dc::new(2), Dc::new(3), Dc::new(4)).into();
            ensure!(t.0.val == 1 && t.1.val == 2 && t.2.val == 3 && t.3.val == 4 && alive(&drops, 4), "tup:4", "CTup4 order/payload");
            let (a, b, c, d) = t.into_tuple();
            ensure!(a.val == 1 && b.val == 2 && c.val == 3 && d.val == 4 && alive(&drops, 4), "tup:4_back", "CTup4 back");
            let t: CTup4<u8, u16, u32, u64> = (1, 2, 3, 4).into();
            ensure!(t.into_tuple() == (1, 2, 3, 4), "tup:4_mixed", "CTup4 mixed sizes");
        }
    }
    let bad = drops.not_equal(1);
    ensure!(bad.is_empty(), "variants:drop_count", "payload ids {:?} not dropped exactly once: {:?}", bad, drops.counts());
    Ok(digest(&(which, drops.ids())))
}

/// Field positions of CTup2/3/4 for every combination of element types from {u8, u16, u32, u64}: the i-th field of
/// the C tuple is the i-th element of the Rust tuple, in both directions, read *directly* (not via a round trip).
macro_rules! tup_positions {
    ($out:ident; [$($a:ty),*]) => { $( tup_positions!(@b $out; $a; [u8, u16, u32, u64]); )* };
    (@b $out:ident; $a:ty; [$($b:ty),*]) => { $(
        {
            let t: CTup2<$a, $b> = ((1 as $a), (2 as $b)).into();
            if t.0 != 1 as $a || t.1 != 2 as $b { $out.push(format!("CTup2<{},{}> from tuple", stringify!($a), stringify!($b))); }
            let r: ($a, $b) = CTup2(1 as $a, 2 as $b).into();
            if r != (1 as $a, 2 as $b) { $out.push(format!("CTup2<{},{}> into tuple", stringify!($a), stringify!($b))); }
        }
        tup_positions!(@c $out; $a; $b; [u8, u16, u32, u64]);
    )* };
    (@c $out:ident; $a:ty; $b:ty; [$($c:ty),*]) => { $(
        {
            let t: CTup3<$a, $b, $c> = ((1 as $a), (2 as $b), (3 as $c)).into();
            if t.0 != 1 as $a || t.1 != 2 as $b || t.2 != 3 as $c { $out.push(format!("CTup3<{},{},{}> from tuple", stringify!($a), stringify!($b), stringify!($c))); }
            let r: ($a, $b, $c) = CTup3(1 as $a, 2 as $b, 3 as $c).into_tuple();
            if r != (1 as $a, 2 as $b, 3 as $c) { $out.push(format!("CTup3<{},{},{}> into tuple", stringify!($a), stringify!($b), stringify!($c))); }
        }
        tup_positions!(@d $out; $a; $b; $c; [u8, u16, u32, u64]);
    )* };
    (@d $out:ident; $a:ty; $b:ty; $c:ty; [$($d:ty),*]) => { $(
        {
            let t: CTup4<$a, $b, $c, $d> = ((1 as $a), (2 as $b), (3 as $c), (4 as $d)).into();
            if t.0 != 1 as $a || t.1 != 2 as $b || t.2 != 3 as $c || t.3 != 4 as $d { $out.push(format!("CTup4<{},{},{},{}> from tuple", stringify!($a), stringify!($b), stringify!($c), stringify!($d))); }
            let r: ($a, $b, $c, $d) = CTup4(1 as $a, 2 as $b, 3 as $c, 4 as $d).into_tuple();
            if r != (1 as $a, 2 as $b, 3 as $c, 4 as $d) { $out.push(format!("CTup4<{},{},{},{}> into tuple", stringify!($a), stringify!($b), stringify!($c), stringify!($d))); }
        }
    )* };
}

fn tuple_positions() -> R {
    let mut bad: Vec<String> = Vec::new();
    tup_positions!(bad; [u8, u16, u32, u64]);
    ensure!(bad.is_empty(), "tup:field_position", "{} of 672 conversions put an element into another field position, first: {}", bad.len(), bad[0]);
    Ok(digest(&672u32))
}

const VARIANT_CASES: usize = 14;


/// zero-sized elements: a slice may hold up to usize::MAX of them (no bytes are addressed); every conversion keeps the length
fn huge_zst_case(n: usize) -> R {
    // a dangling, well-aligned pointer is all a slice of zero-sized elements needs
    let p = std::ptr::NonNull::<Zst>::dangling().as_ptr();
    let s: &[Zst] = unsafe { std::slice::from_raw_parts(p, n) };
    let m: &mut [Zst] = unsafe { std::slice::from_raw_parts_mut(p, n) };
    let r = CSliceRef::from_slice(s);
    ensure!(r.len() == n && r.as_slice().len() == n, "slice:zst_len", "CSliceRef over {} zero-sized elements reports {} / converts back to {}", n, r.len(), r.as_slice().len());
    let back: &[Zst] = r.into();
    ensure!(back.len() == n && back.as_ptr() == p as *const Zst, "slice:zst_len", "From<CSliceRef> for &[T]: {} zero-sized elements came back as {}", n, back.len());
    let c: CSliceMut<Zst> = m.into();
    ensure!(c.len() == n && (*c).len() == n, "slice:zst_len", "CSliceMut over {} zero-sized elements reports {} / derefs to {}", n, c.len(), (*c).len());
    let r2: CSliceRef<Zst> = (&c).into();
    ensure!(r2.len() == n, "slice:zst_len", "CSliceMut -> CSliceRef: {} became {}", n, r2.len());
    let back: &mut [Zst] = c.into();
    ensure!(back.len() == n, "slice:zst_len", "From<CSliceMut> for &mut [T]: {} zero-sized elements came back as {}", n, back.len());
    let m2: &mut [Zst] = unsafe { std::slice::from_raw_parts_mut(p, n) };
    let c2: CSliceMut<Zst> = m2.into();
    let back: &[Zst] = c2.into();
    ensure!(back.len() == n, "slice:zst_len", "From<CSliceMut> for &[T]: {} zero-sized elements came back as {}", n, back.len());
    Ok(digest(&n))
}

const HUGE: [usize; 8] = [0, 1, isize::MAX as usize - 1, isize::MAX as usize, isize::MAX as usize + 1, usize::MAX / 2 + 7, usize::MAX - 1, usize::MAX];

fn main() {
    quiet_panics();
    let sections = vec![
        Section {
            name: "huge_zst_slices",
            explore: Box::new(|cx: &Cx| {
                cx.rule("huge_zst_slices", "slices of a zero-sized element type with lengths around isize::MAX and up to usize::MAX (legal: no bytes are addressed) through every conversion of CSliceRef / CSliceMut: the length survives");
                for n in HUGE {
                    cx.eval("huge_zst_slices", &serde_json::json!({"zst_len": n.to_string()}), || run_alloc(|| huge_zst_case(n), n > 0));
                }
            }),
            replay: Box::new(|case: &Value| {
                let n: usize = case["zst_len"].as_str().unwrap().parse().unwrap();
                run_alloc(|| huge_zst_case(n), n > 0)
            }),
        },
        Section {
            name: "slices",
            explore: Box::new(|cx: &Cx| {
                let l = cx.tier.pick(6, 12);
                cx.rule("slices", &format!("every sub-slice (offset, length 0..={}) of a backing buffer, for element types u8, u64, zero-sized and a 3-byte #[repr(C)] struct; all conversion paths of CSliceRef/CSliceMut; six write paths checked element by element against the backing buffer; non-trivial = non-empty slice", l));
                slices::<u8>(cx, "slices", l);
                slices::<u64>(cx, "slices", l);
                slices::<Zst>(cx, "slices", l);
                slices::<S3>(cx, "slices", l);
            }),
            replay: Box::new(replay_slice),
        },
        Section {
            name: "utf8",
            explore: Box::new(|cx: &Cx| {
                let (alpha, l) = match cx.tier {
                    Tier::Quick => (ALPHA_Q, 4),
                    Tier::Thorough => (ALPHA_T, 5),
                };
                cx.rule("utf8", &format!("all byte strings of length <= {} over {:02x?} (ASCII, continuation, 2/3/4-byte leads, overlong and surrogate-range starters); TryFrom for &str / &mut str must agree with core::str::from_utf8 incl. the error; valid strings round-trip with the same address; non-trivial = valid or containing a non-ASCII byte", l, alpha));
                utf8(cx, alpha, l);
            }),
            replay: Box::new(|case: &Value| {
                let bytes: Vec<u8> = serde_json::from_value(case["bytes"].clone()).unwrap();
                run_alloc(|| utf8_case(&bytes), true)
            }),
        },
        Section {
            name: "utf8_long",
            explore: Box::new(|cx: &Cx| {
                let l = cx.tier.pick(24, 40);
                cx.rule("utf8_long", &format!("buffers of every length 0..={} filled with ASCII plus ONE special sequence (continuation byte, 0xff, truncated/complete 2-, 3-, 4-byte sequences, overlong, surrogate, > U+10FFFF, NUL; byte order mark (once and twice), U+FFFE, U+FFFD, U+2028, NEL, no-break space, blank, LF, CRLF, TAB, quote) at every position, starting at every alignment offset 0..8 of a 64-byte aligned array; same oracle as [utf8]", l));
                utf8_long(cx, l);
            }),
            replay: Box::new(|c: &Value| {
                let g = |k: &str| c[k].as_u64().unwrap() as usize;
                run_alloc(|| utf8_long_case(g("total"), g("special"), g("pos"), g("align_offset")), true)
            }),
        },
        Section {
            name: "variants",
            explore: Box::new(|cx: &Cx| {
                cx.rule("variants", "every variant of COption/CResult and CTup1-4 with drop-counting, zero-sized and extreme payloads, both conversion directions plus take/as_ref/as_mut/ok/unwrap/into_tuple; payload moved exactly once; field positions of CTup2/3/4 read directly for all 336 element-type combinations over {u8,u16,u32,u64} in both directions");
                for w in 0..VARIANT_CASES {
                    cx.eval("variants", &json!({"which": w}), || run_alloc(|| variants_case(w), true));
                }
            }),
            replay: Box::new(|case: &Value| run_alloc(|| variants_case(case["which"].as_u64().unwrap() as usize), true)),
        },
    ];
    explore::run_main(CheckDef {
        property: "C12",
        level: "exploration",
        assumptions: vec!["core::str::from_utf8 is the reference for the UTF-8 decision".into(), "lengths above the bound are not covered".into()],
        sections,
        no_isolation: false,
    });
}
