//! The part of `tarc::BaseArc`'s API that cglue/src/task/mod.rs uses, implemented over
//! `loom::sync::Arc` so that loom sees every reference-count operation as a scheduling point.

use loom::sync::Arc;

pub struct BaseArc<T>(Arc<T>);

impl<T> BaseArc<T> {
    pub fn new(val: T) -> Self {
        BaseArc(Arc::new(val))
    }
    pub fn into_raw(self) -> *const T {
        Arc::into_raw(self.0)
    }
    /// # Safety
    /// `data` must come from `into_raw`.
    pub unsafe fn from_raw(data: *const T) -> Self {
        BaseArc(Arc::from_raw(data))
    }
    /// # Safety
    /// `ptr` must come from `into_raw` and the allocation must be alive.
    pub unsafe fn increment_strong_count(ptr: *const T) {
        Arc::increment_strong_count(ptr)
    }
    pub fn strong_count(&self) -> usize {
        Arc::strong_count(&self.0)
    }
    pub fn as_ptr(&self) -> *const T {
        Arc::as_ptr(&self.0)
    }
    /// exclusive access when this is the only handle (tarc: `get_mut`)
    pub fn get_mut(&mut self) -> Option<&mut T> {
        Arc::get_mut(&mut self.0)
    }
    /// # Safety
    /// `ptr` must come from `into_raw` and the allocation must be alive.
    pub unsafe fn decrement_strong_count(ptr: *const T) {
        Arc::decrement_strong_count(ptr)
    }
}

impl<T> Clone for BaseArc<T> {
    fn clone(&self) -> Self {
        BaseArc(self.0.clone())
    }
}

impl<T> core::ops::Deref for BaseArc<T> {
    type Target = T;
    fn deref(&self) -> &T {
        &self.0
    }
}
