#!/usr/bin/env python3
"""Prints the DESIGN.md 9.5 table from /verif/seeded/*/meta.json."""
import json, os, re

def key(d):
    m = re.match(r"C(\d+)(r[2345678])?-m(\d+)", d)
    return (int(m.group(1)), int(m.group(2)[1]) if m.group(2) else 0, int(m.group(3)))

rows = []
for d in sorted(os.listdir("/verif/seeded"), key=key):
    meta = json.load(open("/verif/seeded/%s/meta.json" % d))
    first = "missed" if meta["note"].startswith("missed") or meta["note"].startswith("set aside") or meta["note"].startswith("NOT caught") or "no longer compiled" in meta["note"] or meta["note"].startswith("at first the harness") else ("widened first" if meta["note"].startswith("anticipated") or meta["note"].startswith("widened before") else "caught")
    rows.append("| %s | %s | %s | %s | %s |" % (d, meta["change"].replace("|", "\\|"), first, ", ".join(meta["caught_by"]) or "—", meta["note"].replace("|", "\\|")))
print("| seeded change | what it does | as first built | caught by (now) | how |")
print("|---|---|---|---|---|")
print("\n".join(rows))
