#!/bin/bash
# Confirm a seeded change in its scratch worktree: demo passes on the clean tree, the 68 tests pass with
# the patch, the demo fails with the patch.   usage: seed_confirm.sh <ID> <m1|m2> [cargo test extra args]
ID=$1; M=$2; shift 2; EXTRA="$@"
WT=/tmp/mut_$ID; D=/tmp/mut_out/$ID/$M
cd $WT || exit 2
git checkout -q -- . ; rm -rf cglue/tests
mkdir -p cglue/tests && cp $D/demo.rs cglue/tests/demo_$ID.rs
echo "== clean tree: demo"; cargo test --offline -p cglue $EXTRA --test demo_$ID 2>&1 | grep -E "^test result|error(\[|:)" | head -3
git apply --whitespace=nowarn $D/patch.diff || { echo "PATCH DOES NOT APPLY"; exit 2; }
echo "== patched: suite"; rm -rf cglue/tests; cargo nextest run --workspace --no-fail-fast --offline 2>&1 | grep -E "Summary|FAIL|SIGSEGV|error" | head -5
mkdir -p cglue/tests && cp $D/demo.rs cglue/tests/demo_$ID.rs
echo "== patched: demo"; cargo test --offline -p cglue $EXTRA --test demo_$ID 2>&1 | grep -E "^test result|error(\[|:)" | head -3
git checkout -q -- . ; rm -rf cglue/tests; git status --short | head -3
