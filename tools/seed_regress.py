#!/usr/bin/env python3
"""Re-evaluate every stored seeded change against the checks its meta.json names (quick tier).

    tools/seed_regress.py [<dir-prefix> ...]     e.g.  tools/seed_regress.py C10 C19r2

Applies /verif/seeded/<d>/patch.diff to /repo (tools/seed_eval.py: always reverted), runs the listed checks and
prints one line per change: CAUGHT (by which checks, first signature) or MISSED. Exit 1 if any is missed.
"""
import json, os, re, subprocess, sys

def key(d):
    m = re.match(r"C(\d+)(r[2345678])?-m(\d+)", d)
    return (int(m.group(1)), int(m.group(2)[1]) if m.group(2) else 0, int(m.group(3)))

def main():
    want = sys.argv[1:]
    dirs = sorted(os.listdir("/verif/seeded"), key=key)
    missed = 0
    for d in dirs:
        if want and not any(d.startswith(w + "-") or d == w for w in want):
            continue
        meta = json.load(open("/verif/seeded/%s/meta.json" % d))
        ids = ",".join(meta["caught_by"])
        p = subprocess.run([sys.executable, "/verif/tools/seed_eval.py", "/verif/seeded/%s/patch.diff" % d, ids, "--no-tests"],
                           stdout=subprocess.PIPE, stderr=subprocess.STDOUT, text=True)
        try:
            res = json.loads(p.stdout[p.stdout.index("{"):])
        except Exception:
            print("%-10s ERROR %s" % (d, p.stdout[-300:].replace("\n", " | ")))
            missed += 1
            continue
        by = [k for k, v in res["checks"].items() if v["rc"] == 1 and v["violations"] > 0]
        broken = [k for k, v in res["checks"].items() if v["rc"] not in (0, 1)]
        first = ""
        for k in by:
            if res["checks"][k]["first"]:
                first = res["checks"][k]["first"][0][:150]
                break
        if by:
            print("%-10s CAUGHT by %-12s not by %-8s %s%s" % (d, ",".join(by), ",".join(k for k in res["checks"] if k not in by) or "-", first, ("  [exit 2: %s]" % ",".join(broken)) if broken else ""), flush=True)
        else:
            missed += 1
            print("%-10s MISSED (checks %s)%s" % (d, ids, ("  [exit 2: %s]" % ",".join(broken)) if broken else ""), flush=True)
    return 1 if missed else 0

if __name__ == "__main__":
    sys.exit(main())
