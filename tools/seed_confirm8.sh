#!/bin/bash
# like seed_confirm.sh, for round-2 dirs: seed_confirm2.sh <ID> <m> [extra cargo args]
ID=$1; M=$2; shift 2; EXTRA="$@"
WT=/tmp/mut8_$ID; D=/tmp/mut_out/${ID}r8/$M
cd $WT || exit 2
git checkout -q -- . ; rm -rf cglue/tests
mkdir -p cglue/tests && cp $D/demo.rs cglue/tests/demo_x.rs
echo "clean-demo: $(cargo test --offline -p cglue $EXTRA --test demo_x 2>&1 | grep -E '^test result' | head -1)"
git apply --whitespace=nowarn $D/patch.diff || { echo "PATCH DOES NOT APPLY"; exit 2; }
rm -rf cglue/tests; echo "patched-suite: $(cargo nextest run --workspace --no-fail-fast --offline 2>&1 | grep -E 'Summary' | head -1)"
mkdir -p cglue/tests && cp $D/demo.rs cglue/tests/demo_x.rs
echo "patched-demo: $(cargo test --offline -p cglue $EXTRA --test demo_x 2>&1 | grep -E '^test result|SIGABRT|signal' | head -1)"
git checkout -q -- . ; rm -rf cglue/tests
