#!/bin/bash
# benign (property-preserving) changes: every check must stay quiet.   ben_batch.sh "C01 C01,C02,..." ...
for spec in "$@"; do
  set -- $spec; id=$1; checks=$2
  for d in /tmp/mut_out/${id}ben5/b*; do
    [ -f $d/patch.diff ] || continue
    echo "### $id $(basename $d) -> $checks"
    python3 /verif/tools/seed_eval.py $d/patch.diff $checks 2>&1 | python3 -c "
import json,sys
t=sys.stdin.read()
try:
    d=json.loads(t[t.index('{'):])
    print('    tests:', d.get('tests'), d.get('tests_tail','')[:80])
    for k,v in d['checks'].items(): print('   ', k, 'rc=%s'%v['rc'], 'viol=%s'%v['violations'], '%ss'%v['wall_s'], (v['first'][:2] or v.get('machinery_tail',[''])[-2:]))
except Exception as e:
    print('   ERR', e, t[-500:])
"
  done
done
