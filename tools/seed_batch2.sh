#!/bin/bash
for spec in "$@"; do
  set -- $spec; m=$1; checks=$2
  echo "### $m -> $checks"
  python3 /verif/tools/seed_eval.py /tmp/mut_out/$m/patch.diff $checks --no-tests 2>&1 | python3 -c "
import json,sys
t=sys.stdin.read()
try:
    d=json.loads(t[t.index('{'):])
    for k,v in d['checks'].items(): print('   ', k, 'rc=%s'%v['rc'], 'viol=%s'%v['violations'], '%ss'%v['wall_s'], (v['first'][:1] or v.get('machinery_tail',[''])[-2:]))
except Exception as e:
    print('   ERR', e, t[-500:])
"
done
