#!/usr/bin/env python3
"""Evaluate one seeded change against the checks.

    tools/seed_eval.py <patch.diff> <ID>[,<ID>...] [--tier quick|thorough] [--no-tests]

Applies the patch to /repo (which must be clean), runs the pinned test suite, runs the listed checks, and
ALWAYS reverts /repo (git checkout -- . plus removal of files the patch added). Prints one JSON summary line.
"""
import json, os, subprocess, sys, time

def sh(cmd, **kw):
    return subprocess.run(cmd, shell=True, stdout=subprocess.PIPE, stderr=subprocess.STDOUT, text=True, **kw)

def main():
    patch = os.path.abspath(sys.argv[1])
    ids = sys.argv[2].split(",")
    tier = "quick"
    if "--tier" in sys.argv:
        tier = sys.argv[sys.argv.index("--tier") + 1]
    st = sh("git -C /repo status --porcelain --untracked-files=no").stdout.strip()
    if st:
        print("REFUSING: /repo is not clean:\n" + st); return 2
    a = sh("git -C /repo apply --whitespace=nowarn %s" % patch)
    if a.returncode != 0:
        print("patch does not apply:\n" + a.stdout); return 2
    out = {"patch": patch, "tier": tier, "tests": None, "checks": {}}
    try:
        if "--no-tests" not in sys.argv:
            t = sh("cd /repo && cargo nextest run --workspace --no-fail-fast --offline 2>&1 | tail -3")
            out["tests"] = "68 passed" in t.stdout and "failed" not in t.stdout.split("Summary")[-1]
            out["tests_tail"] = t.stdout.strip().splitlines()[-1] if t.stdout.strip() else ""
        for i in ids:
            t0 = time.time()
            r = sh("cd /verif && ./check %s --tier %s" % (i, tier))
            viol = [l for l in r.stdout.splitlines() if l.startswith("VIOLATION")]
            sigs = [l.strip()[:220] for l in r.stdout.splitlines() if l.startswith("  violation ")]
            out["checks"][i] = {"rc": r.returncode, "violations": len(viol), "first": sigs[:3], "wall_s": round(time.time() - t0, 1)}
            if r.returncode == 2:
                out["checks"][i]["machinery_tail"] = r.stdout.strip().splitlines()[-6:]
    finally:
        sh("git -C /repo checkout -- .")
        added = sh("git -C /repo status --porcelain").stdout
        for l in added.splitlines():
            if l.startswith("??"):
                f = os.path.join("/repo", l[3:].strip())
                if "/target" not in f and os.path.isfile(f):
                    os.remove(f)
    print(json.dumps(out, indent=1))
    return 0

if __name__ == "__main__":
    sys.exit(main())
