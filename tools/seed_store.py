#!/usr/bin/env python3
"""Copies confirmed seeded changes from /tmp/mut_out into /verif/seeded/<ID>-<m>/ with a meta.json."""
import json, os, shutil, sys

T = {
 "C01-m1": ("C01", "cglue-gen/src/traits.rs parse_trait: methods with a default body and a method-level `where` clause get no vtable slot; the opaque object runs the trait's default body instead of the implementor's override", "a #[cglue_trait] method with default body + `where Self: Sized` that the implementor overrides", ["C01", "C04"], "missed at first (no default-body members in the grammar); caught after adding default-body structure members and making the raw vtable check independent of the per-method getters"),
 "C01-m2": ("C01", "cglue/src/result.rs from_int_result_empty: only positive codes are treated as errors", "an #[int_result] method returning Result<(), E> whose error encodes to a negative code and actually fails", ["C13"], "caught by the C13 runtime sweep (values section: negative OS codes); C01 itself uses codes >= 1"),
 "C02-m1": ("C02", "cglue/src/slice.rs From<CSliceRef<T>> for &[T]: empty slices are replaced by a fresh `&[]` (address lost)", "an empty sub-slice of a live buffer in argument or return position, observed by address", ["C02", "C01", "C12"], "caught as built"),
 "C02-m2": ("C02", "cglue/src/result.rs IntError for io::Error: non-positive OS codes become 0xffff", "Err(io::Error::from_raw_os_error(n)) with negative n through an #[int_result] method", ["C13"], "caught by the complete 2^32 sweep"),
 "C04-m1": ("C04", "cglue-gen/src/traits.rs parse_trait: #[vtbl_only] methods are moved to the end of the vtable", "a trait with a #[vtbl_only] method declared before a regular method", ["C04"], "missed at first; caught after adding the hand-written TV member (vtbl_only + custom_impl between regular methods) whose five vtable words are called in order"),
 "C04-m2": ("C04", "cglue-gen/src/trait_groups.rs mixed_opt_vtbl_defs: the With-struct lists selected optional vtables contiguously", "a group with >= 3 optional traits and a cast/view to a non-contiguous subset (Oa + Oc)", ["C04", "C08"], "caught as built (group_layout cast_bits, cast_matrix dispatch)"),
 "C06-m1": ("C06", "cglue/src/boxed.rs cglue_drop_slice_box: returns early when the slice occupies no memory, so zero-sized elements are never dropped", "a non-empty CSliceBox of a zero-sized element type with a destructor", ["C06"], "missed at first; caught after adding zero-sized-with-Drop payloads (CBox, CSliceBox, opaque forms) to the lifecycle alphabet"),
 "C06-m2": ("C06", "cglue-gen/src/trait_groups.rs cast_impl_*: self is wrapped in ManuallyDrop before validation, a failed by-value cast leaks the object", "a boxed group with a droppable payload, cast!() to a trait it does not enable", ["C06", "C08"], "caught as built"),
 "C07-m1": ("C07", "cglue-gen/src/func.rs TraitArgConv: the caller-side context guard is omitted for consuming calls that return a wrapped associated type", "consuming method returning Result<wrapped child, E>, the call returns Err, the consumed object is the last holder of the context", ["C07"], "missed at first; caught after adding consume_try / consume_try_int (Ok and Err) to the last-holder section"),
 "C07-m2": ("C07", "cglue-gen/src/trait_groups.rs group container: fields instance/context swapped, the context is dropped before the instance", "a group object that is the last holder of the context, with an instance destructor that needs the context", ["C07", "C04"], "C04 (layout:instance) caught it as built; C07 caught it after adding the instance-before-context order check for last holders"),
 "C08-m1": ("C08", "cglue-gen/src/trait_groups.rs vtbl_unwrap_validate: presence check deduplicated by raw trait ident, aliased instantiations of one generic trait share a key", "group with two aliased instantiations of a generic trait, implementor enabling only one, multi-trait request", ["C08"], "caught as built (Gali family)"),
 "C08-m2": ("C08", "cglue-gen/src/trait_groups.rs cast_impl_*: non-requested optional vtables are set to None in the cast result", "type with >= 2 enabled optional traits, cast to a strict subset, upcast, then ask for a trait not in the cast", ["C08"], "caught as built (cast:upcast)"),
 "C10-m1": ("C10", "cglue/src/arc.rs: take() leaves clone_fn/drop_fn in the source and Clone tests clone_fn instead of instance (two cooperating sites)", "from(..), take(), then clone() of the emptied handle", ["C10"], "caught as built (process dies with a panic in the cloned case, attributed by the crash isolation)"),
 "C10-m2": ("C10", "cglue/src/arc.rs CArcSome::transpose goes through into_arc(): the handle is rebound to the local clone/drop functions", "transpose() of an opaque or foreign CArcSome", ["C10", "C05"], "C10 caught it as built (arc:fn_ptrs); C05 after adding the transpose round trip to the cross-module alphabet"),
 "C11-m1": ("C11", "cglue/src/vec.rs insert: insertion pointer computed before reserve(1)", "insert into a CVec with len == capacity when the buffer relocates", ["C11"], "caught as built"),
 "C11-m2": ("C11", "cglue/src/vec.rs cglue_drop_vec: early return for zero-sized element types skips their destructors", "zero-sized element type with Drop, at least one element still in the vector when it is dropped", ["C11"], "missed at first; caught after adding a zero-sized element type with a destructor"),
 "C12-m1": ("C12", "cglue/src/slice.rs TryFrom for &str: ASCII fast path over aligned words ignores the unaligned tail", "buffer of >= 8 bytes whose only invalid byte sits after the last 8-byte boundary", ["C12"], "missed at first (strings up to 4-5 bytes); caught after adding the utf8_long section (one special sequence in an ASCII sea, every length/position/alignment)"),
 "C12-m2": ("C12", "cglue/src/tuple.rs: From between tuples and CTupN done by transmute_copy when sizes match", "CTup3/CTup4 whose non-last fields have ascending differing alignments, fields read directly", ["C12"], "missed at first (round trips only); caught after adding direct field-position checks for all 336 element-type combinations"),
 "C13-m1": ("C13", "cglue/src/result.rs from_int_result: ok_val.assume_init() before looking at the code", "non-zero code with a success payload type that has drop glue", ["C13"], "caught as built (poisoned slot + bogus-drop counter)"),
 "C13-m2": ("C13", "cglue-gen/src/func.rs: Result<(), E> int_result wrappers return `is_err() as i32`", "payload-free #[int_result] method with an error type that has more than one code", ["C13"], "missed at first; caught after adding the Result<(), io::Error> return shape to the grammar"),
 "C14-m1": ("C14", "cglue/src/repr_cstring.rs From<&[u8]>: verbatim copy when the last byte is NUL", "byte slice with an interior NUL and a trailing NUL", ["C14"], "caught as built"),
 "C14-m2": ("C14", "cglue/src/repr_cstring.rs PartialEq: strcmp-style loop that stops at the first NUL of either side", "two different strings where one is a strict prefix of the other", ["C14"], "caught as built"),
 "C15-m1": ("C15", "cglue/src/callback.rs feed_into_mut: count of calls that returned true", "a closure sink that returns false at some point", ["C15"], "caught as built"),
 "C15-m2": ("C15", "cglue/src/iter.rs: an nth() override on CIterator that overwrites skipped items without dropping them", "nth/skip/step_by on the wrapper with an element type that owns something", ["C15"], "missed at first; caught after adding the std adaptors (nth, skip, step_by, take+count) to the operation alphabet"),
 "C16-m1": ("C16", "cglue/src/vec.rs: drop function takes (data, capacity, len)", "a C caller releasing a vector with len != capacity as published", ["C16", "C11"], "caught as built"),
 "C16-m2": ("C16", "cglue/src/result.rs: #[repr(u32)] instead of #[repr(C)] on CResult", "payload types of different alignment, read through the narrower variant", ["C16"], "caught as built"),
 "C19-m1": ("C19", "cglue/src/task/mod.rs wake(): fast path forgets the handle when a sibling is alive", "clone of a clone, wake one by value while the other is alive", ["C19"], "caught as built by the history half (the loom half needed get_mut in the tarc shim to build)"),
 "C19-m2": ("C19", "cglue/src/task/mod.rs: wakes of one waker family are coalesced by a never-reset flag", "the same retained waker used for more than one wake", ["C19"], "caught as built"),
 "C03-m1": ("C03", "cglue-gen/src/func.rs ParsedReturnType: int-result lowering only when Result is written with two type arguments", "#[int_result(Alias)] with a one-parameter result alias", ["C03"], "at first the harness no longer compiled (exit 2); after making the raw vtable check independent of the integer-result signature the FFI lint reports the Rust Result in the vtable"),
 "C03-m2": ("C03", "cglue/src/option.rs: repr(C) of COption only under the abi_stable feature", "default features, payload smaller than 4 bytes or with a niche", ["C03", "C16"], "caught as built"),
 "C05-m1": ("C05", "cglue/src/vec.rs reserve: first buffer of a capacity-0 vector allocated locally", "an empty never-allocated CVec created in one module and grown in another", ["C05", "C11"], "C11 caught it as built; C05 after adding empty vectors to the cross-module alphabet"),
 "C05-m2": ("C05", "cglue/src/arc.rs CArcSome::transpose rebinding (same change as C10-m2)", "a foreign CArcSome transposed by the host, then cloned / dropped last", ["C05", "C10"], "C10 as built; C05 after adding the transpose round trip"),
 "C09-m1": ("C09", "cglue/src/forward.rs: per-handle Opaquable impls for Fwd, the Fwd<CBox<T>> one without T: Send", "Fwd around CBox with a !Send payload", ["C09"], "missed at first; caught after adding Fwd<&T>, Fwd<CBox<T>>, Fwd<CArcSome<T>> to the matrix"),
 "C09-m2": ("C09", "cglue/src/arc.rs: Send/Sync of CArcSome<T> bounded by `&'static T: Send/Sync`", "CArcSome over a Sync-but-not-Send payload", ["C09"], "missed at first; caught after adding the wrapper-vs-std cells (concrete cglue pointer vs the std handle it is built from)"),
 "C17-m1": ("C17", "cglue-bindgen/src/types.rs Group::create_wrappers: vtable name list built incrementally", "C++ mode, group with >= 2 traits, container-returning entry in a trait that is not the last vtable", ["C17"], "missed at first; caught after adding 3-trait Self-returning groups in C++ mode (self_return_vtbl_uninit:cpp:group — distinct from the C-mode known findings)"),
 "C17-m2": ("C17", "cglue-bindgen/src/types.rs create_wrapper: context clone only kept when the container has a drop helper", "C mode, consuming entry on a Mut/Ref container with CArc context, object holds the last reference", ["C17"], "caught as built (ctx_not_held:c)"),
 "C18-m1": ("C18", "cglue-bindgen/src/codegen/c.rs: callback helpers emitted by iterating a HashSet of element types", "C header with two or more distinct callback element types", ["C18"], "missed at first (one callback element type in the inputs); caught after adding inputs with several callback element types and 12 repeated runs per input (nondeterministic_output:1contexts:Ncallbacktypes)"),
 "C18-m2": ("C18", "cglue-bindgen/src/main.rs: first argument after `--` forwarded unconditionally", "-o/--output as the very first argument after `--`", ["C18"], "caught as built (args_forwarding:o_first)"),
 "C20-m1": ("C20", "cglue/src/callback.rs: func field typed through an alias and marked sabi(unsafe_opaque_field)", "argument type edit where only the element type of an OpaqueCallback changes", ["C20"], "missed at first; caught after adding element-type edits of callbacks/iterators/slices to the edit catalogue (layout:valid_for_edit:arg_elem:cb_arg)"),
 "C20-m2": ("C20", "cglue/src/trait_group.rs compare_layouts: cache of the last found layout that compared Valid", "two comparisons in one process with the same found layout and different expectations", ["C20"], "missed at first (one comparison per process); caught after adding the sequences section: every ordered pair/triple of comparisons in one process (layout:stateful:*)"),
}

# round 2: agents were told what round 1 had tried and asked for a different mechanism / trigger
T2 = {
 "C01r2-m1": ("C01", "cglue-gen/src/trait_groups.rs mixed_opt_vtbl_defs: the With-struct emits all selected optional vtables in one block", "group with >= 3 optional traits, as_ref!/as_mut!/cast+upcast to a non-contiguous pair on an object that also implements the skipped trait", ["C08", "C04"], "caught as built (cast_matrix dispatch, group_layout cast_bits)"),
 "C01r2-m2": ("C01", "cglue-gen/src/func.rs + traits.rs: methods returning a reference to the same wrapped associated type share one RetTmp slot", "two &self methods returning &Self::Assoc of the same wrapper type, first result kept alive across the second call", ["C06", "C07"], "missed at first; caught after adding child_ref2 and the BothRefs operation (both borrowed children held and used together) to the lifecycle alphabet"),
 "C04r2-m1": ("C04", "cglue-gen/src/trait_groups.rs Ord for TraitInfo compares lower-cased names", "group whose trait names order differently byte-wise and case-folded (TLB/Tag)", ["C04", "C08"], "missed at first; caught after adding the Gcase family (TLB, Tag, KVStore, KeyDumper)"),
 "C04r2-m2": ("C04", "cglue-gen/src/trait_groups.rs ret_tmp_defs: temporary-storage fields emitted in HashMap iteration order", "group with >= 2 traits whose RetTmp is not zero-sized; differs from expansion to expansion", ["C04"], "caught as built (expansion repeatability, run n times per group)"),
 "C04r2-m3": ("C04", "cglue/src/trait_group.rs CGlueObjContainer: ret_tmp stored before context", "object with a non-zero-sized context AND a trait with non-zero-sized temporary storage", ["C04"], "missed at first; caught after adding the hand-written single-trait-object container layout member (instance, context, temporary storage, in that order, read as raw words)"),
 "C06r2-m1": ("C06", "cglue/src/boxed.rs IntoInner for CBox: the box is freed by hand with the layout of the reference field", "consuming (self) method on a boxed object whose payload is not pointer-shaped, seen by a layout-recording allocator", ["C06"], "caught as built (allocator LayoutMismatch)"),
 "C06r2-m2": ("C06", "cglue-gen/src/trait_groups.rs upcast(): bitwise copy without forgetting self", "boxed group with droppable payload: cast! then upcast() then use/drop", ["C06", "C08"], "caught as built (cast:drop_count / double free in the allocator)"),
 "C08r2-m1": ("C08", "cglue-gen/src/trait_groups.rs mixed_opt_vtbl_defs: cast-struct field order keyed by lower-cased field name", "trait names ordering differently when case-folded, as_ref!/as_mut! or cast + upcast", ["C08", "C04"], "missed at first; caught after adding the Gcase family"),
 "C08r2-m2": ("C08", "cglue-gen/src/trait_groups.rs implement_group: the filler of the type itself is built from the forward list", "cglue_impl_group!(T, G, { own list }, { forward list }) with differing lists", ["C08", "C04"], "missed at first (3-argument form only); caught after adding the Gfwd family (4-argument form, Fwd container cells)"),
 "C10r2-m1": ("C10", "cglue/src/arc.rs c_clone: type-erased Arc<c_void> clone", "payload with alignment >= 32, clone of any handle", ["C10"], "missed at first; caught after adding the 64-byte-aligned payload sections"),
 "C10r2-m2": ("C10", "cglue/src/arc.rs c_drop: runs the destructor itself if strong_count == 1 (check-then-act), then drops Arc<ManuallyDrop<T>>", "two threads releasing the last handles of one allocation concurrently, payload with a destructor, no other owner", ["C10"], "missed at first (every scenario kept a retained Arc); caught by loom after adding the handles-only scenarios (root from From<T>, payload must be destroyed exactly once)"),
 "C11r2-m1": ("C11", "cglue/src/vec.rs From<Vec<T>>: drop_fn None for a vector that has not allocated", "CVec from a zero-capacity Vec, then grown; only a leak check sees it", ["C11"], "caught as built (allocator leak)"),
 "C11r2-m2": ("C11", "cglue/src/vec.rs remove: new length committed before the bounds check", "remove(index >= len) on a non-empty vector, panic caught, vector inspected afterwards", ["C11"], "caught as built (out-of-range removal with catch_unwind, then lock-step comparison)"),
 "C11r2-m3": ("C11", "cglue/src/vec.rs TempVec::drop writes data/capacity back only when the pointer moved", "growth for which realloc keeps the address (size-class allocator)", ["C11"], "missed at first (the tracking allocator always relocated); caught after adding the size-class mode (in-place realloc) and the *_inplace sections"),
 "C16r2-m1": ("C16", "cglue/src/iter.rs next(): only the literal 1 means end of stream", "foreign iterator following the published layout that signals the end with a non-zero code other than 1", ["C16"], "missed at first; caught after the mirror iterators use end codes {1, -1, 2, i32::MIN}"),
 "C16r2-m2": ("C16", "cglue/src/slice.rs: len field stores bytes instead of elements", "element size > 1, access through the published {data, len} layout", ["C16", "C02"], "caught as built (mirror structs; C cross-check)"),
 "C19r2-m1": ("C19", "cglue/src/task/mod.rs wake(): the handle is released before the caller's waker is woken through a stale copy", "the woken handle is the last of its family and the caller has already dropped its own waker", ["C19"], "missed at first; caught after adding DropCaller to the alphabet and checking use-after-release at every step"),
 "C19r2-m2": ("C19", "cglue/src/task/mod.rs: wake_by_ref/drop callbacks return early when a word of the stored raw waker is null", "caller waker with a null data pointer (state in a static), retained clone", ["C19"], "missed at first; caught after adding the *_nulldata sections"),
}

def main():
    allt = dict(T)
    allt.update(T2)
    for key, (prop, what, needs, caught_by, note) in allt.items():
        ident, m = key.split("-")
        src = "/tmp/mut_out/%s/%s" % (ident, m)
        dst = "/verif/seeded/%s" % key
        if os.path.isdir(src):
            os.makedirs(dst, exist_ok=True)
            for f in os.listdir(src):
                if os.path.isfile(os.path.join(src, f)) and os.path.getsize(os.path.join(src, f)) < 400000:
                    shutil.copy(os.path.join(src, f), os.path.join(dst, f))
        elif not os.path.isdir(dst):
            continue
        feat = " --features task" if prop == "C19" else (" --features layout_checks" if prop == "C20" else "")
        demo = "demo.rs" if os.path.exists(os.path.join(dst, "demo.rs")) else ("run.sh" if os.path.exists(os.path.join(dst, "run.sh")) else "demo.sh")
        meta = {
            "property": prop,
            "change": what,
            "needs_to_manifest": needs,
            "origin": "fresh sub-agent given only the property text and a scratch worktree of /repo" + (" (round 2: also told, in one line each, which changes round 1 had tried, to get a different mechanism)" if "r2" in key else ""),
            "confirmed": {
                "how": ("scratch worktree: demo on the clean tree passes; patch applied: `cargo nextest run --workspace --no-fail-fast --offline` 68/68 pass; demo fails (tools/seed_confirm.sh / seed_confirm2.sh)"
                        if demo == "demo.rs" else "scratch worktree: %s passes on the clean tree, fails with the patch; 68/68 tests pass with the patch" % demo),
                "demo": demo,
                "demo_cmd": ("mkdir -p <wt>/cglue/tests && cp demo.rs <wt>/cglue/tests/demo.rs && cd <wt> && cargo test --offline -p cglue%s --test demo" % feat) if demo == "demo.rs" else "sh %s <wt>" % demo,
            },
            "checks_run": "tools/seed_eval.py <patch> <checks> (git -C /repo apply; ./check <ID> --tier quick; git -C /repo checkout -- .)",
            "caught_by": caught_by,
            "note": note,
        }
        with open(os.path.join(dst, "meta.json"), "w") as f:
            json.dump(meta, f, indent=1)
    print("stored", len([d for d in os.listdir("/verif/seeded")]))

if __name__ == "__main__":
    main()
