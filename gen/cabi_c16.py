"""C16 cross-checks: (1) a C program that knows the runtime types only through the published header
/repo/examples/pregen-headers/bindings.h is linked against a Rust staticlib of factories/consumers
(engine/h_cabi) built in debug and release, compiled by gcc at -O0 and -O2; (2) the mirror-struct harness
(h_runtime/c16) is additionally run in the debug profile (the release run is the first step of the check)."""
import json
import os
import subprocess

from pyreport import Report


def run(prop, tier, replay, Ctx):
    repo = os.environ.get("VERIF_REPO_DIR", "/repo")
    rep = Report(prop, tier, "exploration", Ctx.ENV.get("VERIF_SEED", "0"))
    rep.assume("the published header is examples/pregen-headers/bindings.h as committed in the repository (produced by an older tool version); gcc is the C compiler")
    rep.rule("c_caller", "matrix {Rust staticlib profile: debug, release} x {gcc -O0, -O2}: a C translation unit that includes only the published header operates values made by Rust (box: read through instance, release with the published helper, hand back by value; arc: clone/drop with the published helpers, counts, empty handle; slices both directions incl. empty; callbacks built with the published COLLECT_CB/CALLBACK macros, stop on false; iterators built with the published BUF_ITER macros incl. empty); one case per (profile, opt level, check)")
    out_dir = os.path.join(Ctx.BUILD, "c16")
    os.makedirs(out_dir, exist_ok=True)
    want = None
    if replay is not None:
        want = json.load(open(replay))["case"]
    for profile in ("release", "debug"):
        Ctx.cargo_build("h_cabi", None, None, profile=profile if profile == "release" else "dev")
        lib = os.path.join(Ctx.TARGET, profile, "libh_cabi.a")
        for opt in ("-O0", "-O2"):
            exe = os.path.join(out_dir, "driver_%s_%s" % (profile, opt[1:]))
            cmd = ["gcc", "-std=gnu99", opt, "-I", os.path.join(repo, "examples", "pregen-headers"), "-o", exe,
                   os.path.join(Ctx.ENGINE, "h_cabi", "c", "driver.c"), lib, "-lpthread", "-ldl", "-lm"]
            p = subprocess.run(cmd, stdout=subprocess.PIPE, stderr=subprocess.STDOUT, text=True)
            if p.returncode != 0:
                errs = [l for l in p.stdout.splitlines() if "error" in l][:3]
                # the driver only uses the published declarations and the staticlib's symbols: a compile error means one of
                # them changed shape
                rep.record("c_caller", {"profile": profile, "opt": opt, "check": "compile"}, violation=("cabi:compile", "the C driver no longer compiles/links against the published header and the library: %s" % errs))
                continue
            r = subprocess.run([exe], stdout=subprocess.PIPE, stderr=subprocess.STDOUT, text=True)
            lines = r.stdout.splitlines()
            if r.returncode < 0 or not any(l.startswith(("ALL_OK", "FAILED")) for l in lines):
                done = [l.split(" ", 1)[1] for l in lines if l.startswith("ok ")]
                rep.record("c_caller", {"profile": profile, "opt": opt, "check": "crash"}, violation=("cabi:crash", "the C driver died (status %s) after checks %s" % (r.returncode, done[-3:])))
                continue
            for l in lines:
                if l.startswith("ok ") or l.startswith("FAIL "):
                    ok, name = l.startswith("ok "), l.split(" ", 1)[1]
                    case = {"profile": profile, "opt": opt, "check": name}
                    if want is not None and (want.get("check") != name):
                        continue
                    rep.record("c_caller", case, obs=[profile, opt, name, ok], violation=None if ok else ("cabi:%s" % name, "C caller using only the published declarations: check `%s` failed (Rust %s, gcc %s)" % (name, profile, opt)))
    if replay is not None:
        return ("replay", 1 if rep.violations else 0)
    out = rep.build()
    if tier == "thorough":
        # the mirror-struct harness once more, in the debug profile
        Ctx.cargo_build("h_runtime", ["c16"], None, profile="dev")
        exe = os.path.join(Ctx.TARGET, "debug", "c16")
        o = os.path.join(Ctx.BUILD, "reports", "C16-c16-debug.json")
        if os.path.exists(o):
            os.remove(o)
        p = subprocess.run([exe, "--tier", tier, "--out", o], env=Ctx.ENV)
        if p.returncode != 0 or not os.path.exists(o):
            raise Ctx.Machinery("c16 (debug profile) produced no report")
        d = json.load(open(o))
        for s in d["coverage"]["sections"]:
            s["section"] += "[debug profile]"
        for k in ("evaluations", "distinct_nontrivial"):
            out["coverage"][k] += d["coverage"][k]
        out["coverage"]["sections"] += d["coverage"]["sections"]
        for v in d["violation_records"]:
            v["signature"] += ":debug"
            out["violation_records"].append(v)
    return ("report", out)
