"""Mock translation units for processed headers (C99 and C++11) and the evaluation of their logs.

For one case (model, language) and the header the REAL tool produced:

* `parse_wrappers` finds every generated wrapper in the processed header (C: `static inline` functions whose first
  parameter is `self`; C++: `inline` member functions of the group structs / `CGlueTraitObj` specialisations) together
  with what can be read off its text: the object type it is written for, the vtable field and entry it calls.
* `generate` writes a TU that includes the processed header, defines for every object/group instance of the model a
  mock vtable whose slot k prints (k, whether `cont` is the object's container, the context refcount, every argument)
  and returns a sentinel derived from k; mock CBox `drop_fn` / CArc `clone_fn`,`drop_fn` that print events with an
  "inside a slot" flag; then calls EVERY wrapper that is callable on the instance with distinct argument sentinels
  (position- and kind-dependent) and prints the returned value. Consuming slots behave like the Rust side: they own the
  container and release instance + context before returning. Slots returning the container hand out a second instance
  and one more context reference.
* `evaluate` turns the log into verdicts (see bindgen_c17 for the oracle text).

Wrappers are discovered, not predicted: nothing here encodes the tool's naming scheme beyond "the wrapper's name ends
with the entry's name" and "its self parameter accepts the object".
"""
import os
import re
import subprocess

import bindgen_headers as H

# ------------------------------------------------------------------------------------------ instance facts


def _follow(lib, name):
    it = lib.items.get(name)
    while it is not None and it["kind"] == "typedef":
        al = it["aliased"]
        if al[0] != "path":
            return None
        it = lib.items.get(al[1])
    return it


def instances_info(model, lib, lang):
    """Per instance: alias spelling, family, entries (vtable field, trait, method, global slot id k)."""
    traits = {t["name"]: t for t in model["traits"]}
    groups = {g["name"]: g for g in model.get("groups", [])}
    out, k = [], 0
    fam_first = {}
    for idx, ins in enumerate(model["instances"]):
        base = ins["trait"] if ins["kind"] == "obj" else ins["group"]
        al = H.alias_type(base, ins["cont"], ins["ctx"])
        info = {"idx": idx, "kind": ins["kind"], "base": base, "cont": ins["cont"], "ctx": ins["ctx"], "family": (ins["kind"], base)}
        info["first_of_family"] = info["family"] not in fam_first
        fam_first.setdefault(info["family"], idx)
        if ins["kind"] == "obj":
            fields = [("vtbl", base)]
        else:
            g = groups[base]
            fields = [("vtbl_" + t.lower(), t) for t in sorted(g["mandatory"]) + sorted(g["optional"])]
        if lang == "c":
            name = lib.resolve(al)[1]
            st = _follow(lib, name)
            info["alias"] = name
            info["struct"] = st["name"]
            info["decl"] = "struct " + st["name"]
            cont_ty = dict(st["fields"])["container"]
            info["cont_ty"] = cont_ty
            info["cont_decl"] = lib.decl(cont_ty, "")
            info["vtbl_decl"] = {f: lib.decl(dict(st["fields"])[f][1], "") for f, _ in fields}
        else:
            info["alias"] = lib.decl(al, "")
            info["struct"] = base
            info["decl"] = info["alias"]
            info["cont_ty"] = H.path("Cont_%d" % idx)
            info["cont_decl"] = "Cont_%d" % idx
            info["vtbl_decl"] = {f: "%sVtbl<Cont_%d>" % (t, idx) for f, t in fields}
        entries = []
        names_seen = {}
        for f, t in fields:
            ms, _ = H.trait_methods(traits[t])
            for m in ms:
                names_seen.setdefault(m["name"], set()).add(t)
        for f, t in fields:
            ms, _ = H.trait_methods(traits[t])
            for m in ms:
                if isinstance(m["ret"], dict):
                    continue  # wrapped returns are not exercised by the mock (C18 only compiles them)
                entries.append({"k": k, "field": f, "trait": t, "m": m, "clash": len(names_seen[m["name"]]) > 1})
                k += 1
        info["entries"] = entries
        info["fields"] = fields
        out.append(info)
    return out


# ------------------------------------------------------------------------------------------ wrapper discovery

def _split_params(s):
    out, depth, cur = [], 0, ""
    for ch in s:
        if ch in "(<[":
            depth += 1
        elif ch in ")>]":
            depth -= 1
        if ch == "," and depth == 0:
            out.append(cur.strip())
            cur = ""
        else:
            cur += ch
    if cur.strip():
        out.append(cur.strip())
    return out


# (lookarounds: the separators are not consumed, so wrappers that follow each other without a blank line are all found;
#  nothing else about the body's text - local names, temporaries, statement layout - is assumed)
C_WRAPPER_RE = re.compile(r"(?<=\n)static inline (?P<ret>[^\n(]*?)(?P<name>\w+)\((?P<params>[^\n]*)\)\s*\{(?P<body>.*?)\n\}(?=\n)", re.S)
# the vtable call of a wrapper, however the object is spelled: self->vtbl, self.vtbl, (*self).vtbl, ((T *)self)->vtbl, this->vtbl, (*this).vtbl, vtbl
CALL_RE = re.compile(r"\b(vtbl\w*)\s*\)\s*->\s*(\w+)\s*\(")


def parse_wrappers_c(text):
    out = []
    for m in C_WRAPPER_RE.finditer(text):
        params = _split_params(m.group("params"))
        if not params or not re.search(r"\bself$", params[0]):
            continue
        p0 = params[0]
        body = m.group("body")
        w = {"name": m.group("name"), "ret": m.group("ret").strip(), "params": params[1:], "body": body, "qual": ""}
        t = re.match(r"^(const )?(struct \w+) (\*)?self$", p0)
        g = re.match(r"^(const )?void \*self$", p0)
        if t:
            w["self"] = "ptr" if t.group(3) else "value"
            w["subject"] = t.group(2)
            w["generic"] = False
        elif g:
            w["self"] = "ptr"
            c = re.search(r"\((?:const )?(struct \w+) \*\)\s*self\b", body)
            w["subject"] = c.group(1) if c else None
            w["generic"] = True
        else:
            continue
        c = CALL_RE.search(body)
        w["calls"] = (c.group(1), c.group(2)) if c else None
        out.append(w)
    return out


CPP_MEMBER_RE = re.compile(r"(?<=\n)    inline (?P<ret>[^\n]*?)\s(?P<name>\w+)\((?P<params>[^\n]*)\)\s*(?P<qual>const |&& )?noexcept\s*\{(?P<body>.*?)\n    \}(?=\n)", re.S)


def parse_wrappers_cpp(text, model):
    """-> dict family -> list of wrappers"""
    out = {}
    fams = []
    for g in model.get("groups", []):
        fams.append((("group", g["name"]), re.compile(r"\nstruct %s \{\n(?P<body>.*?)\n\};\n" % re.escape(g["name"]), re.S)))
    for t in model["traits"]:
        fams.append((("obj", t["name"]), re.compile(
            r"\nstruct CGlueTraitObj<T, %sVtbl<CGlueObjContainer<T, C, R>>, C, R> \{\n(?P<body>.*?)\n\};\n" % re.escape(t["name"]), re.S)))
    for fam, rx in fams:
        ws = []
        m = rx.search(text)
        if m:
            for w in CPP_MEMBER_RE.finditer("\n" + m.group("body") + "\n"):
                body = w.group("body")
                c = CALL_RE.search(body)
                ws.append({"name": w.group("name"), "ret": w.group("ret").strip(), "params": _split_params(w.group("params")),
                           "qual": (w.group("qual") or "").strip(), "body": body, "calls": (c.group(1), c.group(2)) if c else None,
                           "generic": False, "subject": fam,
                           "self": "value" if (w.group("qual") or "").strip() == "&&" else "ptr"})
        out[fam] = ws
    return out


# ------------------------------------------------------------------------------------------ sentinels (shared by generator and oracle)

CB_OFF = {"cb_p2": 110, "cb_p3": 130}
CB_ELEM = {"cb_p2": "Point2", "cb_p3": "Addr"}


def arg_setup(kind, p, var, lang):
    """statements initialising the already declared variable `var`"""
    if kind == "u8":
        return "%s = (uint8_t)(0x11 + %d);" % (var, p)
    if kind == "u64":
        return "%s = (uint64_t)(1000001 + 7 * %d);" % (var, p)
    if kind == "i32":
        return "%s = (int32_t)(-(100 + %d));" % (var, p)
    if kind == "usize":
        return "%s = (uintptr_t)(5000 + %d);" % (var, p)
    if kind == "bool":
        return "%s = %s;" % (var, "true" if p % 2 == 0 else "false")
    if kind == "s3":
        return "%s.a = (uint8_t)(0x20 + %d); %s.b = (uint16_t)(0x3000 + %d); %s.c = 0x4000000000ULL + %d;" % (var, p, var, p, var, p)
    if kind == "slice":
        return "%s.data = g_buf + %d; %s.len = %d;" % (var, 3 * p + 1, var, 40 + p)
    if kind == "cb":
        return "%s.context = g_buf + %d; %s.func = mock_cb_s3;" % (var, 50 + p, var)
    if kind == "cb_u64":
        return "%s.context = g_buf + %d; %s.func = mock_cb_u64;" % (var, 70 + p, var)
    if kind in ("cb_p2", "cb_p3"):
        return "%s.context = g_buf + %d; %s.func = mock_%s;" % (var, CB_OFF[kind] + p, var, kind)
    if kind == "pair":
        return "%s.a.data = g_buf + %d; %s.a.len = %d; %s.b = (uintptr_t)(7000 + %d);" % (var, 150 + p, var, 60 + p, var, p)
    if kind == "ptr_const":
        return "%s = g_buf + %d;" % (var, 90 + p)
    if kind == "ptr_mut":
        return "%s = &g_s3arr[%d];" % (var, p)
    if kind == "fnptr":
        return "%s = mock_fnptr;" % var
    raise ValueError(kind)


def arg_print(kind, var):
    if kind in ("u8", "u64", "usize", "bool"):
        return 'printf("%%llu,", (unsigned long long)%s);' % var
    if kind == "i32":
        return 'printf("%%lld,", (long long)%s);' % var
    if kind == "s3":
        return 'printf("{%%u;%%u;%%llu},", (unsigned)%s.a, (unsigned)%s.b, (unsigned long long)%s.c);' % (var, var, var)
    if kind == "slice":
        return 'printf("[%%ld;%%lu],", (long)(%s.data - g_buf), (unsigned long)%s.len);' % (var, var)
    if kind == "cb":
        return 'printf("cb(%%ld;%%s),", (long)((unsigned char *)%s.context - g_buf), %s.func == mock_cb_s3 ? "ok" : "bad");' % (var, var)
    if kind == "cb_u64":
        return 'printf("cb(%%ld;%%s),", (long)((unsigned char *)%s.context - g_buf), %s.func == mock_cb_u64 ? "ok" : "bad");' % (var, var)
    if kind in ("cb_p2", "cb_p3"):
        return 'printf("cb(%%ld;%%s),", (long)((unsigned char *)%s.context - g_buf), %s.func == mock_%s ? "ok" : "bad");' % (var, var, kind)
    if kind == "pair":
        return 'printf("<[%%ld;%%lu];%%lu>,", (long)(%s.a.data - g_buf), (unsigned long)%s.a.len, (unsigned long)%s.b);' % (var, var, var)
    if kind == "ptr_const":
        return 'printf("p%%ld,", (long)(%s - g_buf));' % var
    if kind == "ptr_mut":
        return 'printf("q%%ld,", (long)(%s - g_s3arr));' % var
    if kind == "fnptr":
        return 'printf("%%s,", %s == mock_fnptr ? "fn:ok" : "fn:bad");' % var
    raise ValueError(kind)


def arg_expected(kind, p):
    if kind == "u8":
        return "%d," % (0x11 + p)
    if kind == "u64":
        return "%d," % (1000001 + 7 * p)
    if kind == "i32":
        return "%d," % (-(100 + p))
    if kind == "usize":
        return "%d," % (5000 + p)
    if kind == "bool":
        return "%d," % (1 if p % 2 == 0 else 0)
    if kind == "s3":
        return "{%d;%d;%d}," % (0x20 + p, 0x3000 + p, 0x4000000000 + p)
    if kind == "slice":
        return "[%d;%d]," % (3 * p + 1, 40 + p)
    if kind == "cb":
        return "cb(%d;ok)," % (50 + p)
    if kind == "cb_u64":
        return "cb(%d;ok)," % (70 + p)
    if kind in ("cb_p2", "cb_p3"):
        return "cb(%d;ok)," % (CB_OFF[kind] + p)
    if kind == "pair":
        return "<[%d;%d];%d>," % (150 + p, 60 + p, 7000 + p)
    if kind == "ptr_const":
        return "p%d," % (90 + p)
    if kind == "ptr_mut":
        return "q%d," % p
    if kind == "fnptr":
        return "fn:ok,"
    raise ValueError(kind)


def ret_expected(ret, k):
    if ret == "void":
        return "void"
    if ret == "u64":
        return "%d" % (900000 + k)
    if ret == "bool":
        return "%d" % (1 if k % 2 == 0 else 0)
    if ret == "s3":
        return "{%d;%d;%d}" % ((k & 0x3f) + 1, 0x5000 + k, 0x6000000000 + k)
    if ret in ("vptr", "cvptr"):
        return "p%d" % ((k % 100) + 1)
    return None


# ------------------------------------------------------------------------------------------ TU generation

PRELUDE = r"""
#include <stdio.h>
#include <string.h>

static int g_in_slot = 0;
/* context handles: g_arcs[0] is the object's own context (and carries the global count); every clone hands out a fresh
   handle, so that releasing one handle twice is visible even when another handle is never released */
struct MockArc { int count; int under; int rel; };
#define MOCK_NH 32
static struct MockArc g_arcs[MOCK_NH];
#define g_arc (g_arcs[0])
static int g_next_h = 1;
static int mock_is_handle(const void *p) {
    return (const struct MockArc *)p >= g_arcs && (const struct MockArc *)p < g_arcs + MOCK_NH;
}
static const void *mock_new_handle(void) {
    int k = g_next_h < MOCK_NH ? g_next_h++ : MOCK_NH - 1;
    return (const void *)&g_arcs[k];
}
static int mock_double(void) {
    int i, n = 0;
    for (i = 0; i < MOCK_NH; i++) if (g_arcs[i].rel > 1) n++;
    return n;
}
static int g_drops[3];
static int g_has_ctx = 0, g_late = 0;
static int g_inst[3];
static unsigned char g_buf[256];
static struct S3 g_s3arr[8];
static const void *g_cur_cont = 0;

static const void *mock_arc_clone(const void *p) {
    struct MockArc *a = &g_arc;
    a->count++;
    printf("EV ctx_clone inslot=%d count=%d ok=%d\n", g_in_slot, a->count, mock_is_handle(p));
    return mock_new_handle();
}
static void mock_arc_drop(const void *p) {
    struct MockArc *a = &g_arc;
    a->count--;
    if (a->count < 0) a->under = 1;
    if (mock_is_handle(p)) ((struct MockArc *)p)->rel++;
    printf("EV ctx_drop inslot=%d count=%d ok=%d\n", g_in_slot, a->count, mock_is_handle(p));
}
static void mock_box_drop(void *p) {
    int id = (int)((int *)p - g_inst);
    if (id >= 0 && id < 3) g_drops[id]++;
    /* the context (the handle that keeps the instance's code loaded) must still be alive when the instance is released */
    if (g_has_ctx && g_arc.count <= 0) g_late++;
    printf("EV inst_drop inslot=%d id=%d\n", g_in_slot, id);
}
static bool mock_cb_s3(void *c, struct S3 v) { (void)c; (void)v; return true; }
static bool mock_cb_u64(void *c, uint64_t v) { (void)c; (void)v; return true; }
static uint64_t mock_fnptr(uint64_t v) { return v + 1; }
static void mock_reset(void) {
    g_in_slot = 0; g_drops[0] = g_drops[1] = g_drops[2] = 0; g_cur_cont = 0; g_has_ctx = 0; g_late = 0;
    memset(g_arcs, 0, sizeof g_arcs); g_next_h = 1;
}
#if defined(__GNUC__)
__attribute__((noinline))
#endif
static void mock_poison(void) {
    volatile unsigned char junk[16384];
    size_t i;
    for (i = 0; i < sizeof(junk); i++) junk[i] = 0xA5;
}
"""


def _inst_ptr_expr(info, cont_expr, lang):
    """expression giving the raw instance pointer stored in a container value"""
    if info["cont"] == "Box":
        return "(const void *)%s.instance.instance" % cont_expr
    return "(const void *)%s.instance" % cont_expr


def _fill_container(info, target, inst_id, lang):
    """statements storing instance #inst_id (+ arc context) into container lvalue `target`"""
    s = []
    if info["cont"] == "Box":
        s.append("%s.instance.instance = (void *)&g_inst[%d];" % (target, inst_id))
        s.append("%s.instance.drop_fn = mock_box_drop;" % target)
    elif info["cont"] == "Mut":
        s.append("%s.instance = (void *)&g_inst[%d];" % (target, inst_id))
    else:
        s.append("%s.instance = (const void *)&g_inst[%d];" % (target, inst_id))
    if info["ctx"] == "arc":
        s.append("%s.context.instance = (const void *)&g_arc;" % target)
        s.append("%s.context.clone_fn = mock_arc_clone;" % target)
        s.append("%s.context.drop_fn = mock_arc_drop;" % target)
    return s


def _slot_name(info, e):
    return "slot_%d_%d" % (info["idx"], e["k"])


def _slot_def(info, e, lib, lang):
    m = e["m"]
    cont_ty = info["cont_ty"]
    fty = H.method_fn(m, cont_ty)
    if lang == "c":
        fty = lib.resolve(fty)
    ret_ty, params = fty[1], fty[2]
    ret_decl = lib.decl(ret_ty, "")
    ps = ", ".join(lib.decl(t, n) for n, t in params)
    b = []
    b.append("static %s %s(%s) {" % (ret_decl, _slot_name(info, e), ps))
    b.append("    g_in_slot = 1;")
    b.append('    printf("EV slot k=%d");' % e["k"])
    if m["recv"] == "own":
        cond = "%s == (const void *)&g_inst[1]" % _inst_ptr_expr(info, "cont", lang)
        if info["ctx"] == "arc":
            cond += " && mock_is_handle(cont.context.instance)"
        b.append('    printf(" cont=%%s", (%s) ? "ok" : "bad");' % cond)
    else:
        b.append('    printf(" cont=%s", ((const void *)cont == g_cur_cont) ? "ok" : "bad");')
    if info["ctx"] == "arc":
        b.append('    printf(" ctxcount=%d", g_arc.count);')
    b.append('    printf(" args=");')
    for (n, _), kind in zip(params[1:], m["args"]):
        b.append("    " + arg_print(kind, n))
    b.append('    printf("\\n");')
    if m["recv"] == "own":
        # the Rust side owns the container now and releases it before returning
        if info["cont"] == "Box":
            b.append("    if (cont.instance.drop_fn) cont.instance.drop_fn(cont.instance.instance);")
        if info["ctx"] == "arc":
            b.append("    if (cont.context.drop_fn) cont.context.drop_fn(cont.context.instance);")
    r = m["ret"]
    k = e["k"]
    if r == "self":
        b.append("    %s r;" % ret_decl)
        b.append("    memset(&r, 0, sizeof r);")
        b += ["    " + s for s in _fill_container(info, "r", 2, lang)]
        if info["ctx"] == "arc":
            # the returned object owns a context reference of its own: a fresh handle
            b.append("    g_arc.count++;")
            b.append("    r.context.instance = mock_new_handle();")
        b.append("    g_in_slot = 0;")
        b.append("    return r;")
    elif r == "s3":
        b.append("    %s r;" % ret_decl)
        b.append("    r.a = (uint8_t)%d; r.b = (uint16_t)%d; r.c = %dULL;" % ((k & 0x3f) + 1, 0x5000 + k, 0x6000000000 + k))
        b.append("    g_in_slot = 0;")
        b.append("    return r;")
    elif r == "void":
        b.append("    g_in_slot = 0;")
    elif r in ("vptr", "cvptr"):
        b.append("    g_in_slot = 0;")
        b.append("    return (void *)&g_buf[%d];" % ((k % 100) + 1))
    else:
        val = {"u64": "(uint64_t)%d" % (900000 + k), "bool": "true" if k % 2 == 0 else "false"}[r]
        b.append("    g_in_slot = 0;")
        b.append("    return %s;" % val)
    b.append("}")
    return "\n".join(b)


def plan_calls(infos, wrappers, lang):
    """Decide which wrapper is called on which instance. -> (calls, static_findings)
    call = dict(n, inst, w, entry | None (drop helper), note)"""
    calls, findings = [], []
    n = 0
    for info in infos:
        if lang == "c":
            fam_structs = set("struct " + i["struct"] for i in infos if i["family"] == info["family"])
            cands = []
            for w in wrappers:
                if w["subject"] is None or w["subject"] not in fam_structs:
                    continue
                if not w["generic"] and w["subject"] != info["decl"]:
                    continue
                cands.append(w)
        else:
            cands = list(wrappers.get(info["family"], []))
        for w in cands:
            entry = None
            if w["calls"] is not None:
                f, name = w["calls"]
                for e in info["entries"]:
                    if e["field"] == f and e["m"]["name"] == name:
                        entry = e
                if entry is None:
                    findings.append(("wrong_slot", info, w, "wrapper %s calls (%s)->%s which is no entry of the object" % (w["name"], f, name)))
                    continue
                if len(w["params"]) != len(entry["m"]["args"]):
                    findings.append(("wrong_args", info, w, "wrapper %s takes %d arguments, entry %s.%s has %d" % (
                        w["name"], len(w["params"]), entry["trait"], name, len(entry["m"]["args"]))))
                    continue
                if entry["m"]["ret"] == "self" and lang == "c" and w["generic"] and w["subject"] != info["decl"]:
                    findings.append(("self_return_type_mismatch", info, w,
                                     "the only wrapper for %s.%s callable on %s is written for %s and returns that type" % (
                                         entry["trait"], name, info["decl"], w["subject"])))
                    continue
            else:
                if not w["name"].endswith("drop") or lang != "c":
                    continue
            calls.append({"n": n, "inst": info, "w": w, "entry": entry})
            n += 1
    return calls, findings


def pick_followup(c, calls):
    """For a Self-returning call: another planned call on the same instance whose entry is by-reference and does not return
    Self, preferring the LAST vtable field of the object (a later trait than the one that produced the object)."""
    info = c["inst"]
    order = [f for f, _ in info["fields"]]
    best = None
    for c2 in calls:
        e2 = c2["entry"]
        if c2["inst"] is not info or e2 is None or e2["m"]["recv"] == "own" or e2["m"]["ret"] == "self":
            continue
        if c2["w"]["self"] == "value":
            continue
        rank = order.index(e2["field"])
        if best is None or rank > best[0]:
            best = (rank, c2)
    return None if best is None else {"w": best[1]["w"], "entry": best[1]["entry"]}


def generate(case, lib, processed_name, processed_text):
    """-> (source text, calls, static findings, infos)"""
    lang = case["lang"]
    model = case["model"]
    infos = instances_info(model, lib, lang)
    wrappers = parse_wrappers_c(processed_text) if lang == "c" else parse_wrappers_cpp(processed_text, model)
    calls, findings = plan_calls(infos, wrappers, lang)
    src = []
    # the processed header comes first: nothing the mock includes may paper over a missing include
    src.append('#include "%s"\n' % processed_name)
    if lang == "cpp":
        src.append("#include <utility>\n#include <string>\n#include <type_traits>\n")
    if "S3" not in [it["name"] for it in lib.ordered_items()]:
        # the header does not mention S3: the mock's own sentinels still need the type
        src.append("struct S3 { uint8_t a; uint16_t b; uint64_t c; };")
    src.append(PRELUDE if lang == "c" else PRELUDE.replace("struct S3 g_s3arr", "S3 g_s3arr").replace("struct S3 v", "S3 v"))
    used = set(k for t in model["traits"] for m in t["methods"] for k in m["args"])
    for kind in ("cb_p2", "cb_p3"):
        if kind in used:
            src.append("static bool mock_%s(void *c, %s%s v) { (void)c; (void)v; return true; }" % (kind, "struct " if lang == "c" else "", CB_ELEM[kind]))
    for info in infos:
        if lang == "cpp":
            src.append("typedef decltype(std::declval<%s &>().container) Cont_%d;" % (info["alias"], info["idx"]))
        for e in info["entries"]:
            src.append(_slot_def(info, e, lib, lang))
        for f, t in info["fields"]:
            es = [e for e in info["entries"] if e["field"] == f]
            src.append("static const %s vt_%d_%s = { %s };" % (
                info["vtbl_decl"][f], info["idx"], f, ", ".join("&" + _slot_name(info, e) if lang == "cpp" else _slot_name(info, e) for e in es) or "0"))
    for c in calls:
        if c["entry"] is not None and c["entry"]["m"]["ret"] == "self":
            c["followup"] = pick_followup(c, calls)
        src.append(_call_def(c, lib, lang))
    # C++: one extra block per instance that only constructs and destroys the object (the destructor is the drop helper)
    extra = []
    if lang == "cpp":
        for info in infos:
            extra.append(_dtor_def(info, len(calls) + len(extra), lang))
        src += [t for _, t in extra]
    src.append("int main(void) {")
    src.append("    setvbuf(stdout, 0, _IONBF, 0);")
    src.append("    memset(g_buf, 0, sizeof g_buf);")
    for c in calls:
        src.append("    call_%d();" % c["n"])
    for n, _ in extra:
        src.append("    call_%d();" % n)
    src.append('    printf("DONE\\n");')
    src.append("    return 0;")
    src.append("}")
    dtor_calls = [{"n": n, "inst": info, "w": None, "entry": None, "dtor": True} for (n, _), info in zip(extra, infos)]
    return "\n".join(src) + "\n", calls + dtor_calls, findings, infos


def _obj_setup(info, lang):
    s = []
    if lang == "c":
        s.append("    %s obj;" % info["decl"])
        s.append("    memset(&obj, 0, sizeof obj);")
    else:
        s.append("    %s obj;" % info["decl"])
    for f, _ in info["fields"]:
        s.append("    obj.%s = &vt_%d_%s;" % (f, info["idx"], f))
    s += ["    " + x for x in _fill_container(info, "obj.container", 1, lang)]
    if info["ctx"] == "arc":
        s.append("    g_arc.count = 1; g_has_ctx = 1;")
    s.append("    g_cur_cont = (const void *)&obj.container;")
    return s


def _end_line():
    return '    printf("END count=%d d1=%d d2=%d under=%d dbl=%d late=%d\\n", g_arc.count, g_drops[1], g_drops[2], g_arc.under, mock_double(), g_late);'


def _dtor_def(info, n, lang):
    b = ["static void call_%d(void) {" % n, "    mock_reset();", '    printf("CALL n=%d\\n");' % n, "    {"]
    b += ["    " + x for x in _obj_setup(info, lang)]
    b.append('        printf("AFTERCALL\\n");')
    b.append("    }")
    b.append(_end_line())
    b.append("}")
    return n, "\n".join(b)


def _call_def(c, lib, lang):
    info, w, e = c["inst"], c["w"], c["entry"]
    b = ["static void call_%d(void) {" % c["n"], "    mock_reset();", '    printf("CALL n=%d\\n");' % c["n"]]
    if lang == "cpp":
        b.append("    {")
    b += _obj_setup(info, lang)
    args = []
    if e is not None:
        for p, kind in enumerate(e["m"]["args"]):
            ty = H.arg_type(kind)
            if lang == "c":
                ty = lib.resolve(ty)
            b.append("    %s;" % lib.decl(ty, "a%d" % p))
            if kind in ("s3", "slice", "cb", "cb_u64", "cb_p2", "cb_p3", "pair") and lang == "c":
                b.append("    memset(&a%d, 0, sizeof a%d);" % (p, p))
            b.append("    " + arg_setup(kind, p, "a%d" % p, lang))
            args.append("a%d" % p)
    if lang == "c":
        selfarg = "obj" if w["self"] == "value" else "&obj"
        callexpr = "%s(%s)" % (w["name"], ", ".join([selfarg] + args))
    else:
        callexpr = "%s.%s(%s)" % ("std::move(obj)" if w["qual"] == "&&" else "obj", w["name"], ", ".join(args))
    ret = e["m"]["ret"] if e is not None else "void"
    b.append("    mock_poison();")
    if lang == "cpp":
        b.append("    {")
    if ret == "void":
        b.append("    %s;" % callexpr)
        b.append('    printf("RET void\\n");')
    elif ret in ("u64", "bool"):
        b.append("    unsigned long long r = (unsigned long long)%s;" % callexpr)
        b.append('    printf("RET %llu\\n", r);')
    elif ret == "s3":
        b.append("    %s r = %s;" % ("struct S3" if lang == "c" else "S3", callexpr))
        b.append('    printf("RET {%u;%u;%llu}\\n", (unsigned)r.a, (unsigned)r.b, (unsigned long long)r.c);')
    elif ret in ("vptr", "cvptr"):
        b.append("    mock_poison();")
        b.append("    const void *r = (const void *)%s;" % callexpr)
        b.append('    printf("RET p%ld\\n", (long)((const unsigned char *)r - g_buf));')
    elif ret == "self":
        if lang == "c":
            b.append("    %s r = %s;" % (info["decl"], callexpr))
        else:
            b.append("    auto r = %s;" % callexpr)
            b.append("    static_assert(std::is_same<decltype(r), %s>::value, \"wrapper returning Self must return the object type\");" % info["decl"])
        cond = "%s == (const void *)&g_inst[2]" % _inst_ptr_expr(info, "r.container", lang)
        if info["cont"] == "Box":
            cond += " && r.container.instance.drop_fn == mock_box_drop"
        b.append('    printf("RET self inst=%%s", (%s) ? "ok" : "bad");' % cond)
        if info["ctx"] == "arc":
            b.append('    printf(" ctx=%s", (mock_is_handle(r.container.context.instance) && r.container.context.clone_fn == mock_arc_clone '
                     '&& r.container.context.drop_fn == mock_arc_drop) ? "ok" : "bad");')
        for f, _ in info["fields"]:
            b.append('    printf(" %s=%%s", ((const void *)r.%s == (const void *)obj.%s) ? "ok" : "bad");' % (f, f, f))
        b.append('    printf("\\n");')
        fu = c.get("followup")
        if fu is not None:
            # use the returned object: call an entry (of the latest possible trait) through its wrapper ON THE RETURNED OBJECT.
            # Guarded by the pointer comparison above, so that an uninitialised vtable is a verdict, not a crash.
            w2, e2 = fu["w"], fu["entry"]
            allok = " && ".join("(const void *)r.%s == (const void *)obj.%s" % (f, f) for f, _ in info["fields"])
            b.append("    if (%s) {" % allok)
            args2 = []
            for p, kind in enumerate(e2["m"]["args"]):
                ty = H.arg_type(kind)
                if lang == "c":
                    ty = lib.resolve(ty)
                b.append("        %s;" % lib.decl(ty, "b%d" % p))
                if kind in ("s3", "slice", "cb", "cb_u64", "cb_p2", "cb_p3") and lang == "c":
                    b.append("        memset(&b%d, 0, sizeof b%d);" % (p, p))
                b.append("        " + arg_setup(kind, p, "b%d" % p, lang))
                args2.append("b%d" % p)
            if lang == "c":
                call2 = "%s(%s)" % (w2["name"], ", ".join(["&r"] + args2))
            else:
                call2 = "r.%s(%s)" % (w2["name"], ", ".join(args2))
            b.append("        g_cur_cont = (const void *)&r.container;")
            b.append('        printf("RCALL k=%d\\n");' % e2["k"])
            r2 = e2["m"]["ret"]
            if r2 == "void":
                b.append("        %s;" % call2)
                b.append('        printf("RRET void\\n");')
            elif r2 in ("u64", "bool"):
                b.append("        unsigned long long r2 = (unsigned long long)%s;" % call2)
                b.append('        printf("RRET %llu\\n", r2);')
            elif r2 in ("vptr", "cvptr"):
                b.append("        const void *r2 = (const void *)%s;" % call2)
                b.append('        printf("RRET p%ld\\n", (long)((const unsigned char *)r2 - g_buf));')
            else:
                b.append("        %s r2 = %s;" % ("struct S3" if lang == "c" else "S3", call2))
                b.append('        printf("RRET {%u;%u;%llu}\\n", (unsigned)r2.a, (unsigned)r2.b, (unsigned long long)r2.c);')
            b.append("        g_cur_cont = (const void *)&obj.container;")
            b.append("    } else {")
            b.append('        printf("RCALL skipped\\n");')
            b.append("    }")
    if lang == "cpp":
        b.append('    printf("AFTERCALL\\n");')
        b.append("    }")
        b.append("    }")
    b.append(_end_line())
    b.append("}")
    return "\n".join(b)


# ------------------------------------------------------------------------------------------ compile / run

BENIGN_WARNINGS = {"-Wunused-function", "-Wunused-variable", "-Wunused-but-set-variable", "-Wreorder", "-Wdeprecated-declarations",
                   "-Wunused-value", "-Wcomment", "-Wunused-parameter", "-Wunused-local-typedefs", "-Wdeprecated-copy", "-Wdeprecated"}

DIAG_RE = re.compile(r"^(?P<file>[^:\n]+):(?P<line>\d+):(?:(?P<col>\d+):)? (?P<sev>fatal error|error|warning): (?P<msg>.*?)(?: \[(?P<flag>-W[^\]]+)\])?$", re.M)


KEEP_NAMES = {"CBox_c_void", "CArc_c_void", "u64", "RustMaybeUninit", "MaybeUninit", "CGlueTraitObj", "CGlueObjContainer", "NoContext",
              "CGlueCtx", "CGlueInst", "Context", "context", "S3", "struct S3"}


def normalise_msg(msg):
    """stable class of a compiler/tool message: quoted names are dropped unless they are fixed library/tool names"""
    parts = re.split(r"([‘'`\"][^’'`\"]*[’'`\"])", msg)
    out = ""
    for i, p in enumerate(parts):
        if i % 2:
            inner = p[1:-1]
            out += "'%s'" % inner if inner in KEEP_NAMES else "'_'"
        else:
            out += re.sub(r"\d+", "N", p)
    return out[:80]


def classify_diagnostics(text, processed_name):
    """-> (errors [(where, class, full line)], serious warnings [(flag, line)], benign counts dict)"""
    errors, warns, benign = [], [], {}
    for m in DIAG_RE.finditer(text):
        where = "header" if os.path.basename(m.group("file")) == processed_name else "mock"
        if m.group("sev") in ("error", "fatal error"):
            errors.append((where, normalise_msg(m.group("msg")), m.group(0)[:300]))
        else:
            flag = m.group("flag") or "-Wnoflag"
            if flag.startswith("-Werror="):
                flag = "-W" + flag[len("-Werror="):]
            if flag in BENIGN_WARNINGS:
                benign[flag] = benign.get(flag, 0) + 1
            elif where == "header":
                warns.append((flag, m.group(0)[:300]))
            else:
                benign["mock:" + flag] = benign.get("mock:" + flag, 0) + 1
    return errors, warns, benign


def compile_and_run(lang, workdir, src_name, timeout=120):
    exe = os.path.join(workdir, "mock_" + lang)
    if os.path.exists(exe):
        os.remove(exe)
    if lang == "c":
        cmd = ["gcc", "-std=c99", "-Wall", "-Werror=implicit-function-declaration", "-O0", "-o", exe, src_name]
    else:
        cmd = ["g++", "-std=c++11", "-Wall", "-O0", "-o", exe, src_name]
    p = subprocess.run(cmd, cwd=workdir, stdout=subprocess.PIPE, stderr=subprocess.STDOUT, text=True, timeout=timeout)
    diag = p.stdout
    if p.returncode != 0 or not os.path.exists(exe):
        return {"compiled": False, "diag": diag, "log": None, "rc": None}
    r = subprocess.run([exe], cwd=workdir, stdout=subprocess.PIPE, stderr=subprocess.STDOUT, timeout=30)
    return {"compiled": True, "diag": diag, "log": r.stdout.decode("utf-8", "replace"), "rc": r.returncode}


def parse_log(log):
    """-> dict n -> {events: [..before AFTERCALL..], after: [...], ret: str|None, end: dict|None}, done flag"""
    blocks, cur = {}, None
    done = False
    for line in log.split("\n"):
        if line.startswith("CALL n="):
            cur = {"events": [], "after": [], "ret": None, "end": None, "aftercall": False, "rcall": None, "revents": [], "rret": None, "in_r": False}
            blocks[int(line[7:])] = cur
        elif line == "DONE":
            done = True
        elif cur is None:
            continue
        elif line.startswith("RCALL "):
            cur["rcall"] = line[6:]
            cur["in_r"] = line[6:] != "skipped"
        elif line.startswith("RRET "):
            cur["rret"] = line[5:]
            cur["in_r"] = False
        elif line.startswith("EV "):
            ev = dict(kv.split("=", 1) for kv in line[3:].split(" ")[1:] if "=" in kv)
            ev["ev"] = line[3:].split(" ")[0]
            (cur["revents"] if cur["in_r"] else cur["after"] if cur["aftercall"] else cur["events"]).append(ev)
        elif line.startswith("RET "):
            cur["ret"] = line[4:]
        elif line == "AFTERCALL":
            cur["aftercall"] = True
        elif line.startswith("END "):
            cur["end"] = dict(kv.split("=", 1) for kv in line[4:].split(" "))
    return blocks, done
