"""C18 - post-processed headers compile, are reproducible, keep foreign declarations; argument forwarding.

Bounded exhaustive exploration over bindgen_model.c18_cases(tier): the C17 one-factor slice, several distinct context types x
wrapped-return (RetTmp / `_Context` placeholder) shapes, every subset of planted foreign declarations, every combination of the
three config keys, every argument layout. Every case runs the REAL binary R times in fresh processes (quick R=5, thorough R=25).

Oracle per case:
 1. the tool exits 0 every time;
 2. all R outputs are byte-identical; one further run over an output path that already holds a longer file (the first output
    plus a tail) gives the same bytes again (the result is a function of input and configuration only);
 3. `gcc -std=c99 -fsyntax-only` / `g++ -std=c++11 -fsyntax-only` accept (each distinct) output on its own; in C, sizeof of every
    exported object / group type in the processed header equals the size the Rust side gives it;
 4. every planted foreign declaration (struct / typedef / function text exactly as the synthesiser emitted it) occurs verbatim in
    the output, in the original relative order;
 5. the stub `cbindgen` received exactly the arguments after `--` minus `-o/--output <path>`; nothing from before `--` was
    forwarded; `+nightly` goes through `rustup run nightly cbindgen`; the processed header (not the raw one) is what lands in
    <path> (or on stdout when no output option is given), no second output file appears.
"""
import json
import os
import shutil
import sys
import time
from concurrent.futures import ProcessPoolExecutor

sys.path.insert(0, os.path.dirname(os.path.abspath(__file__)))

import bindgen_headers as H  # noqa: E402
import bindgen_mock as M  # noqa: E402
import bindgen_model as BM  # noqa: E402
import bindgen_tool as TL  # noqa: E402
from bindgen_c17 import add_violation, setup, compile_cause  # noqa: E402
from pyreport import Report, digest  # noqa: E402

ASSUMPTIONS = [
    "cbindgen is not available offline: input headers are synthesised by gen/bindgen_headers.py (miniature cbindgen 0.20, see C17); "
    "wrapped-return shapes follow examples/plugin-api (`#[wrap_with_group*]`, `CGlueC::Context` rendered as the unresolved path `Context`)",
    "user-defined contexts are plain #[repr(C)] structs reached through the generated `*CtxBox<Ctx>` / `*CtxMut<Ctx>` aliases",
    "foreign declarations are the synthesiser's own text for unrelated user items (MyVtblThing, RetTmp_like, Render_Context, Tagged<T> + TaggedHandle, render_frame)",
    "self-containedness is judged by gcc/g++ 12 -fsyntax-only on the header alone (templates are not instantiated; C17 instantiates them)",
]

MARKER = {"c": "// Construct a typed slice for rust functions", "cpp": "mem_forget"}


def n_contexts(model):
    return len(set(i["ctx"] for i in model["instances"]))


def n_cbtypes(model):
    return len(set(k for t in model["traits"] for m in t["methods"] for k in m["args"] if k.startswith("cb")))


def is_wrapped(model):
    return any(t.get("wrapped") for t in model["traits"])


def run_case(case, exe, stubdir, workroot, R, keep=False):
    lang = case["lang"]
    layout = case.get("layout", "output_last")
    wd = os.path.join(workroot, "c18-" + digest(case) + "-%d" % os.getpid())
    shutil.rmtree(wd, ignore_errors=True)
    os.makedirs(wd)
    V = []
    try:
        r = H.render(case["model"], lang)
        outputs = {}
        first = None
        for i in range(R):
            res = TL.run_tool(exe, stubdir, wd, r["text"], case.get("config"), layout)
            if res["stub_argv"] is None:
                return {"machinery": "stub cbindgen was not called (rc=%s, stderr=%s)" % (res["rc"], res["stderr"][:300])}
            if first is None:
                first = res
            if res["rc"] != 0:
                err = (res["stderr"].strip().split("\n") or [""])[-1]
                V.append(("tool_failed:%s:%s" % (lang, M.normalise_msg(err)), "cglue-bindgen exited with %s: %s" % (res["rc"], res["stderr"][:400])))
                return {"violations": V, "obs": {"tool_rc": res["rc"]}}
            # 5. forwarding (checked on every repetition; identical by construction, reported once)
            if i == 0:
                if res["stub_prog"] != res["expect_prog"] or res["stub_argv"] != res["expect_argv"]:
                    V.append(("args_forwarding:%s" % layout, "stub %s got %r, expected %s %r" % (res["stub_prog"], res["stub_argv"], res["expect_prog"], res["expect_argv"])))
                out = res["output"]
                if out is None:
                    V.append(("output_not_hijacked:%s" % layout, "no file at the -o/--output path"))
                elif MARKER[lang] not in out or out == r["text"]:
                    V.append(("output_not_hijacked:%s" % layout, "what landed at the output is not the processed header"))
                if res["out_expected_in_file"] and res["stdout"].strip():
                    V.append(("output_not_hijacked:%s" % layout, "header also/only printed to stdout although an output path was given"))
                if res["second_exists"]:
                    V.append(("args_forwarding:%s" % layout, "a second --output was honoured"))
            outputs.setdefault(res["output"] or "", 0)
            outputs[res["output"] or ""] += 1
        # 2b. the result does not depend on what was at the output path before: re-run over a longer, stale file
        if first is not None and first["out_expected_in_file"] and first["output"] is not None and not V:
            stale = first["output"] + "\n/* stale tail of a previous, longer header */\n" + "int stale_%d;\n" * 40 % tuple(range(40))
            res = TL.run_tool(exe, stubdir, wd, r["text"], case.get("config"), layout, stale=stale)
            if res["rc"] == 0 and res["output"] != first["output"]:
                keep_tail = res["output"] is not None and res["output"].endswith(stale[len(first["output"]):])
                V.append(("output_depends_on_previous_file:%s" % layout,
                          "with a longer file already present at the output path the result differs from a fresh run (%s)" % (
                              "the old file's tail survives: the output file is not truncated" if keep_tail else "different content")))
        # 2. reproducibility
        if len(outputs) > 1:
            V.append(("nondeterministic_output:%dcontexts%s%s" % (n_contexts(case["model"]), ":wrapped" if is_wrapped(case["model"]) else "",
                                                                 ":%dcallbacktypes" % n_cbtypes(case["model"]) if n_cbtypes(case["model"]) > 1 else ""),
                      "%d runs of the unchanged binary on the same input gave %d different outputs (%s)" % (
                          R, len(outputs), ":".join(str(c) for c in sorted(outputs.values(), reverse=True)))))
        # 3. self-contained
        causes = set()
        for j, text in enumerate(sorted(outputs)):
            pth = os.path.join(wd, "out%d.%s" % (j, "h" if lang == "c" else "hpp"))
            with open(pth, "w") as f:
                f.write(text)
            ok, diag = TL.compile_check(lang, pth)
            diag = diag.replace(wd + os.sep, "")
            if not ok:
                errors, _, _ = M.classify_diagnostics(diag, os.path.basename(pth))
                cause = compile_cause(errors[0][2], text) if errors else "unparsed"
                if cause not in causes:
                    causes.add(cause)
                    V.append(("not_self_contained:%s:%s" % (lang, cause), "\n".join(l for _, _, l in errors[:4]) or diag[:400]))
        # 3b. (C) the processed header keeps the layout of every object / group type: sizeof as the C compiler sees it in the
        #     processed header == the size the Rust side gives the type (zero-sized members take no space)
        if lang == "c" and not causes and len(outputs) == 1:
            lib = r["lib"]
            want = {}
            for f in lib.functions:
                if f.get("foreign"):
                    continue
                # the object type is the function's result or what its out-parameter points to
                cands = [f["ret"]] + [t[1] for _, t in f["args"] if t[0] == "ptr"]
                for ty in cands:
                    if ty[0] != "path":
                        continue
                    sa = lib.size_align(ty)
                    if sa is not None and sa[0] > 0:
                        want[lib.decl(ty, "")] = sa[0]
            if want:
                tu = os.path.join(wd, "sizes.c")
                with open(tu, "w") as f:
                    f.write('#include <stdio.h>\n#include "out0.h"\nint main(void) {\n' +
                            "".join('    printf("SIZE %%zu %s\\n", sizeof(%s));\n' % (d, d) for d in sorted(want)) + "    return 0;\n}\n")
                import subprocess
                exe_s = os.path.join(wd, "sizes")
                p = subprocess.run(["gcc", "-std=c99", "-w", "-o", exe_s, tu], cwd=wd, stdout=subprocess.PIPE, stderr=subprocess.STDOUT, text=True)
                if p.returncode == 0:
                    q = subprocess.run([exe_s], stdout=subprocess.PIPE, text=True)
                    for ln in q.stdout.splitlines():
                        _, n, d = ln.split(" ", 2)
                        if int(n) != want[d]:
                            V.append(("layout_changed:c:%s" % ("smaller" if int(n) < want[d] else "larger"),
                                      "sizeof(%s) is %s in the processed header, the Rust side lays the type out in %d bytes (a member that occupies space was removed / added)" % (d, n, want[d])))
                            break
                else:
                    V.append(("not_self_contained:c:sizeof_unusable", p.stdout[:400]))
        # 3c. a header is made to be included by every translation unit of a program that uses the library: two units that include it link
        if not causes and len(outputs) == 1:
            import subprocess
            ext, cc, std = ("h", "gcc", "-std=c99") if lang == "c" else ("hpp", "g++", "-std=c++11")
            for nm, body in (("tu_a", '#include "out0.%s"\nint tu_b_entry(void);\nint main(void) { return tu_b_entry(); }\n' % ext),
                             ("tu_b", '#include "out0.%s"\nint tu_b_entry(void) { return 0; }\n' % ext)):
                with open(os.path.join(wd, nm + (".c" if lang == "c" else ".cpp")), "w") as f:
                    f.write(body)
            srcs = ["tu_a.c", "tu_b.c"] if lang == "c" else ["tu_a.cpp", "tu_b.cpp"]
            p = subprocess.run([cc, std, "-w", "-o", os.path.join(wd, "two_units")] + srcs, cwd=wd, stdout=subprocess.PIPE, stderr=subprocess.STDOUT, text=True)
            if p.returncode != 0:
                dup = [l for l in p.stdout.splitlines() if "multiple definition" in l or "duplicate symbol" in l]
                sym = ""
                if dup:
                    import re as _re
                    m = _re.search(r"multiple definition of [`'](\w+)", dup[0])
                    sym = m.group(1) if m else "symbol"
                    sym = _re.sub(r"\d+", "N", sym)
                V.append(("not_self_contained:%s:two_units:%s" % (lang, sym or "compile"),
                          "a program with two translation units that include the processed header does not build: " + (dup[0] if dup else p.stdout[:300])))
        # 4. foreign declarations
        lost = []
        for text in sorted(outputs):
            pos = 0
            for decl in r["foreign"]:
                name = foreign_name(decl)
                at = text.find(decl)
                if at < 0:
                    if name not in lost:
                        lost.append(name)
                        V.append(("foreign_decl_lost:%s:%s" % (lang, name), "planted declaration no longer present verbatim:\n" + decl[:300]))
                elif at < pos:
                    V.append(("foreign_decl_reordered:%s" % lang, "planted declaration %s moved before an earlier one" % name))
                    pos = at
                else:
                    pos = at
            break
        obs = {"distinct_outputs": len(outputs), "self_contained": not causes, "causes": sorted(causes), "foreign": len(r["foreign"]), "lost": lost,
               "layout_ok": not any(s.startswith(("args_forwarding", "output_not")) for s, _ in V), "out_hash": digest(sorted(outputs))}
        return {"violations": V, "obs": obs, "runs": R}
    finally:
        if not keep:
            shutil.rmtree(wd, ignore_errors=True)


def foreign_name(decl):
    for n in ("MyVtblThing", "RetTmp_like", "Render_Context", "TaggedHandle", "Tagged", "render_frame", "use_thing", "use_tmp", "use_rctx", "use_handle"):
        if ("struct %s " % n) in decl or ("struct %s_" % n) in decl or (" %s;" % n) in decl or ("using %s =" % n) in decl or (" %s(" % n) in decl:
            return n
    for n in ("Mesure", "Mixer", "use_mesure", "use_mixer"):
        if ("struct %s " % n) in decl or (" %s;" % n) in decl or (" %s(" % n) in decl:
            return n
    if "struct Rec" in decl or "use_recs(" in decl:
        return "bulk"
    return "other"


def _work(a):
    case, exe, stubdir, workroot, R = a
    try:
        return run_case(case, exe, stubdir, workroot, R)
    except Exception as ex:
        import traceback
        return {"machinery": "exception in worker: %s\n%s" % (ex, traceback.format_exc()[-1500:])}


def run(prop, tier, replay, Ctx):
    exe, stubdir, workroot = setup(Ctx)
    if replay is not None:
        with open(replay) as f:
            body = json.load(f)
        case, sig = body["case"], body.get("signature")
        if body.get("section") == "args_same_result":
            hits = []
            for _ in range(2):
                hs = []
                for lay in ("output_last", case["layout"]):
                    r = run_case({"model": BM.baseline(), "lang": case["lang"], "config": case["config"], "layout": lay, "label": "layout:" + lay}, exe, stubdir, workroot, 2)
                    if "machinery" in r:
                        raise Ctx.Machinery(r["machinery"])
                    hs.append(r["obs"]["out_hash"])
                hits.append(hs[0] != hs[1])
                print("replay: layouts output_last / %s give %s output" % (case["layout"], "DIFFERENT" if hs[0] != hs[1] else "the same"))
            return ("replay", 1 if all(hits) else (0 if not any(hits) else 2))
        hits = []
        for _ in range(2):
            r = run_case(case, exe, stubdir, workroot, 25)
            if "machinery" in r:
                raise Ctx.Machinery(r["machinery"])
            sigs = [s for s, _ in r["violations"]]
            hits.append((sig in sigs) if sig else bool(sigs))
            for s, d in r["violations"]:
                if sig is None or s == sig:
                    print("replay: %s: %s" % (s, d[:300]))
        return ("replay", 1 if all(hits) else (0 if not any(hits) else 2))
    R = 5 if tier == "quick" else 25
    rep = Report(prop, tier, "exploration", os.environ.get("VERIF_SEED", 0))
    for a in ASSUMPTIONS:
        rep.assume(a)
    cases = BM.c18_cases(tier)
    t0 = time.time()
    jobs = [(c, exe, stubdir, workroot, R) for _, _, c in cases]
    with ProcessPoolExecutor(max_workers=min(16, os.cpu_count() or 4)) as pool:
        results = list(pool.map(_work, jobs, chunksize=1))
    rules = {
        "c17_slice": "the C17 one-factor slice (with and without filler object), both languages",
        "contexts": "context sets {arc | arc+MyCtx | arc+MyCtx+OtherCtx | MyCtx+OtherCtx | none+arc | none+MyCtx} x wrapped-return method sets "
                    "{plain, borrow, into, get_mut, get_ref, borrow+into+get_mut, all four}" + (" x container {Box, Mut} x foreign {none, all}" if tier != "quick" else ""),
        "callbacks": "1, 2 and 3 distinct callback element types (OpaqueCallback<S3|Point2|Addr>) in one method / spread over the traits of a group"
                     + (" / with a second group variant / next to wrapped returns with two contexts" if tier != "quick" else ""),
        "foreign": "subsets of the 5 planted foreign declarations (%s) x header shapes" % ("all 32" if tier != "quick" else "none, each alone, all"),
        "config": "no config file + all 24 combinations of default_container {-,Box,Mut,Ref} x default_context {-,Arc,NoContext} x function_prefix {-,cg}",
        "args": "8 argument layouts (-o/--output first, middle, last; stdout; -c/--config; +nightly; duplicate output) x with/without config",
        "switches": "root function style x cpp_compat x include guard x contexts x wrapped, with all foreign declarations",
    }
    runs = 0
    unjudged = {}
    for (section, label, case), r in zip(cases, results):
        if "machinery" in r:
            raise Ctx.Machinery("%s (case %s)" % (r["machinery"], json.dumps(case)[:300]))
        V, unj = TL.split_judged(r["violations"])
        for k, n in unj.items():
            unjudged[k] = unjudged.get(k, 0) + n
        runs += r.get("runs", 0)
        first = V[0] if V else None
        rep.record(section, case, {"obs": r["obs"], "sigs": sorted(set(s for s, _ in V))}, True, first)
        seen = {first[0]} if first else set()
        for s, d in V[1:]:
            if s not in seen:
                seen.add(s)
                add_violation(rep, section, s, d, case)
    # arguments before `--` configure the tool, whatever else stands before `--` and however the output is named: for one model,
    # language and configuration every argument layout must produce the same bytes
    groups = {}
    for (section, label, case), r in zip(cases, results):
        if section == "args" and r.get("obs") and r["obs"].get("distinct_outputs") == 1:
            key = (case["lang"], json.dumps(case["config"], sort_keys=True))
            groups.setdefault(key, []).append((case["layout"], r["obs"]["out_hash"], case))
    for key, lst in sorted(groups.items()):
        ref = [h for lay, h, _ in lst if lay == "output_last"]
        if not ref:
            continue
        for lay, h, case in lst:
            viol = None
            if h != ref[0]:
                viol = ("config_depends_on_argument_layout:%s:%s" % (key[0], lay),
                        "same header, same configuration %s: the output with argument layout `%s` differs from the one with `output_last` - what stands before `--` next to the configuration option (or how the output is named) changes the result" % (key[1], lay))
            rep.record("args_same_result", {"lang": key[0], "config": case["config"], "layout": lay}, {"layout": lay, "same": h == ref[0]}, True, viol)
    rules["args_same_result"] = "for each language and configuration {none, Box + Arc defaults}: the processed header of every argument layout (incl. `+nightly -c cfg --`) is byte-identical to the one of the plain layout"
    for s in rep.order:
        rep.rule(s, rules.get(s, ""))
    rep.note(rep.order[0], "unjudged_observations", unjudged)
    rep.assume("causes listed in bindgen_tool.UNJUDGED are recorded, not judged: they depend on cbindgen's C++ template / alias rendering, which cannot be confirmed offline; a header that fails to compile for such a cause contributes no further checks")
    rep.note(rep.order[0], "tool_runs_in_fresh_processes", runs)
    rep.note(rep.order[0], "repetitions_per_case", R)
    rep.note(rep.order[0], "enumeration_wall_s", round(time.time() - t0, 1))
    return ("report", rep.build())
