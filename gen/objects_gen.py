#!/usr/bin/env python3
"""Program grammar G (DESIGN.md §3) -> Rust harness source for h_objects.

Every member is a complete `#[cglue_trait]` definition with a stateful implementation for
`support::Imp` and a generic driver `call<T: Trait>(t: &mut Option<T>, action, sel) -> Obs` that is
instantiated with the implementor itself (direct calls) and with every opaque object type that
implements the trait, so the same action sequence runs directly and through the vtable.

usage: objects_gen.py <tier> <out_dir>      writes <out_dir>/g_traits.rs (+ manifest json)
"""
import json
import os
import sys

# ------------------------------------------------------------------------------------------------
# receivers
RECV = {
    "ref": dict(sig="&self", this="let this = self;", mutable=False, consuming=False, call="t.as_ref().unwrap().{m}({a})"),
    "mut": dict(sig="&mut self", this="let this = self;", mutable=True, consuming=False, call="t.as_mut().unwrap().{m}({a})"),
    "own": dict(sig="self", this="let mut this = self;", mutable=True, consuming=True, call="t.take().unwrap().{m}({a})"),
    "pinref": dict(sig="self: ::core::pin::Pin<&Self>", this="let this = self.get_ref();", mutable=False, consuming=False,
                   call="::core::pin::Pin::new(t.as_ref().unwrap()).{m}({a})"),
    "pinmut": dict(sig="self: ::core::pin::Pin<&mut Self>", this="let this = self.get_mut();", mutable=True, consuming=False,
                   call="::core::pin::Pin::new(t.as_mut().unwrap()).{m}({a})"),
}

# ------------------------------------------------------------------------------------------------
# argument shapes
# ty: type in the signature; variants: list of (setup, expr, post) on the caller side (setup may call
# sent(ptr) for every address that crosses); dig: callee-side digest expression of parameter {p};
# effect: callee-side statements (may update `d`); ref: the type contains a reference (lifetimes)


def A(ty, variants, dig, effect="", ref=False, generic=None):
    return dict(ty=ty, variants=variants, dig=dig, effect=effect, ref=ref, generic=generic)


ARGS = {
    "u64": A("u64", [("", "0u64", "0"), ("", "1u64", "0"), ("", "u64::MAX", "0")], "{p}.dig()"),
    "i64": A("i64", [("", "i64::MIN", "0"), ("", "-1i64", "0"), ("", "i64::MAX", "0")], "{p}.dig()"),
    "slice_u8": A("&[u8]", [("sent(BYTES0.as_ptr());", "&BYTES0[..]", "0"), ("sent(BYTES1.as_ptr());", "&BYTES1[..]", "0"),
                            ("sent(BYTES3.as_ptr());", "&BYTES3[..]", "0"), ("sent(BYTES3[1..].as_ptr());", "&BYTES3[1..]", "0")], "{p}.dig()", ref=True),
    "slice_u64": A("&[u64]", [("sent(WORDS2[2..].as_ptr());", "&WORDS2[2..]", "0"), ("sent(WORDS2.as_ptr());", "&WORDS2[..]", "0")], "{p}.dig()", ref=True),
    "slice_zst": A("&[Z]", [("sent(ZS2[..0].as_ptr());", "&ZS2[..0]", "0"), ("sent(ZS2.as_ptr());", "&ZS2[..]", "0")], "{p}.dig()", ref=True),
    "slice_mut": A("&mut [u64]", [("let mut buf@ = [1u64, 2, 3]; sent(buf@.as_ptr());", "&mut buf@[..0]", "digest(&buf@)"),
                                  ("let mut buf@ = [1u64, 2, 3]; sent(buf@.as_ptr());", "&mut buf@[..1]", "digest(&buf@)"),
                                  ("let mut buf@ = [1u64, 2, 3]; sent(buf@[1..].as_ptr());", "&mut buf@[1..]", "digest(&buf@)")],
                   "{p}.dig()", effect="for e in {p}.iter_mut() { *e = e.wrapping_mul(3).wrapping_add(d); }", ref=True),
    "str": A("&str", [("sent(\"\".as_ptr());", "\"\"", "0"), ("sent(\"a\".as_ptr());", "\"a\"", "0"), ("sent(\"\\u{e9}\".as_ptr());", "\"\\u{e9}\"", "0"),
                      ("sent(\"a\\0b\".as_ptr());", "\"a\\0b\"", "0"), ("sent(\"\\u{65e5}\\u{672c}\".as_ptr());", "\"\\u{65e5}\\u{672c}\"", "0"),
                      # strings a C-string-minded conversion would alter: trailing NUL(s), only a NUL, surrounding white space
                      ("sent(\"ab\\0\".as_ptr());", "\"ab\\0\"", "0"), ("sent(\"\\0\".as_ptr());", "\"\\0\"", "0"), ("sent(\" a \\n\".as_ptr());", "\" a \\n\"", "0")], "{p}.dig()", ref=True),
    "opt_u64": A("Option<u64>", [("", "None", "0"), ("", "Some(0u64)", "0"), ("", "Some(u64::MAX)", "0")], "{p}.dig()"),
    "opt_ref": A("Option<&u64>", [("", "None", "0"), ("sent(&FIVE as *const u64);", "Some(&FIVE)", "0")], "{p}.map(dig_ref).dig()", ref=True),
    # Option of a borrowed string / slice: Some of an empty borrow is not None
    "opt_str": A("Option<&str>", [("", "None", "0"), ("sent(\"\".as_ptr());", "Some(\"\")", "0"), ("sent(\"a\".as_ptr());", "Some(\"a\")", "0"), ("sent(\"\\0\".as_ptr());", "Some(\"\\0\")", "0")],
                 "{p}.map(|v| v.dig()).dig()", ref=True),
    "opt_slice": A("Option<&[u8]>", [("", "None", "0"), ("sent(BYTES0.as_ptr());", "Some(&BYTES0[..])", "0"), ("sent(BYTES3.as_ptr());", "Some(&BYTES3[..])", "0")],
                   "{p}.map(|v| v.dig()).dig()", ref=True),
    # Option of a raw pointer has no niche: it must be lowered to COption like any other payload
    "opt_ptr": A("Option<*const u8>", [("", "None", "0"), ("sent(BYTES3.as_ptr());", "Some(BYTES3.as_ptr())", "0"), ("sent(::core::ptr::null::<u8>());", "Some(::core::ptr::null::<u8>())", "0")], "{p}.dig()"),
    # the same shapes spelled with a module path
    "opt_q": A("::core::option::Option<u64>", [("", "None", "0"), ("", "Some(0u64)", "0"), ("", "Some(u64::MAX)", "0")], "{p}.dig()"),
    "res_q": A("::std::result::Result<u8, u32>", [("", "Ok(0u8)", "0"), ("", "Err(u32::MAX)", "0")], "{p}.dig()"),
    "opt_nz": A("Option<::core::num::NonZeroU32>", [("", "None", "0"), ("", "::core::num::NonZeroU32::new(u32::MAX)", "0")], "{p}.map(|v| v.get()).dig()"),
    "res": A("Result<u8, u32>", [("", "Ok(0u8)", "0"), ("", "Ok(255u8)", "0"), ("", "Err(0u32)", "0"), ("", "Err(u32::MAX)", "0")], "{p}.dig()"),
    "into": A("impl Into<u64>", [("", "7u8", "0"), ("", "70000u32", "0"), ("", "u64::MAX", "0")], "Into::<u64>::into({p}).dig()"),
    "into2": A("impl Into<u64>", [("", "9u8", "0"), ("", "80000u32", "0"), ("", "1u64", "0")], "Into::<u64>::into({p}).dig()"),
    "s3": A("S3", [("", "S3 { a: 1, b: 2, c: 3 }", "0"), ("", "S3 { a: u8::MAX, b: u16::MAX, c: u64::MAX }", "0")], "{p}.dig()"),
    "mut_ref": A("&mut u64", [("let mut out@ = 11u64; sent(&out@ as *const u64);", "&mut out@", "out@"), ("let mut out@ = u64::MAX; sent(&out@ as *const u64);", "&mut out@", "out@")],
                 "dig_ref(&*{p})", effect="*{p} = {p}.wrapping_add(d | 1);", ref=True),
    "callback": A("::cglue::callback::OpaqueCallback<u64>",
                  [("let mut got@: Vec<u64> = Vec::new(); let mut f@ = |x: u64| { got@.push(x); true };", "(&mut f@).into()", "digest(&got@)"),
                   ("let mut got@: Vec<u64> = Vec::new(); let mut f@ = |x: u64| { got@.push(x); false };", "(&mut f@).into()", "digest(&got@)"),
                   ("let mut got@: Vec<u64> = Vec::new(); let mut f@ = |x: u64| { got@.push(x); got@.len() < 2 };", "(&mut f@).into()", "digest(&got@)"),
                   ("let mut got@: Vec<u64> = Vec::new();", "(&mut got@).into()", "digest(&got@)")],
                  "0u64", effect="let mut {p} = {p}; let n = ::cglue::callback::FeedCallback::feed_into_mut([d, 2, 3].iter().copied(), &mut {p}); d = digest(&(d, n as u64));", ref=True),
    "iter": A("::cglue::iter::CIterator<u64>",
              [("let mut it@ = [0u64; 0].iter().copied();", "(&mut it@).into()", "it@.count() as u64"),
               ("let mut it@ = [9u64].iter().copied();", "(&mut it@).into()", "it@.count() as u64"),
               ("let mut it@ = [1u64, 2, 3, 4].iter().copied();", "(&mut it@).into()", "it@.count() as u64")],
              "0u64", effect="let mut {p} = {p}; let mut k = 0; while k < 3 { match {p}.next() { Some(x) => d = digest(&(d, x)), None => break }; k += 1; }", ref=True),
    "fnptr": A("extern \"C\" fn(u64) -> u64", [("", "fn_double", "0"), ("", "fn_inc", "0")], "{p}(21).dig()"),
    "ptr": A("*const u8", [("sent(BYTES3.as_ptr());", "BYTES3.as_ptr()", "0"), ("sent(::core::ptr::null::<u8>());", "::core::ptr::null()", "0")], "{p}.dig()"),
}

# ------------------------------------------------------------------------------------------------
# return shapes
# body: expression producing the value from `this`, `k` (u64) and `sel`; rdig: caller-side digest of `r`
# recv: which receivers can return it ("any", "ref" = needs a borrow of self, "mutref")


def R(ty, body, rdig="r.dig()", recv="any", ref=False, attr="", pre=""):
    return dict(ty=ty, body=body, rdig=rdig, recv=recv, ref=ref, attr=attr, pre=pre)


RETS = {
    "unit": R("()", "()"),
    "u64": R("u64", "k"),
    "slice_u8": R("&[u8]", "{ let n = (sel % 5) as usize; let r = &this.bytes[..n.min(4)]; sent(r.as_ptr()); r }", recv="ref", ref=True),
    "slice_mut": R("&mut [u64]", "{ let n = (sel % 4) as usize; let r = &mut this.words[1..1 + n]; sent(r.as_ptr()); r }",
                   rdig="{ let h = r.dig(); for e in r.iter_mut() { *e ^= 0x55; } h }", recv="mutref", ref=True),
    "str": R("&str", "{ let n = [0usize, 1, 2, 4][(sel % 4) as usize]; let r = &this.text[..n]; sent(r.as_ptr()); r }", recv="ref", ref=True),
    "opt_u64": R("Option<u64>", "if sel % 3 == 0 { None } else if sel % 3 == 1 { Some(k) } else { Some(u64::MAX) }"),
    "opt_ref": R("Option<&u64>", "if sel % 2 == 0 { None } else { sent(&this.words[2] as *const u64); Some(&this.words[2]) }", rdig="r.map(dig_ref).dig()", recv="ref", ref=True),
    "res": R("Result<u64, u32>", "if sel % 2 == 0 { Ok(k) } else { Err(k as u32) }"),
    # error type that implements IntError (lossy) in a method that does NOT ask for integer results: must stay a CResult
    "res_ie": R("Result<u64, DetErr>", "if sel % 2 == 0 { Ok(k) } else { Err(DetErr { code: 22, detail: 1000 + k as u32 }) }"),
    "opt_ptr": R("Option<*const u8>", "if sel % 3 == 0 { None } else if sel % 3 == 1 { sent(BYTES3.as_ptr()); Some(BYTES3.as_ptr()) } else { sent(::core::ptr::null::<u8>()); Some(::core::ptr::null::<u8>()) }"),
    "opt_q": R("::core::option::Option<u64>", "if sel % 3 == 0 { None } else if sel % 3 == 1 { Some(k) } else { Some(u64::MAX) }"),
    "res_q": R("::std::result::Result<u64, u32>", "if sel % 2 == 0 { Ok(k) } else { Err(k as u32) }"),
    "int_q": R("::core::result::Result<u64, ()>", "if sel % 2 == 0 { Ok(k) } else { Err(()) }", attr="#[int_result]"),
    "res_unit": R("Result<(), u32>", "if sel % 2 == 0 { Ok(()) } else { Err(k as u32 | 1) }"),
    "s3": R("S3", "S3 { a: k as u8, b: (k >> 8) as u16, c: k }"),
    # integer-coded results (C13, generated half)
    "int_u64": R("Result<u64, ()>", "if sel % 2 == 0 { Ok(k) } else { Err(()) }", attr="#[int_result]"),
    "int_unit": R("Result<(), ()>", "if sel % 2 == 0 { Ok(()) } else { Err(()) }", attr="#[int_result]"),
    "int_drop": R("Result<instr::Dc, ()>", "if sel % 2 == 0 { Ok(instr::Dc::new(k)) } else { Err(()) }", rdig="r.map(|d| d.val).dig()", attr="#[int_result]"),
    # zero-sized success payload with a destructor: moved into the caller's slot once, like any other payload
    "int_zst_drop": R("Result<instr::DcZst, ()>", "if sel % 2 == 0 { Ok(instr::DcZst::new()) } else { Err(()) }", rdig="r.map(|_| 1u64).dig()", attr="#[int_result]"),
    "int_io": R("Result<u64, ::std::io::Error>", "match sel % 4 { 0 => Ok(k), 1 => Err(::std::io::Error::from_raw_os_error(((k % 4000) as i32) + 1)), 2 => Err(::std::io::Error::new(::std::io::ErrorKind::Other, \"x\")), _ => Err(::std::io::Error::from_raw_os_error(-(((k % 4000) as i32) + 1))) }",
                rdig="r.map_err(|e| if cur_sel() % 4 == 2 { 0u32 } else { e.raw_os_error().unwrap_or(-1) as u32 }).dig()", attr="#[int_result]"),
    "int_unit_io": R("Result<(), ::std::io::Error>", "match sel % 3 { 0 => Ok(()), 1 => Err(::std::io::Error::from_raw_os_error(((k % 4000) as i32) + 2)), _ => Err(::std::io::Error::from_raw_os_error(-(((k % 4000) as i32) + 2))) }",
                     rdig="r.map_err(|e| e.raw_os_error().unwrap_or(0) as u32).dig()", attr="#[int_result]"),
    # Result shapes WITHOUT a method-level attribute, for traits that carry a trait-level #[int_result] / #[int_result(PResult)]
    "int_tl": R("Result<u64, ()>", "if sel % 2 == 0 { Ok(k) } else { Err(()) }"),
    "int_tl_alias": R("PResult<u64>", "if sel % 2 == 0 { Ok(k) } else { Err(()) }"),
    "int_alias": R("PResult<u64>", "if sel % 2 == 0 { Ok(k) } else { Err(()) }", attr="#[int_result(PResult)]"),
    "no_int": R("Result<u64, u32>", "if sel % 2 == 0 { Ok(k) } else { Err(k as u32) }", attr="#[int_result]\n    #[no_int_result]"),
    # borrows that do not depend on the receiver (`&'static`): every receiver kind, also a consumed one, returns them as a slice view
    "static_str": R("&'static str", "{ let r: &'static str = [\"\", \"a\", \"static text\"][(sel % 3) as usize]; sent(r.as_ptr()); r }"),
    "static_slice": R("&'static [u8]", "{ let r: &'static [u8] = [&BYTES0[..], &BYTES1[..], &BYTES3[..]][(sel % 3) as usize]; sent(r.as_ptr()); r }"),
    "int_fmt": R("Result<u64, ::core::fmt::Error>", "if sel % 2 == 0 { Ok(k) } else { Err(::core::fmt::Error) }", rdig="r.map_err(|_| 1u32).dig()", attr="#[int_result]"),
}
SELS = {"int_tl": 2, "int_tl_alias": 2, "res_ie": 2, "int_zst_drop": 2, "opt_ptr": 3, "opt_q": 3, "res_q": 2, "int_q": 2, "slice_u8": 5, "slice_mut": 4, "str": 4, "opt_u64": 3, "opt_ref": 2, "res": 2, "res_unit": 2, "int_u64": 2, "int_unit": 2,
        "static_str": 3, "static_slice": 3, "int_drop": 2, "int_io": 4, "int_unit_io": 3, "int_alias": 2, "no_int": 2, "int_fmt": 2}


def ret_ok(recv, ret):
    need = RETS[ret]["recv"]
    if need == "any":
        return True
    if need == "ref":
        return recv in ("ref", "mut")
    if need == "mutref":
        return recv == "mut"
    return False


# how variant 0 of a shape is passed to the *raw* vtable slot (wrapped C type)
RAW_NO_INTO = {"callback", "iter", "fnptr", "ptr", "opt_nz"}
RAW_RECV = {"ref": "&cont", "mut": "&mut cont", "own": "cont", "pinref": "::core::pin::Pin::new(&cont)", "pinmut": "::core::pin::Pin::new(&mut cont)"}
RAW_EXTRA = {"int_tl", "int_tl_alias", "int_q", "int_u64", "int_drop", "int_io", "int_alias", "int_fmt"}


class Method:
    def __init__(self, name, recv, args, ret, default=None, abi=None):
        # default: None | "plain" | "sized"  — the trait declares a default body (returning a sentinel that the
        # implementor's override never returns), optionally with a `where Self: Sized` clause
        # abi: None | 'extern "C"' — the trait method itself is declared with a C ABI (its wrapped shapes are lowered all the same)
        self.name, self.recv, self.args, self.ret, self.default, self.abi = name, recv, args, ret, default, abi


class Trait:
    def __init__(self, idx, methods, tag, attr=None):
        # attr: trait-level attribute line(s) placed after #[cglue_trait] (e.g. a trait-wide #[int_result])
        self.idx, self.methods, self.tag, self.attr = idx, methods, tag, attr
        self.name = "T%d" % idx
        self.mod = "t%d" % idx

    def kind(self):
        """which containers can carry the trait"""
        recvs = {m.recv for m in self.methods}
        if "own" in recvs:
            return "own"
        if recvs & {"mut", "pinmut"}:
            return "mut"
        return "ref"


def needs_lifetime(m):
    return RETS[m.ret]["ref"] and any(ARGS[a]["ref"] for a in m.args)


def emit_trait(t):
    out = []
    w = out.append
    w("pub mod %s {" % t.mod)
    w("    #![allow(unused_variables, unused_mut, unused_assignments, clippy::all)]")
    w("    use h_objbase::support::*;")
    w("    use cglue::*;")
    w("    #[allow(dead_code)] pub type PResult<T> = Result<T, ()>;")
    w("    #[cglue_trait]")
    if t.attr:
        w("    " + t.attr)
    w("    pub trait %s {" % t.name)
    for j, m in enumerate(t.methods):
        r = RETS[m.ret]
        if r["attr"]:
            w("        " + r["attr"])
        lt = "<'a>" if needs_lifetime(m) else ""
        sig_recv = RECV[m.recv]["sig"]
        params = []
        for i, a in enumerate(m.args):
            ty = ARGS[a]["ty"]
            params.append("a%d: %s" % (i, ty))
        rty = r["ty"]
        if lt:
            sig_recv = sig_recv.replace("&self", "&'a self").replace("&mut self", "&'a mut self")
            rty = rty.replace("&", "&'a ")
        if m.default:
            assert m.ret == "u64"
            wh = " where Self: Sized" if m.default == "sized" else ""
            w("        fn %s%s(%s) -> %s%s { 0xDEAD_0000 + %d }" % (m.name, lt, ", ".join([sig_recv] + params), rty, wh, j))
        else:
            w("        %sfn %s%s(%s) -> %s;" % ((m.abi + " ") if m.abi else "", m.name, lt, ", ".join([sig_recv] + params), rty))
    w("    }")
    # ---- implementation for Imp
    if any(m.abi for m in t.methods):
        # the implementor's own `extern "C" fn` takes Rust types by design; the FFI lints are meant for the GENERATED glue
        w("    #[allow(improper_ctypes_definitions)]")
    w("    impl %s for Imp {" % t.name)
    for j, m in enumerate(t.methods):
        r = RETS[m.ret]
        lt = "<'a>" if needs_lifetime(m) else ""
        sig_recv = RECV[m.recv]["sig"]
        rty = r["ty"]
        if lt:
            sig_recv = sig_recv.replace("&self", "&'a self").replace("&mut self", "&'a mut self")
            rty = rty.replace("&", "&'a ")
        params = ["a%d: %s" % (i, ARGS[a]["ty"]) for i, a in enumerate(m.args)]
        w("        %sfn %s%s(%s) -> %s {" % ((m.abi + " ") if m.abi else "", m.name, lt, ", ".join([sig_recv] + params), rty))
        w("            " + RECV[m.recv]["this"])
        w("            let sel = cur_sel();")
        w("            let mut d: u64 = %d;" % (j + 1))
        for i, a in enumerate(m.args):
            w("            d = digest(&(d, %s));" % ARGS[a]["dig"].replace("{p}", "a%d" % i))
        w("            this.enter(%d, d);" % (t.idx * 16 + j))
        for i, a in enumerate(m.args):
            if ARGS[a]["effect"]:
                w("            " + ARGS[a]["effect"].replace("{p}", "a%d" % i))
        if RECV[m.recv]["mutable"]:
            w("            this.acc = this.acc.wrapping_mul(31).wrapping_add(d); this.words[0] ^= d;")
        w("            let k = digest(&(this.acc, d));")
        w("            " + r["body"])
        w("        }")
    w("    }")
    # ---- generic driver
    nact = []
    w("    pub fn call<T: %s + Unpin>(t: &mut Option<T>, action: usize, sel: u64) -> Obs {" % t.name)
    w("        ptr_reset(); set_sel(sel);")
    w("        match action {")
    act = 0
    for j, m in enumerate(t.methods):
        combos = [[]]
        for a in m.args:
            combos = [c + [v] for c in combos for v in range(len(ARGS[a]["variants"]))]
        for combo in combos:
            w("            %d => {" % act)
            exprs, posts = [], []
            for i, (a, v) in enumerate(zip(m.args, combo)):
                setup, expr, post = [x.replace("@", str(i)) for x in ARGS[a]["variants"][v]]
                w("                " + setup)
                exprs.append(expr)
                posts.append(post)
            callx = RECV[m.recv]["call"].format(m=m.name, a=", ".join(exprs))
            w("                #[allow(unused_mut)] let mut r = %s;" % callx)
            w("                let ret = %s;" % RETS[m.ret]["rdig"])
            w("                let post = digest(&(%s,));" % ", ".join(posts) if posts else "                let post = 0;")
            w("                Obs { ret, post, ptr_ok: ptr_ok() }")
            w("            }")
            nact.append(dict(method=j, consuming=RECV[m.recv]["consuming"], combo=combo, nsel=SELS.get(m.ret, 1)))
            act += 1
    w("            _ => unreachable!(),")
    w("        }")
    w("    }")
    w("    pub const ACTIONS: &[(bool, u64)] = &[%s];" % ", ".join("(%s, %d)" % ("true" if a["consuming"] else "false", a["nsel"]) for a in nact))
    # ---- raw vtable: what a C caller sees. Slot j, called with the container and the (wrapped) arguments,
    # must reach method j; the table is exactly one pointer per method; opaque == concrete bits.
    w("    pub fn raw_check() -> Result<u64, (String, String)> {")
    w("        use cglue::trait_group::*; use cglue::boxed::CBox;")
    w("        type Cont = CGlueObjContainer<CBox<'static, Imp>, NoContext, %sRetTmp<NoContext>>;" % t.name)
    w("        let v: &'static %sVtbl<'static, Cont> = Default::default();" % t.name)
    w("        let bytes = ::core::mem::size_of_val(v);")
    w("        if bytes != %d * ::core::mem::size_of::<usize>() { return Err((\"vtable:size\".into(), format!(\"vtable of %s is {} bytes, expected %d function pointers\", bytes))); }" % (len(t.methods), t.name, len(t.methods)))
    w("        let words: &[usize] = unsafe { ::core::slice::from_raw_parts(v as *const _ as *const usize, %d) };" % len(t.methods))
    w("        let mut seen_ids: Vec<u32> = Vec::new();")
    for j, m in enumerate(t.methods):
        w("        {")
        w("            let (imp, log) = Imp::new(1);")
        w("            #[allow(unused_mut)] let mut cont: Cont = CBox::from(imp).into();")
        if m.default:
            # no use of the per-method getter here: a generator that (wrongly) leaves the method out of the vtable must
            # show up as a verdict of this check (vtable:size / vtable:slot_target), not as a harness that does not compile
            recv_ty = {"ref": "&Cont", "mut": "&mut Cont", "own": "Cont", "pinref": "::core::pin::Pin<&Cont>", "pinmut": "::core::pin::Pin<&mut Cont>"}[m.recv]
            arg_ty = {"u64": "u64", "slice_u8": "::cglue::slice::CSliceRef<u8>"}
            w("            let f: unsafe extern \"C\" fn(%s) -> u64 = unsafe { ::core::mem::transmute(words[%d]) };" % (", ".join([recv_ty] + [arg_ty[a] for a in m.args]), j))
        else:
            w("            let getter = v.%s();" % m.name)
            w("            if getter as usize != words[%d] { return Err((\"vtable:order\".into(), format!(\"word %d of the vtable of %s is not the entry for method `%s` (declaration order)\"))); }" % (j, j, t.name, m.name))
            w("            let f = unsafe { retype(&getter, words[%d]) };" % j)
        if m.ret.startswith("int_") or m.ret in ("no_int", "res_ie"):
            # the C signature of integer-coded results (extra out-parameter, i32 return) is itself what C03/C13 judge: this
            # check must keep compiling whatever the generator does with it, so the slot is compared but not called here
            w("            let _ = f;")
            if m.ret.startswith("int_"):
                # a method marked (itself or through its trait) to use integer results has a C signature that returns the code
                w("            let tn = ::std::any::type_name_of_val(&getter);")
                w("            if !tn.trim_end().ends_with(\"-> i32\") { return Err((\"vtable:int_result_signature\".into(), format!(\"method `%s` of %s is marked to use integer results but its vtable entry is `{}` (no i32 code)\", tn))); }" % (m.name, t.name))
            w("            seen_ids.push(%d);" % (t.idx * 16 + j))
            w("        }")
            continue
        w("            ptr_reset(); set_sel(0);")
        exprs = []
        for i, a in enumerate(m.args):
            setup, expr, post = [x.replace("@", str(i)) for x in ARGS[a]["variants"][0]]
            w("            " + setup)
            exprs.append(expr if a in RAW_NO_INTO else "(%s).into()" % expr)
        if m.ret in RAW_EXTRA:
            w("            let mut ok_out = ::core::mem::MaybeUninit::uninit();")
            exprs.append("&mut ok_out")
        w("            let _r = unsafe { f(%s) };" % ", ".join([RAW_RECV[m.recv]] + exprs))
        w("            let l = log.lock().unwrap();")
        w("            if l.len() != 1 || l[0].0 != %d { return Err((\"vtable:slot_target\".into(), format!(\"calling slot %d of the vtable of %s (%s) ran {:?}, expected exactly one call of method id %d\", l.iter().map(|e| e.0).collect::<Vec<_>>()))); }" % (t.idx * 16 + j, j, t.name, t.tag.replace('"', "'"), t.idx * 16 + j))
        w("            seen_ids.push(l[0].0);")
        w("        }")
    # opaque == concrete
    w("        let bits = {")
    w("            let (imp, _log) = Imp::new(1);")
    w("            let concrete = %sBaseBox::<Imp>::from(imp);" % t.name)
    w("            const N: usize = ::core::mem::size_of::<%sBaseBox<'static, Imp>>() / ::core::mem::size_of::<usize>();" % t.name)
    w("            let a: [usize; N] = unsafe { ::core::mem::transmute_copy(&concrete) };")
    w("            if ::core::mem::size_of::<%sBaseBox<'static, Imp>>() != ::core::mem::size_of::<%sBox<'static>>() || ::core::mem::align_of::<%sBaseBox<'static, Imp>>() != ::core::mem::align_of::<%sBox<'static>>() { return Err((\"opaque:size\".into(), \"opaque and concrete object differ in size/alignment\".into())); }" % (t.name, t.name, t.name, t.name))
    w("            let o: %sBox = concrete.into_opaque();" % t.name)
    w("            let b: [usize; N] = unsafe { ::core::mem::transmute_copy(&o) };")
    w("            if a != b { return Err((\"opaque:bits\".into(), \"into_opaque changed the bit pattern of the object\".into())); }")
    w("            if a[0] != v.as_opaque() as *const _ as usize && false { }")
    w("            N")
    w("        };")
    w("        Ok(digest(&(seen_ids, bits, words.len())))")
    w("    }")
    w("    pub const DESC: &str = %s;" % json.dumps(t.tag))
    w("}")
    return "\n".join(out), nact


# spelling variants of shapes that are already in the grammar: swept per receiver and per position in both tiers,
# left out of the thorough cross products
LIGHT_ARGS = {"opt_q", "res_q", "opt_str", "opt_slice", "into2"}
LIGHT_RETS = {"opt_q", "res_q", "int_q", "res_ie", "static_str", "static_slice"}
# only meaningful under a trait-level attribute: never enumerated on their own
TRAIT_LEVEL_RETS = {"int_tl", "int_tl_alias"}


def build(tier):
    traits = []

    def add(methods, tag, attr=None):
        traits.append(Trait(len(traits), methods, tag, attr))

    recvs = ["ref", "mut", "own", "pinref", "pinmut"]
    if tier == "quick":
        # receiver x argument (fixed return u64)
        for rc in recvs:
            for a in ARGS:
                add([Method("m", rc, [a], "u64")], "recv=%s args=[%s] ret=u64" % (rc, a))
        # receiver x return (fixed argument u64)
        for rc in recvs:
            for r in RETS:
                if r in TRAIT_LEVEL_RETS:
                    continue
                if ret_ok(rc, r):
                    add([Method("m", rc, ["u64"], r)], "recv=%s args=[u64] ret=%s" % (rc, r))
        # every shape in position 2
        for a in ARGS:
            add([Method("m", "mut", ["u64", a], "u64")], "recv=mut args=[u64,%s] ret=u64" % a)
        # reference return next to reference argument (explicit lifetimes)
        add([Method("m", "ref", ["slice_u8"], "slice_u8")], "recv=ref args=[slice_u8] ret=slice_u8 (explicit lifetime)")
        add([Method("m", "mut", ["str"], "str")], "recv=mut args=[str] ret=str (explicit lifetime)")
    else:
        for rc in recvs:
            for a in ARGS:
                for r in RETS:
                    if a in LIGHT_ARGS or r in LIGHT_RETS or r in TRAIT_LEVEL_RETS:
                        continue
                    if ret_ok(rc, r):
                        add([Method("m", rc, [a], r)], "recv=%s args=[%s] ret=%s" % (rc, a, r))
        for a in ARGS:
            for b in ARGS:
                if a in LIGHT_ARGS or b in LIGHT_ARGS:
                    continue
                add([Method("m", "mut", [a, b], "u64")], "recv=mut args=[%s,%s] ret=u64" % (a, b))
        for rc in recvs:
            for a in sorted(LIGHT_ARGS):
                add([Method("m", rc, [a], "u64")], "recv=%s args=[%s] ret=u64" % (rc, a))
            for r in sorted(LIGHT_RETS):
                add([Method("m", rc, ["u64"], r)], "recv=%s args=[u64] ret=%s" % (rc, r))
        for a in sorted(LIGHT_ARGS):
            add([Method("m", "mut", ["u64", a], "u64")], "recv=mut args=[u64,%s] ret=u64" % a)
    # several converted (`impl Into<T>`) arguments with different values in one method: each keeps its own value and position
    add([Method("m", "mut", ["into", "into2"], "u64")], "recv=mut args=[into,into2] ret=u64 (two converted arguments, different values)")
    add([Method("m", "ref", ["into", "u64", "into2", "into"], "u64")], "recv=ref args=[into,u64,into2,into] ret=u64 (three converted arguments around a plain one)")
    # multi-method traits mixing receivers (both tiers)
    add([Method("ma", "ref", ["u64"], "u64"), Method("mb", "mut", ["slice_u8"], "opt_u64"), Method("mc", "own", ["u64"], "res")], "3 methods: ref/mut/own")
    add([Method("ma", "mut", ["str"], "unit"), Method("mb", "mut", ["str"], "unit"), Method("mc", "ref", [], "u64")], "3 methods, two with identical signatures + getter")
    add([Method("ma", "ref", ["u64"], "u64"), Method("mb", "ref", ["u64"], "u64"), Method("mc", "ref", ["u64"], "u64")], "3 methods with identical signatures")
    add([Method("ma", "pinmut", ["opt_u64"], "s3"), Method("mb", "pinref", [], "slice_u8" if False else "u64"), Method("mc", "mut", ["mut_ref"], "int_u64")], "3 methods: pinmut/pinref/mut with int_result")
    add([Method("ma", "mut", [], "slice_mut"), Method("mb", "ref", [], "slice_u8"), Method("mc", "ref", [], "str")], "3 methods returning borrows of the state")
    # a method-level #[int_result] must not leak into its neighbours: plain Result methods before and after it keep their CResult
    add([Method("ma", "ref", ["u64"], "res_ie"), Method("mb", "ref", ["u64"], "int_u64"), Method("mc", "mut", ["u64"], "res_ie")],
        "3 methods: CResult with an IntError error type, int_result, CResult with an IntError error type again")
    # trait-level and method-level integer-result attributes in one trait, with different result identifiers (both directions)
    add([Method("ma", "ref", ["u64"], "int_alias"), Method("mb", "ref", ["u64"], "int_tl"), Method("mc", "mut", ["u64"], "u64")],
        "trait-level #[int_result] + method-level #[int_result(PResult)] + plain Result under the trait-level attribute", attr="#[int_result]")
    add([Method("ma", "ref", ["u64"], "int_u64"), Method("mb", "mut", ["u64"], "int_tl_alias")],
        "trait-level #[int_result(PResult)] + method-level bare #[int_result] + PResult under the trait-level attribute", attr="#[int_result(PResult)]")
    # a Result ARGUMENT of a method that returns an integer-coded result (method-level and trait-level attribute): the attribute
    # concerns the return value only, the argument is lowered to CResult as everywhere else
    add([Method("m", "ref", ["res"], "int_u64")], "recv=ref args=[res] ret=int_u64 (Result argument of an int_result method)")
    add([Method("ma", "mut", ["u64", "res"], "int_tl"), Method("mb", "ref", ["res_q"], "u64")],
        "trait-level #[int_result]: Result arguments (second position / module-path spelling) of methods with and without a Result return", attr="#[int_result]")
    # the trait-level attribute is found wherever it stands among the trait's attributes (after a doc comment / another attribute)
    add([Method("ma", "ref", ["u64"], "int_tl"), Method("mb", "mut", ["u64"], "int_tl")],
        "trait-level #[int_result] written after a doc comment and an #[allow] attribute", attr="/// documented trait\n    #[allow(clippy::all)]\n    #[int_result]")
    # trait methods that are themselves declared `extern "C"`: every wrapped shape is lowered as for ordinary methods
    EC = 'extern "C"'
    for a in ("slice_u8", "str", "opt_u64", "res", "slice_mut"):
        add([Method("m", "mut", [a], "u64", abi=EC)], "extern \"C\" method, recv=mut args=[%s] ret=u64" % a)
    for r in ("slice_u8", "str", "opt_u64", "res", "int_u64", "s3"):
        add([Method("m", "ref", ["u64"], r, abi=EC)], "extern \"C\" method, recv=ref args=[u64] ret=%s" % r)
    add([Method("ma", "ref", ["str"], "opt_u64", abi=EC), Method("mb", "ref", ["str"], "opt_u64")], "extern \"C\" method next to an ordinary method with the same signature")
    # methods with a default body that the implementor overrides (with and without a `where Self: Sized` clause)
    add([Method("ma", "ref", ["u64"], "u64", default="plain"), Method("mb", "mut", ["u64"], "u64", default="sized"), Method("mc", "ref", [], "u64")], "default bodies overridden by the implementor (plain / where Self: Sized) + required method")
    add([Method("ma", "ref", ["slice_u8"], "u64", default="sized"), Method("mb", "own", ["u64"], "u64", default="sized")], "default bodies: sized with slice argument, consuming with default (where Self: Sized)")
    add([Method("ma", "pinref", ["u64"], "u64", default="sized")], "default body on a Pin<&Self> receiver with where Self: Sized")
    return traits



HAND_TV = """
/// hand-written structure member: `#[vtbl_only]` and `#[custom_impl]` entries between regular methods
pub mod tv {
    #![allow(unused_variables, unused_mut, clippy::all)]
    use h_objbase::support::*;
    use cglue::*;
    #[cglue_trait]
    pub trait TV {
        fn first(&self) -> u64;
        #[vtbl_only]
        #[custom_impl({}, u64, {}, { 77 }, {},)]
        fn second(&self) -> u64 {
            0
        }
        fn third(&self, a: u64) -> u64;
        #[custom_impl({ a: u64, }, u64, {}, { a + 5 }, {},)]
        fn fourth(&self, a: u64) -> u64 {
            1
        }
        fn fifth(&mut self) -> u64;
    }
    impl TV for Imp {
        fn first(&self) -> u64 {
            self.enter(9001, 0);
            1
        }
        fn third(&self, a: u64) -> u64 {
            self.enter(9003, a);
            3
        }
        fn fifth(&mut self) -> u64 {
            self.enter(9005, 0);
            self.acc += 1;
            5
        }
    }
    pub const DESC: &str = "vtbl_only + custom_impl entries between regular methods (declaration order of the vtable)";
    pub fn raw_check() -> Result<u64, (String, String)> {
        use cglue::boxed::CBox;
        use cglue::trait_group::*;
        type Cont = CGlueObjContainer<CBox<'static, Imp>, NoContext, TVRetTmp<NoContext>>;
        let v: &'static TVVtbl<'static, Cont> = Default::default();
        let bytes = ::core::mem::size_of_val(v);
        if bytes != 5 * ::core::mem::size_of::<usize>() {
            return Err(("vtable:size".into(), format!("vtable of TV is {} bytes, expected 5 function pointers (vtbl_only and custom_impl entries are exported too)", bytes)));
        }
        let words: &[usize] = unsafe { ::core::slice::from_raw_parts(v as *const _ as *const usize, 5) };
        let (imp, log) = Imp::new(1);
        let mut cont: Cont = CBox::from(imp).into();
        let f0: unsafe extern "C" fn(&Cont) -> u64 = unsafe { ::core::mem::transmute(words[0]) };
        let f1: unsafe extern "C" fn(&Cont) -> u64 = unsafe { ::core::mem::transmute(words[1]) };
        let f2: unsafe extern "C" fn(&Cont, u64) -> u64 = unsafe { ::core::mem::transmute(words[2]) };
        let f3: unsafe extern "C" fn(&Cont, u64) -> u64 = unsafe { ::core::mem::transmute(words[3]) };
        let f4: unsafe extern "C" fn(&mut Cont) -> u64 = unsafe { ::core::mem::transmute(words[4]) };
        let r = unsafe { [f0(&cont), f1(&cont), f2(&cont, 40), f3(&cont, 40), f4(&mut cont)] };
        let ids: Vec<u32> = log.lock().unwrap().iter().map(|e| e.0).collect();
        if r != [1, 77, 3, 45, 5] || ids != [9001, 9003, 9005] {
            return Err(("vtable:order".into(), format!("calling the five vtable words of TV in order returned {:?} and ran methods {:?}; declaration order requires [1, 77, 3, 45, 5] and [9001, 9003, 9005]", r, ids)));
        }
        Ok(digest(&(r, ids)))
    }
}
"""


HAND_X = """
/// hand-written structure members: generic trait, lifetime-parameterised trait, supertrait, unsafe / extern "C" methods,
/// skip_func, built-in ext traits (Debug, Display)
pub mod xg {
    #![allow(unused_variables, unused_mut, clippy::all)]
    use h_objbase::support::*;
    use cglue::*;
    #[cglue_trait]
    pub trait TG<X> {
        fn g(&self, x: X) -> X;
        fn h(&mut self, x: &X) -> u64;
    }
    impl TG<u64> for Imp {
        fn g(&self, x: u64) -> u64 {
            self.enter(9101, x);
            x.wrapping_mul(3) ^ self.acc
        }
        fn h(&mut self, x: &u64) -> u64 {
            seen(x as *const u64);
            self.enter(9102, *x);
            self.acc = self.acc.wrapping_add(*x);
            self.acc
        }
    }
    pub fn call<T: TG<u64> + Unpin>(t: &mut Option<T>, action: usize, sel: u64) -> Obs {
        ptr_reset();
        set_sel(sel);
        let ret = match action {
            0 => t.as_ref().unwrap().g(0),
            1 => t.as_ref().unwrap().g(u64::MAX),
            2 => {
                sent(&FIVE as *const u64);
                t.as_mut().unwrap().h(&FIVE)
            }
            _ => unreachable!(),
        };
        Obs { ret, post: 0, ptr_ok: ptr_ok() }
    }
    pub const ACTIONS: &[(bool, u64)] = &[(false, 1), (false, 1), (false, 1)];
    pub const DESC: &str = "generic trait TG<X> instantiated with u64 (by-value and by-reference X)";
}
pub mod xl {
    #![allow(unused_variables, unused_mut, clippy::all)]
    use h_objbase::support::*;
    use cglue::*;
    // (a trait lifetime used directly in a method signature — `fn l(&self, a: &'a u64)` — is rejected by the generator with
    // a compile error; the supported shape is the one of the repository's own GenWithLifetime test)
    #[cglue_trait]
    pub trait TL<'a, X: Eq + 'a> {
        fn l(&self) -> &X;
        fn n(&self, x: &X) -> u64;
    }
    impl<'a> TL<'a, u64> for Imp {
        fn l(&self) -> &u64 {
            self.enter(9111, 0);
            sent(&self.acc as *const u64);
            &self.acc
        }
        fn n(&self, x: &u64) -> u64 {
            seen(x as *const u64);
            self.enter(9112, *x);
            self.acc ^ *x
        }
    }
    pub fn call<'a, T: TL<'a, u64> + Unpin>(t: &mut Option<T>, action: usize, sel: u64) -> Obs {
        ptr_reset();
        set_sel(sel);
        let ret = match action {
            0 => {
                let r = t.as_ref().unwrap().l();
                seen(r as *const u64);
                *r
            }
            1 => {
                sent(&FIVE as *const u64);
                t.as_ref().unwrap().n(&FIVE)
            }
            _ => unreachable!(),
        };
        Obs { ret, post: 0, ptr_ok: ptr_ok() }
    }
    pub const ACTIONS: &[(bool, u64)] = &[(false, 1), (false, 1)];
    pub const DESC: &str = "lifetime- and type-parameterised trait TL<'a, X> returning a reference into the value";
}
pub mod xa {
    #![allow(unused_variables, unused_mut, clippy::all)]
    use h_objbase::support::*;
    use cglue::*;
    #[cglue_trait]
    pub trait TA {
        type Item;
        fn push_all(&mut self, items: &[Self::Item]) -> u64;
        fn fill(&mut self, out: &mut [Self::Item]) -> u64;
        fn push_opt(&mut self, item: Option<Self::Item>) -> u64;
        fn push_res(&mut self, item: Result<Self::Item, u8>) -> u64;
    }
    impl TA for Imp {
        type Item = u64;
        fn push_all(&mut self, items: &[u64]) -> u64 {
            self.enter(9131, items.dig());
            for i in items { self.acc = self.acc.wrapping_mul(31).wrapping_add(*i); }
            self.acc
        }
        fn fill(&mut self, out: &mut [u64]) -> u64 {
            seen(out.as_ptr());
            self.enter(9132, out.len() as u64);
            for (k, o) in out.iter_mut().enumerate() { *o = self.acc.wrapping_add(k as u64); }
            out.len() as u64
        }
        fn push_opt(&mut self, item: Option<u64>) -> u64 {
            self.enter(9133, item.dig());
            if let Some(i) = item { self.acc ^= i; }
            self.acc
        }
        fn push_res(&mut self, item: Result<u64, u8>) -> u64 {
            self.enter(9134, item.dig());
            match item { Ok(i) => self.acc = self.acc.wrapping_add(i), Err(e) => self.acc = self.acc.wrapping_sub(e as u64) }
            self.acc
        }
    }
    pub fn call<T: TA<Item = u64> + Unpin>(t: &mut Option<T>, action: usize, sel: u64) -> Obs {
        ptr_reset();
        set_sel(sel);
        let mut post = 0;
        let ret = match action {
            0 => { sent(WORDS2.as_ptr()); t.as_mut().unwrap().push_all(&WORDS2[..]) }
            1 => { sent(WORDS2[2..].as_ptr()); t.as_mut().unwrap().push_all(&WORDS2[2..]) }
            2 => { let mut buf = [1u64, 2, 3]; sent(buf.as_ptr()); let r = t.as_mut().unwrap().fill(&mut buf[..]); post = digest(&buf); r }
            3 => t.as_mut().unwrap().push_opt(None),
            4 => t.as_mut().unwrap().push_opt(Some(0)),
            5 => t.as_mut().unwrap().push_opt(Some(u64::MAX)),
            6 => t.as_mut().unwrap().push_res(Ok(7)),
            7 => t.as_mut().unwrap().push_res(Err(3)),
            _ => unreachable!(),
        };
        Obs { ret, post, ptr_ok: ptr_ok() }
    }
    pub const ACTIONS: &[(bool, u64)] = &[(false, 1), (false, 1), (false, 1), (false, 1), (false, 1), (false, 1), (false, 1), (false, 1)];
    pub const DESC: &str = "plain associated type used as the element / payload of wrapped argument shapes (&[Item], &mut [Item], Option<Item>, Result<Item, u8>)";
}
/// hand-written member for the FFI lints only: wrapped shapes on methods that take another path through the generator - a
/// C-side-only (`#[vtbl_only]`) method with wrapped argument shapes, `#[custom_impl]` methods with wrapped return shapes
pub mod xv {
    #![allow(unused_variables, unused_mut, dead_code, clippy::all)]
    use cglue::*;
    #[cglue_trait]
    pub trait TVo {
        fn vo_len(&self) -> usize;
        #[vtbl_only]
        fn vo_find(&self, needle: &[u8], label: &str, skip: Option<usize>, prev: Result<u32, u8>, out: &mut [u64]) -> usize {
            self.vo_len() + needle.len() + label.len() + skip.unwrap_or(0) + prev.map(|v| v as usize).unwrap_or(1000) + out.len()
        }
        #[vtbl_only]
        fn vo_get(&self, idx: usize) -> Option<u64> {
            None
        }
        #[vtbl_only]
        fn vo_name(&self) -> &str {
            "vo"
        }
    }
    #[cglue_trait]
    pub trait TMb {
        fn mb_len(&self) -> usize;
        // arguments re-bound with `mut` / patterns in default-bodied methods: lowered like plainly bound ones
        fn mb_write(&mut self, mut buf: &[u8], mut line: &str, mut count: Option<u32>, mut fill: Result<u8, u8>) -> usize {
            buf = &buf[..buf.len() / 2];
            line = line.trim();
            count = count.map(|c| c + 1);
            fill = fill.map(|f| f + 1);
            buf.len() + line.len() + count.unwrap_or(0) as usize + fill.unwrap_or(0) as usize
        }
        fn mb_out(&mut self, mut out: &mut [u64], mut n: u64) -> u64 {
            n += out.len() as u64;
            out = &mut out[..0];
            n + out.len() as u64
        }
    }
    #[cglue_trait]
    pub trait TCi {
        fn ci_count(&self) -> usize;
        #[custom_impl({ idx: usize, }, Option<u64>, { let idx: usize = idx.into(); }, { }, { },)]
        fn ci_slot<T: Into<usize>>(&self, idx: T) -> Option<u64>;
        #[custom_impl({ idx: usize, }, Result<u32, u8>, { let idx: usize = idx.into(); }, { }, { },)]
        fn ci_checked<T: Into<usize>>(&self, idx: T) -> Result<u32, u8>;
        #[custom_impl({ idx: usize, }, &str, { let idx: usize = idx.into(); }, { }, { },)]
        fn ci_label<T: Into<usize>>(&self, idx: T) -> &str;
        #[custom_impl({ idx: usize, }, &[u8], { let idx: usize = idx.into(); }, { }, { },)]
        fn ci_bytes<T: Into<usize>>(&self, idx: T) -> &[u8];
    }
}
pub mod xs {
    #![allow(unused_variables, unused_mut, clippy::all)]
    use h_objbase::support::*;
    use cglue::*;
    #[cglue_trait]
    pub trait TS: Send {
        fn s(&self, a: u64) -> u64;
        unsafe fn u(&self, a: u64) -> u64;
        extern "C" fn e(&self, a: u64) -> u64;
        unsafe extern "C" fn ue(&mut self, a: u64) -> u64;
        #[skip_func]
        fn skipped(&self) -> u64 {
            5
        }
    }
    impl TS for Imp {
        fn s(&self, a: u64) -> u64 {
            self.enter(9121, a);
            a ^ 1
        }
        unsafe fn u(&self, a: u64) -> u64 {
            self.enter(9122, a);
            a ^ 2
        }
        extern "C" fn e(&self, a: u64) -> u64 {
            self.enter(9123, a);
            a ^ 3
        }
        unsafe extern "C" fn ue(&mut self, a: u64) -> u64 {
            self.enter(9124, a);
            self.acc ^= a;
            self.acc
        }
    }
    pub fn call<T: TS + Unpin>(t: &mut Option<T>, action: usize, sel: u64) -> Obs {
        ptr_reset();
        set_sel(sel);
        let ret = match action {
            0 => t.as_ref().unwrap().s(7),
            1 => unsafe { t.as_ref().unwrap().u(7) },
            2 => t.as_ref().unwrap().e(7),
            3 => unsafe { t.as_mut().unwrap().ue(7) },
            4 => t.as_ref().unwrap().skipped(),
            _ => unreachable!(),
        };
        Obs { ret, post: 0, ptr_ok: ptr_ok() }
    }
    pub const ACTIONS: &[(bool, u64)] = &[(false, 1), (false, 1), (false, 1), (false, 1), (false, 1)];
    pub const DESC: &str = "supertrait Send; unsafe, extern \\"C\\" and unsafe extern \\"C\\" methods; a #[skip_func] method";
}
pub mod xf {
    #![allow(unused_variables, unused_mut, clippy::all)]
    use h_objbase::support::*;
    use cglue::*;
    pub use ::core::fmt::Debug;
    pub fn call<T: ::core::fmt::Debug + Unpin>(t: &mut Option<T>, action: usize, sel: u64) -> Obs {
        ptr_reset();
        set_sel(sel);
        let o = t.as_ref().unwrap();
        // only the plain form: the library implements `fmt` of its built-in ext traits with a custom_impl that re-formats
        // with a fixed "{:?}" on the other side, so formatter flags (alternate, width, precision) are not forwarded — a
        // custom implementation, which the property excludes
        let s = match action {
            0 => format!("{:?}", o),
            1 => format!("<{:?}>{:?}", o, o),
            // into a sink that takes 3 / 40 / 300 bytes and rejects the piece that does not fit: the pieces arrive one by one, in
            // order, and formatting stops at the first rejected piece
            2 | 3 | 4 => {
                use ::core::fmt::Write;
                let mut sink = LimitedSink::new([3usize, 40, 300][action - 2]);
                let r = write!(sink, "{:?}", o);
                return Obs { ret: sink.outcome(r), post: 0, ptr_ok: true };
            }
            _ => unreachable!(),
        };
        Obs { ret: digest(&s), post: 0, ptr_ok: true }
    }
    pub const ACTIONS: &[(bool, u64)] = &[(false, 4), (false, 4), (false, 4), (false, 4), (false, 4)];
    pub const DESC: &str = "built-in ext trait core::fmt::Debug (plain formatting; output in one piece and in pieces of 1..4096 bytes; into a String and into sinks of limited capacity)";
}
pub mod xp {
    #![allow(unused_variables, unused_mut, clippy::all)]
    use h_objbase::support::*;
    use cglue::*;
    pub use ::core::fmt::Display;
    pub fn call<T: ::core::fmt::Display + Unpin>(t: &mut Option<T>, action: usize, sel: u64) -> Obs {
        ptr_reset();
        set_sel(sel);
        let o = t.as_ref().unwrap();
        let s = match action {
            0 => format!("{}", o),
            1 => format!("<{}>{}", o, o),
            // into a sink that takes 3 / 40 / 300 bytes and rejects the piece that does not fit: the pieces arrive one by one, in
            // order, and formatting stops at the first rejected piece
            2 | 3 | 4 => {
                use ::core::fmt::Write;
                let mut sink = LimitedSink::new([3usize, 40, 300][action - 2]);
                let r = write!(sink, "{}", o);
                return Obs { ret: sink.outcome(r), post: 0, ptr_ok: true };
            }
            _ => unreachable!(),
        };
        Obs { ret: digest(&s), post: 0, ptr_ok: true }
    }
    pub const ACTIONS: &[(bool, u64)] = &[(false, 4), (false, 4), (false, 4), (false, 4), (false, 4)];
    pub const DESC: &str = "built-in ext trait core::fmt::Display (plain formatting; output in one piece and in pieces of 1..4096 bytes; into a String and into sinks of limited capacity)";
}
"""


HAND_O = """
/// hand-written structure member: layout of a single-trait object whose context AND temporary storage are not zero-sized
pub mod xo {
    #![allow(unused_variables, unused_mut, clippy::all)]
    use h_objbase::support::*;
    use cglue::*;
    #[cglue_trait]
    pub trait Inner {
        fn iv(&self) -> u64;
    }
    #[cglue_trait]
    pub trait Outer {
        #[wrap_with_obj_ref(Inner)]
        type Kid: Inner + 'static;
        fn kid(&self) -> &Self::Kid;
        fn ov(&self) -> u64;
    }
    pub struct KidImp(pub u64);
    impl Inner for KidImp {
        fn iv(&self) -> u64 {
            self.0
        }
    }
    #[repr(C)]
    pub struct OuterImp {
        pub id: u64,
        pub kid: KidImp,
    }
    impl Outer for OuterImp {
        type Kid = KidImp;
        fn kid(&self) -> &KidImp {
            &self.kid
        }
        fn ov(&self) -> u64 {
            self.id
        }
    }
    pub const DESC: &str = "single-trait object with a CArc context and non-empty temporary return storage: {vtable, instance, context, temporary storage}";
    pub fn raw_check() -> Result<u64, (String, String)> {
        let arc = ::std::sync::Arc::new(5u64);
        let ctx = cglue::arc::CArc::<u64>::from(arc.clone());
        let obj = trait_obj!((OuterImp { id: 77, kid: KidImp(78) }, ctx) as Outer);
        if obj.ov() != 77 || obj.kid().iv() != 78 {
            return Err(("objlayout:dispatch".into(), "object does not dispatch".into()));
        }
        let words = words_of(&obj);
        // vtable pointer, CBox {instance, drop_fn}, CArc {instance, clone_fn, drop_fn}, then the temporary storage
        if words.len() < 7 {
            return Err(("objlayout:size".into(), format!("object is {} words, expected at least 7", words.len())));
        }
        let first_entry: u64 = unsafe {
            let f: extern "C" fn(*const ::core::ffi::c_void) -> u64 = ::core::mem::transmute(*((words[0] as *const usize).add(1)));
            f((&obj as *const _ as *const usize).add(1) as *const ::core::ffi::c_void)
        };
        if first_entry != 77 {
            return Err(("objlayout:vtbl".into(), "word 0 is not the vtable / the container does not start at word 1".into()));
        }
        if words[1] == 0 || unsafe { *(words[1] as *const u64) } != 77 || words[2] == 0 {
            return Err(("objlayout:instance".into(), "words 1-2 are not the CBox {instance, drop_fn}".into()));
        }
        if words[3] != ::std::sync::Arc::as_ptr(&arc) as usize || words[4] == 0 || words[5] == 0 {
            return Err(("objlayout:context".into(), format!("words 3-5 are not the context {{instance, clone_fn, drop_fn}}: the container must be instance, context, temporary storage (word 3 = {:#x}, arc = {:#x})", words[3], ::std::sync::Arc::as_ptr(&arc) as usize)));
        }
        Ok(digest(&words.len()))
    }
}

/// hand-written member: raw vtable entries of methods that use integer results, driven the way a C caller does (one output
/// slot re-used over several calls): Ok fills the slot once, Err leaves every byte of it alone - for a plain payload, a payload
/// with a destructor and a wrapped associated-type payload (a CGlue object)
pub mod xi {
    #![allow(unused_variables, unused_mut, clippy::all)]
    use h_objbase::support::*;
    use cglue::*;
    use cglue::trait_group::{GetContainer, GetVtblBase};
    use ::core::mem::MaybeUninit;
    #[cglue_trait]
    pub trait InnerI {
        fn iv(&self) -> u64;
    }
    pub struct KidI {
        pub dc: instr::Dc,
    }
    impl InnerI for KidI {
        fn iv(&self) -> u64 {
            self.dc.val
        }
    }
    #[cglue_trait]
    #[int_result]
    pub trait Fact {
        #[wrap_with_obj(InnerI)]
        type Out: InnerI + 'static;
        fn make(&self, id: u64) -> Result<Self::Out, ()>;
        fn count(&self, id: u64) -> Result<u64, ()>;
        fn mk_dc(&self, id: u64) -> Result<instr::Dc, ()>;
    }
    pub struct FactImp;
    impl Fact for FactImp {
        type Out = KidI;
        fn make(&self, id: u64) -> Result<KidI, ()> {
            if id < 10 { Ok(KidI { dc: instr::Dc::new(id) }) } else { Err(()) }
        }
        fn count(&self, id: u64) -> Result<u64, ()> {
            if id < 10 { Ok(id + 1) } else { Err(()) }
        }
        fn mk_dc(&self, id: u64) -> Result<instr::Dc, ()> {
            if id < 10 { Ok(instr::Dc::new(id)) } else { Err(()) }
        }
    }
    fn poison<T>(s: &mut MaybeUninit<T>) {
        unsafe { ::core::ptr::write_bytes(s.as_mut_ptr() as *mut u8, 0xA5, ::core::mem::size_of::<T>()) }
    }
    fn bytes<T>(s: &MaybeUninit<T>) -> Vec<u8> {
        unsafe { ::core::slice::from_raw_parts(s.as_ptr() as *const u8, ::core::mem::size_of::<T>()) }.to_vec()
    }
    pub const DESC: &str = "int_result entries called raw with a re-used output slot: plain, droppable and wrapped-object payloads (Err, Ok, Err on one slot)";
    macro_rules! drive {
        ($what:expr, $f:expr, $cont:expr, $slot:expr) => {{
            poison(&mut $slot);
            let fresh = bytes(&$slot);
            let c = unsafe { $f($cont, 35, &mut $slot) };
            if c == 0 { return Err(("intres:err_code_zero".into(), format!("{}: the Err path returned code 0", $what))); }
            if bytes(&$slot) != fresh { return Err(("intres:slot_written_on_err".into(), format!("{}: a failed call wrote to the caller's (never initialised) output slot", $what))); }
            let c = unsafe { $f($cont, 7, &mut $slot) };
            if c != 0 { return Err(("intres:ok_code_nonzero".into(), format!("{}: the Ok path returned code {}", $what, c))); }
            let filled = bytes(&$slot);
            let c = unsafe { $f($cont, 36, &mut $slot) };
            if c == 0 { return Err(("intres:err_code_zero".into(), format!("{}: the Err path returned code 0", $what))); }
            if bytes(&$slot) != filled { return Err(("intres:slot_written_on_err".into(), format!("{}: a failed call modified the value a previous successful call left in the caller's output slot", $what))); }
        }};
    }
    pub fn raw_check() -> Result<u64, (String, String)> {
        let drops = instr::DropScope::new();
        let obj = trait_obj!(FactImp as Fact);
        // the produced handles are dropped before `obj`; the reborrow only detaches the lifetimes for the raw calls
        let objr: &'static FactBox<'static> = unsafe { &*(&obj as *const _ as *const FactBox<'static>) };
        let cont = objr.ccont_ref();
        let vt = objr.get_vtbl_base();
        let mut acc = 0u64;
        {
            let f = vt.count();
            let mut slot = MaybeUninit::<u64>::uninit();
            drive!("plain u64 payload", f, cont, slot);
            let v = unsafe { slot.assume_init() };
            if v != 8 { return Err(("intres:ok_value".into(), format!("plain payload: slot holds {} after Ok(8)", v))); }
            acc ^= v;
        }
        {
            let f = vt.mk_dc();
            let mut slot = MaybeUninit::<instr::Dc>::uninit();
            drive!("payload with a destructor", f, cont, slot);
            let v = unsafe { slot.assume_init() };
            let id = v.id;
            if v.val != 7 { return Err(("intres:ok_value".into(), format!("droppable payload: slot holds {} after Ok(7)", v.val))); }
            if drops.count(id) != 0 { return Err(("intres:ok_value_dropped".into(), "droppable payload: the success value was dropped although the caller owns it".into())); }
            drop(v);
            if drops.count(id) != 1 { return Err(("intres:ok_value_drops".into(), format!("droppable payload dropped {} times", drops.count(id)))); }
            acc ^= 7;
        }
        {
            let f = vt.make();
            let mut slot = MaybeUninit::uninit();
            drive!("wrapped associated-type payload (CGlue object)", f, cont, slot);
            let h = unsafe { slot.assume_init() };
            if h.iv() != 7 { return Err(("intres:ok_value".into(), format!("wrapped payload: the object in the slot answers {} instead of 7", h.iv()))); }
            drop(h);
            let bad = drops.not_equal(1);
            if !bad.is_empty() { return Err(("intres:ok_value_drops".into(), format!("payloads {:?} were not dropped exactly once", bad))); }
            acc ^= 70;
        }
        if instr::drops::bogus_drops() != 0 { return Err(("int:slot_read_on_err".into(), "a value was fabricated from an untouched slot and dropped".into())); }
        drop(obj);
        Ok(digest(&acc))
    }
}

/// hand-written member: the CALLER side of integer results when the vtable belongs to a foreign implementor - every
/// non-zero status must come back as Err (built-in Display object and a trait-level int_result trait), for a set of codes
pub mod xj {
    #![allow(unused_variables, unused_mut, clippy::all)]
    use h_objbase::support::*;
    use cglue::*;
    use ::core::ffi::c_void;
    use ::core::fmt::Write;
    use ::std::sync::atomic::{AtomicI32, Ordering::SeqCst};
    static CODE: AtomicI32 = AtomicI32::new(0);
    #[repr(C)]
    struct ForeignDisplayVtbl {
        fmt: unsafe extern "C" fn(*const c_void, *mut c_void) -> i32,
    }
    unsafe extern "C" fn foreign_fmt(_: *const c_void, _: *mut c_void) -> i32 {
        CODE.load(SeqCst)
    }
    static DISPLAY_VT: ForeignDisplayVtbl = ForeignDisplayVtbl { fmt: foreign_fmt };
    #[cglue_trait]
    #[int_result]
    pub trait Cnt {
        fn count(&self, id: u64) -> Result<u64, ()>;
        fn touch(&self, id: u64) -> Result<(), ()>;
    }
    pub struct CntImp;
    impl Cnt for CntImp {
        fn count(&self, id: u64) -> Result<u64, ()> {
            Ok(id)
        }
        fn touch(&self, id: u64) -> Result<(), ()> {
            Ok(())
        }
    }
    #[repr(C)]
    struct ForeignCntVtbl {
        count: unsafe extern "C" fn(*const c_void, u64, *mut u64) -> i32,
        touch: unsafe extern "C" fn(*const c_void, u64) -> i32,
    }
    unsafe extern "C" fn foreign_count(_: *const c_void, id: u64, out: *mut u64) -> i32 {
        let c = CODE.load(SeqCst);
        if c == 0 {
            *out = id + 100;
        }
        c
    }
    unsafe extern "C" fn foreign_touch(_: *const c_void, _id: u64) -> i32 {
        CODE.load(SeqCst)
    }
    static CNT_VT: ForeignCntVtbl = ForeignCntVtbl { count: foreign_count, touch: foreign_touch };
    pub const DESC: &str = "int_result decoding on the caller side against a foreign vtable: status 0 is Ok, every non-zero status (1, 2, -1, 0xffff, i32::MIN, i32::MAX) is Err; built-in Display and a trait-level int_result trait";
    pub fn raw_check() -> Result<u64, (String, String)> {
        let mut acc = 0u64;
        for code in [0i32, 1, 2, -1, 0xffff, 22, -22, i32::MIN, i32::MAX] {
            CODE.store(code, SeqCst);
            {
                let v = 42usize;
                let mut obj = trait_obj!(v as Display);
                // the object is #[repr(C)] { vtable pointer, container }: what a non-Rust implementor hands over
                unsafe { *(&mut obj as *mut _ as *mut *const ForeignDisplayVtbl) = &DISPLAY_VT };
                let mut out = String::new();
                let r = write!(out, "{}", obj);
                if r.is_ok() != (code == 0) {
                    return Err(("intres:foreign_status_decoded".into(), format!("built-in Display object with a foreign vtable: fmt returned status {}, the caller side decoded {:?}", code, r)));
                }
            }
            {
                let mut obj = trait_obj!(CntImp as Cnt);
                unsafe { *(&mut obj as *mut _ as *mut *const ForeignCntVtbl) = &CNT_VT };
                let r = obj.count(5);
                let want = if code == 0 { Ok(105) } else { Err(()) };
                if r != want {
                    return Err(("intres:foreign_status_decoded".into(), format!("int_result method with a payload against a foreign vtable: status {} decoded as {:?}, expected {:?}", code, r.map(|_| "Ok(..)"), want.map(|_| "Ok(105)"))));
                }
                let r = obj.touch(5);
                if r.is_ok() != (code == 0) {
                    return Err(("intres:foreign_status_decoded".into(), format!("int_result method without payload against a foreign vtable: status {} decoded as {:?}", code, r)));
                }
            }
            acc = acc.wrapping_mul(31).wrapping_add(code as u32 as u64);
        }
        Ok(digest(&acc))
    }
}

/// hand-written structure member: traits that export NO method (a marker trait; a trait whose methods are all skipped, generic
/// with a default body or without a receiver): the vtable is a C structure holding exactly zero function pointers
pub mod xm {
    #![allow(unused_variables, unused_mut, dead_code, clippy::all)]
    use h_objbase::support::*;
    use cglue::*;
    use cglue::trait_group::GetVtblBase;
    #[cglue_trait]
    pub trait Marker {}
    #[cglue_trait]
    pub trait NothingExported {
        #[skip_func]
        fn helper(&self) -> usize {
            7
        }
        fn visit<F: FnMut(usize)>(&self, mut f: F) {
            f(self.helper())
        }
        fn describe() -> &'static str
        where
            Self: Sized,
        {
            "nothing"
        }
    }
    #[cglue_trait]
    pub trait OneM {
        fn one(&self) -> usize;
    }
    pub struct MImp(pub usize);
    impl Marker for MImp {}
    impl NothingExported for MImp {}
    impl OneM for MImp {
        fn one(&self) -> usize {
            self.0
        }
    }
    cglue_trait_group!(TaggedM, OneM, { Marker, NothingExported });
    cglue_impl_group!(MImp, TaggedM, { Marker });
    pub const DESC: &str = "traits without exported methods (marker; only skipped / generic / receiver-less methods): vtable size 0, objects and groups built from them";
    pub fn raw_check() -> Result<u64, (String, String)> {
        let marker = trait_obj!(MImp(0) as Marker);
        let nothing = trait_obj!(MImp(0) as NothingExported);
        let one = trait_obj!(MImp(3) as OneM);
        let sizes = [
            ("Marker", ::core::mem::size_of_val(marker.get_vtbl_base()), 0usize),
            ("NothingExported", ::core::mem::size_of_val(nothing.get_vtbl_base()), 0),
            ("OneM", ::core::mem::size_of_val(one.get_vtbl_base()), ::core::mem::size_of::<usize>()),
        ];
        for (name, got, want) in sizes {
            if got != want {
                return Err(("vtable:size".into(), format!("vtable of {} is {} bytes, expected {} (one function pointer per exported method and nothing else)", name, got, want)));
            }
        }
        if nothing.helper() != 7 || one.one() != 3 {
            return Err(("objlayout:dispatch".into(), "objects of traits without exported methods do not work".into()));
        }
        let g = group_obj!(MImp(5) as TaggedM);
        if g.one() != 5 || as_ref!(g impl Marker).is_none() || as_ref!(g impl NothingExported).is_some() {
            return Err(("objlayout:dispatch".into(), "group with method-less optional traits: wrong dispatch / cast decision".into()));
        }
        // the opaque object is {vtable pointer, CBox {instance, drop_fn}}
        let words = ::core::mem::size_of_val(&marker) / ::core::mem::size_of::<usize>();
        if words != 3 {
            return Err(("objlayout:size".into(), format!("object of a marker trait is {} words, expected 3", words)));
        }
        Ok(digest(&(sizes[0].1, sizes[1].1, sizes[2].1)))
    }
}

/// hand-written member: ALL nine built-in formatting traits (`::ext::core::fmt::*`), each implemented with its own output, through
/// a group and through single-trait objects; also an implementor that fails by itself (`Err(fmt::Error)` after part of the
/// output, the sink being healthy)
pub mod xq {
    #![allow(unused_variables, unused_mut, dead_code, clippy::all)]
    use h_objbase::support::*;
    use cglue::*;
    use ::core::fmt;
    use ::core::fmt::Write as _;
    pub struct Q {
        pub id: u64,
        pub fail: bool,
    }
    macro_rules! q_impl {
        ($($T:ident $tag:expr),*) => {$(
            impl fmt::$T for Q {
                fn fmt(&self, f: &mut fmt::Formatter) -> fmt::Result {
                    f.write_str($tag)?;
                    write!(f, "-{}", self.id)?;
                    if self.fail {
                        return Err(fmt::Error);
                    }
                    f.write_str("-tail")
                }
            }
        )*};
    }
    q_impl!(Display "dsp", Debug "dbg", Octal "oct", LowerHex "lhx", UpperHex "uhx", Pointer "ptr", Binary "bin", LowerExp "lex", UpperExp "uex");
    #[cglue_trait]
    pub trait QBase {
        fn qid(&self) -> u64;
    }
    impl QBase for Q {
        fn qid(&self) -> u64 {
            self.id
        }
    }
    cglue_trait_group!(Gq, {
        QBase,
        ::ext::core::fmt::Display,
        ::ext::core::fmt::Debug,
        ::ext::core::fmt::Octal,
        ::ext::core::fmt::LowerHex,
        ::ext::core::fmt::UpperHex,
        ::ext::core::fmt::Pointer,
        ::ext::core::fmt::Binary,
        ::ext::core::fmt::LowerExp,
        ::ext::core::fmt::UpperExp
    }, {});
    cglue_impl_group!(Q, Gq, {});
    pub const NAMES: [&str; 9] = ["Display", "Debug", "Octal", "LowerHex", "UpperHex", "Pointer", "Binary", "LowerExp", "UpperExp"];
    fn all<T>(t: &T) -> Vec<(bool, String)>
    where
        T: fmt::Display + fmt::Debug + fmt::Octal + fmt::LowerHex + fmt::UpperHex + fmt::Pointer + fmt::Binary + fmt::LowerExp + fmt::UpperExp,
    {
        let mut v = Vec::new();
        macro_rules! one {
            ($spec:expr) => {{
                let mut s = String::new();
                let r = write!(s, $spec, *t);
                v.push((r.is_ok(), s));
            }};
        }
        one!("{}");
        one!("{:?}");
        one!("{:o}");
        one!("{:x}");
        one!("{:X}");
        one!("{:p}");
        one!("{:b}");
        one!("{:e}");
        one!("{:E}");
        v
    }
    /// a sink for which every single call matters: it records each piece (also empty ones) and refuses the `fail_at`-th call
    pub struct Rec {
        pub pieces: Vec<String>,
        pub fail_at: Option<usize>,
        pub calls: usize,
    }
    impl fmt::Write for Rec {
        fn write_str(&mut self, s: &str) -> fmt::Result {
            self.calls += 1;
            if Some(self.calls) == self.fail_at {
                return Err(fmt::Error);
            }
            self.pieces.push(s.to_string());
            Ok(())
        }
    }
    const SCRIPT: [&str; 7] = ["ab", "", "c", "", "", "\\u{e9}x", ""];
    fn script<W: fmt::Write>(w: &mut W) -> Vec<bool> {
        SCRIPT.iter().map(|p| w.write_str(p).is_ok()).collect()
    }
    fn write_objects() -> Result<u64, (String, String)> {
        use cglue::ext::core::fmt::{WriteBaseBox, WriteBaseMut, WriteBox, WriteMut};
        use cglue::trait_group::Opaquable;
        let mut all = Vec::new();
        for fail_at in [None, Some(1usize), Some(2), Some(4), Some(7)] {
            let mut direct = Rec { pieces: Vec::new(), fail_at, calls: 0 };
            let want_res = script(&mut direct);
            let mut sink = Rec { pieces: Vec::new(), fail_at, calls: 0 };
            let got_res = {
                let base: WriteBaseMut<Rec> = From::from(&mut sink);
                let mut obj: WriteMut = base.into_opaque();
                script(&mut obj)
            };
            if got_res != want_res || sink.pieces != direct.pieces || sink.calls != direct.calls {
                return Err(("obj:fmt_ext:Write".into(), format!(
                    "write_str of {:?} through a by-reference built-in Write object over a sink that refuses call {:?}: results {:?}, pieces {:?}, {} calls; directly: results {:?}, pieces {:?}, {} calls",
                    SCRIPT, fail_at, got_res, sink.pieces, sink.calls, want_res, direct.pieces, direct.calls)));
            }
            let base: WriteBaseBox<Rec> = From::from(Rec { pieces: Vec::new(), fail_at, calls: 0 });
            let mut obj: WriteBox = base.into_opaque();
            let boxed_res = script(&mut obj);
            if boxed_res != want_res {
                return Err(("obj:fmt_ext:Write".into(), format!("write_str through a boxed built-in Write object (sink refuses call {:?}): results {:?}, directly {:?}", fail_at, boxed_res, want_res)));
            }
            all.push((want_res, direct.pieces));
        }
        Ok(digest(&all))
    }
    pub const DESC: &str = "[C01] built-in ext traits core::fmt::{Display, Debug, Octal, LowerHex, UpperHex, Pointer, Binary, LowerExp, UpperExp}: every one reaches the implementor's own fmt, also when that fails by itself; built-in Write objects: every write_str call (also of an empty string) reaches the sink once";
    pub fn raw_check() -> Result<u64, (String, String)> {
        let wd = write_objects()?;
        let mut acc = Vec::new();
        for fail in [false, true] {
            let want = all(&Q { id: 41, fail });
            let boxed = group_obj!(Q { id: 41, fail } as Gq);
            if boxed.qid() != 41 {
                return Err(("obj:fmt_ext:dispatch".into(), "group does not dispatch".into()));
            }
            let arc = ::std::sync::Arc::new(());
            let with_ctx = group_obj!((Q { id: 41, fail }, cglue::arc::CArc::<()>::from(arc.clone())) as Gq);
            for (how, got) in [("Box", all(&boxed)), ("ArcBox", all(&with_ctx))] {
                for i in 0..9 {
                    if got[i] != want[i] {
                        return Err((format!("obj:fmt_ext:{}", NAMES[i]), format!(
                            "{} of a {} group over an implementor that {}: direct formatting gives {:?} (ok = {}), through the object {:?} (ok = {})",
                            NAMES[i], how, if fail { "fails by itself after part of its output" } else { "succeeds" }, want[i].1, want[i].0, got[i].1, got[i].0)));
                    }
                }
            }
            acc.push(want);
        }
        Ok(digest(&(acc, wd)))
    }
}

/// hand-written structure member: several temporary-storage slots of mixed receiver kind; the temporary storage keeps the
/// methods' declaration order (a `&mut self` method declared before two `&self` methods)
pub mod xo2 {
    #![allow(unused_variables, unused_mut, clippy::all)]
    use h_objbase::support::*;
    use cglue::*;
    #[cglue_trait]
    pub trait Inner2 {
        fn iv(&self) -> u64;
    }
    #[cglue_trait]
    pub trait Outer2 {
        #[wrap_with_obj_mut(Inner2)]
        type KidM: Inner2 + 'static;
        #[wrap_with_obj_ref(Inner2)]
        type KidA: Inner2 + 'static;
        #[wrap_with_obj_ref(Inner2)]
        type KidB: Inner2 + 'static;
        fn kid_m(&mut self) -> &mut Self::KidM;
        fn kid_a(&self) -> &Self::KidA;
        fn kid_b(&self) -> &Self::KidB;
    }
    pub struct K(pub u64);
    impl Inner2 for K {
        fn iv(&self) -> u64 {
            self.0
        }
    }
    pub struct O2 {
        pub m: K,
        pub a: K,
        pub b: K,
    }
    impl Outer2 for O2 {
        type KidM = K;
        type KidA = K;
        type KidB = K;
        fn kid_m(&mut self) -> &mut K {
            &mut self.m
        }
        fn kid_a(&self) -> &K {
            &self.a
        }
        fn kid_b(&self) -> &K {
            &self.b
        }
    }
    pub const DESC: &str = "single-trait object with three temporary-storage slots (&mut self method declared first, then two &self methods): slots in declaration order";
    pub fn raw_check() -> Result<u64, (String, String)> {
        let mut obj = trait_obj!(O2 { m: K(1), a: K(2), b: K(3) } as Outer2);
        let base = &obj as *const _ as usize;
        let size = ::core::mem::size_of_val(&obj);
        // the wrapped references handed out live in the object's temporary storage: their addresses are the slots
        let om = { let r = obj.kid_m(); if r.iv() != 1 { return Err(("objlayout:dispatch".into(), "kid_m reaches another child".into())); } r as *mut _ as *mut u8 as usize - base };
        let oa = { let r = obj.kid_a(); if r.iv() != 2 { return Err(("objlayout:dispatch".into(), "kid_a reaches another child".into())); } r as *const _ as *const u8 as usize - base };
        let ob = { let r = obj.kid_b(); if r.iv() != 3 { return Err(("objlayout:dispatch".into(), "kid_b reaches another child".into())); } r as *const _ as *const u8 as usize - base };
        if om >= size || oa >= size || ob >= size {
            return Err(("objlayout:tmp_outside".into(), format!("wrapped references are not inside the object's temporary storage (offsets {}, {}, {}; object {} bytes)", om, oa, ob, size)));
        }
        // vtable pointer + CBox (3 words) come first
        if !(24 <= om && om < oa && oa < ob) {
            return Err(("objlayout:tmp_order".into(), format!("temporary-storage slots of kid_m, kid_a, kid_b sit at offsets {}, {}, {}: not in the methods' declaration order after the instance", om, oa, ob)));
        }
        Ok(digest(&(om, oa, ob, size)))
    }
}
"""

NSHARD = 8

SHARD_TOML = """[package]
name = "%s"
version = "0.1.0"
edition = "2021"

[dependencies]
cglue = { path = "/repo/cglue" }
h_objbase = { path = "../../../h_objbase" }
instr = { path = "../../../instr" }
explore = { path = "../../../explore" }
"""


def write_if_changed(path, text):
    os.makedirs(os.path.dirname(path), exist_ok=True)
    if not os.path.exists(path) or open(path).read() != text:
        with open(path, "w") as f:
            f.write(text)


def main():
    tier, out_dir = sys.argv[1], sys.argv[2]
    traits = build(tier)
    shards = [[] for _ in range(NSHARD)]
    for t in traits:
        shards[t.idx % NSHARD].append(t)
    meta = []
    for k, ts in enumerate(shards):
        name = "hs_%s%d" % (tier[0], k)
        chunks = []
        for t in ts:
            src, acts = emit_trait(t)
            chunks.append(src)
            meta.append(dict(idx=t.idx, name=t.name, tag=t.tag, kind=t.kind(), actions=len(acts), shard=k))
        reg = ["pub fn all() -> Vec<TraitCase> {", "    let mut v: Vec<TraitCase> = Vec::new();"]
        for t in ts:
            reg.append("    v.push(h_objbase::case_%s!(%s, %s, %d));" % (t.kind(), t.mod, t.name, t.idx))
        if k == 1:
            chunks.append(HAND_X)
            reg.append("    v.push(h_objbase::case_mut!(xg, TG, 900010));")
            reg.append("    v.push(h_objbase::case_ref!(xl, TL, 900011));")
            reg.append("    v.push(h_objbase::case_mut!(xs, TS, 900012));")
            reg.append("    v.push(h_objbase::case_mut!(xa, TA, 900015));")
            # by-reference containers are ambiguous for the fmt traits (`&T: Debug` as well): owned containers only
            reg.append("    v.push(h_objbase::case_own!(xf, Debug, 900013));")
            reg.append("    v.push(h_objbase::case_own!(xp, Display, 900014));")
        reg.append("    v")
        reg.append("}")
        reg.append("pub fn raw_checks() -> Vec<(usize, &'static str, fn() -> Result<u64, (String, String)>)> {")
        reg.append("    vec![")
        for t in ts:
            reg.append("        (%d, %s::DESC, %s::raw_check as fn() -> Result<u64, (String, String)>)," % (t.idx, t.mod, t.mod))
        if k == 0:
            reg.append("        (900001, tv::DESC, tv::raw_check as fn() -> Result<u64, (String, String)>),")
            chunks.append(HAND_TV)
        if k == 2:
            reg.append("        (900002, xo::DESC, xo::raw_check as fn() -> Result<u64, (String, String)>),")
            reg.append("        (900003, xo2::DESC, xo2::raw_check as fn() -> Result<u64, (String, String)>),")
            reg.append("        (900004, xi::DESC, xi::raw_check as fn() -> Result<u64, (String, String)>),")
            reg.append("        (900005, xj::DESC, xj::raw_check as fn() -> Result<u64, (String, String)>),")
            reg.append("        (900006, xm::DESC, xm::raw_check as fn() -> Result<u64, (String, String)>),")
            reg.append("        (900007, xq::DESC, xq::raw_check as fn() -> Result<u64, (String, String)>),")
            chunks.append(HAND_O)
        reg.append("    ]")
        reg.append("}")
        text = "// @generated by gen/objects_gen.py (tier %s, shard %d) — do not edit\n// (cglue-gen hard-codes `crate::trait_group` for borrowed wrapped returns)\n#[allow(unused_imports)]\nuse cglue::trait_group;\nuse h_objbase::harness::TraitCase;\n" % (tier, k)
        text += "\n".join(chunks) + "\n" + "\n".join(reg) + "\n"
        write_if_changed(os.path.join(out_dir, name, "Cargo.toml"), SHARD_TOML % name)
        write_if_changed(os.path.join(out_dir, name, "src", "lib.rs"), text)
    write_if_changed(os.path.join(out_dir, "traits_%s.json" % tier), json.dumps(meta))
    print("generated %d traits in %d shards (%s)" % (len(traits), NSHARD, tier))


if __name__ == "__main__":
    main()
