"""Driving the REAL cglue-bindgen binary: build it from the repo's working tree, provide the stub `cbindgen`
(and stub `rustup` for `+nightly`) on a private PATH, run one case in a private directory.

Environment honoured: VERIF_REPO_DIR (default /repo) - location of the cglue repository to build the tool from.
Scratch: /verif/.build/bindgen/ (stub dir, per-case work dirs), /verif/.build/target-bindgen[-<hash>] (cargo target).
"""
import hashlib
import os
import shutil
import stat
import subprocess

STUB_SH = r"""#!/bin/sh
# stub standing in for `cbindgen` (or `rustup run nightly cbindgen`): logs argv, prints the synthesised header
# to stdout, or to the -o/--output file exactly like cbindgen would.
printf '%s\n' "$0" > "$BG_STUB_LOG"
for a in "$@"; do printf '%s\n' "$a" >> "$BG_STUB_LOG"; done
out=""
prev=""
for a in "$@"; do
  case "$prev" in -o|--output) out="$a";; esac
  prev="$a"
done
if [ -n "$out" ]; then cat "$BG_STUB_HEADER" > "$out"; else cat "$BG_STUB_HEADER"; fi
"""


def repo_dir():
    return os.environ.get("VERIF_REPO_DIR", "/repo")


def scratch(Ctx):
    d = os.path.join(Ctx.BUILD, "bindgen")
    os.makedirs(d, exist_ok=True)
    return d


def build_tool(Ctx):
    """cargo build -p cglue-bindgen from the repo's working tree (always: cargo decides whether anything changed)."""
    repo = repo_dir()
    if not os.path.isdir(os.path.join(repo, "cglue-bindgen")):
        raise Ctx.Machinery("no cglue-bindgen in %s" % repo)
    target = os.path.join(Ctx.BUILD, "target-bindgen")
    if os.path.realpath(repo) != "/repo":
        target += "-" + hashlib.sha1(os.path.realpath(repo).encode()).hexdigest()[:8]
    env = dict(os.environ)
    env.update({"CARGO_TARGET_DIR": target, "CARGO_NET_OFFLINE": "true"})
    p = subprocess.run(["cargo", "build", "--offline", "--release", "-p", "cglue-bindgen"], cwd=repo, env=env,
                       stdout=subprocess.PIPE, stderr=subprocess.STDOUT, text=True)
    exe = os.path.join(target, "release", "cglue-bindgen")
    if p.returncode != 0 or not os.path.exists(exe):
        Ctx.log(p.stdout[-4000:])
        raise Ctx.Machinery("cannot build cglue-bindgen from %s" % repo)
    return exe


def make_stub_dir(Ctx):
    d = os.path.join(scratch(Ctx), "stubbin")
    os.makedirs(d, exist_ok=True)
    for name in ("cbindgen", "rustup"):
        pth = os.path.join(d, name)
        tmp = pth + ".tmp%d" % os.getpid()
        with open(tmp, "w") as f:
            f.write(STUB_SH)
        os.chmod(tmp, os.stat(tmp).st_mode | stat.S_IXUSR | stat.S_IXGRP | stat.S_IXOTH)
        os.replace(tmp, pth)
    return d


def check_compilers(Ctx):
    for c in ("gcc", "g++"):
        if shutil.which(c) is None:
            raise Ctx.Machinery("%s not found" % c)


def config_toml(cfg):
    return "".join('%s = "%s"\n' % (k, cfg[k]) for k in ("default_container", "default_context", "function_prefix") if cfg.get(k) is not None)


# argument layouts for C18: how `-o/--output <path>` is spelled/placed among the arguments after `--`,
# and which of the tool's own options come before `--`.
ARG_LAYOUTS = ["output_last", "o_first", "output_middle", "o_last", "stdout", "long_config", "nightly", "dup_output"]


def build_argv(layout, cfg_path, out_path):
    """-> (argv after the executable, expected stub argv (without argv[0]), stub program name, output path or None)"""
    fwd = ["--config", "cbindgen.toml", "--crate", "demo_crate", "--lang", "c"]
    pre = []
    if cfg_path is not None:
        pre = ["--config" if layout == "long_config" else "-c", cfg_path]
    prog, expect = "cbindgen", list(fwd)
    post, out = None, out_path
    if layout in ("output_last", "long_config", "nightly"):
        post = fwd + ["--output", out_path]
    elif layout == "o_first":
        post = ["-o", out_path] + fwd
    elif layout == "output_middle":
        post = fwd[:2] + ["--output", out_path] + fwd[2:]
    elif layout == "o_last":
        post = fwd + ["-o", out_path]
    elif layout == "stdout":
        post, out = list(fwd), None
    elif layout == "dup_output":
        # cbindgen itself accepts only one output; the tool documents "the output path" - first one wins, none is forwarded
        post = ["-o", out_path] + fwd + ["--output", out_path + ".second"]
    else:
        raise ValueError(layout)
    if layout == "nightly":
        pre = ["+nightly"] + pre
        prog, expect = "rustup", ["run", "nightly", "cbindgen"] + fwd
    return pre + ["--"] + post, expect, prog, out


def run_tool(exe, stubdir, workdir, header_text, cfg, layout="output_last", timeout=60, stale=None):
    """Run the real binary once in a fresh process. cfg: dict or None (no -c option at all).
    -> dict(rc, stdout, stderr, output (processed header or None), stub_argv (list or None), stub_prog, expect_argv, out_file_exists)"""
    os.makedirs(workdir, exist_ok=True)
    hpath = os.path.join(workdir, "raw_header")
    with open(hpath, "w") as f:
        f.write(header_text)
    cfg_path = None
    if cfg is not None:
        cfg_path = os.path.join(workdir, "cglue.toml")
        with open(cfg_path, "w") as f:
            f.write(config_toml(cfg))
    out_path = os.path.join(workdir, "processed_header")
    for pth in (out_path, out_path + ".second"):
        if os.path.exists(pth):
            os.remove(pth)
    if stale is not None:
        # something (an earlier, longer header) is already at the output path: it must be replaced, not patched
        with open(out_path, "w") as f:
            f.write(stale)
    log = os.path.join(workdir, "stub_argv")
    if os.path.exists(log):
        os.remove(log)
    argv, expect, prog, out = build_argv(layout, cfg_path, out_path)
    env = dict(os.environ)
    env["PATH"] = stubdir + os.pathsep + env.get("PATH", "")
    env["BG_STUB_LOG"] = log
    env["BG_STUB_HEADER"] = hpath
    env.pop("RUST_LOG", None)
    try:
        p = subprocess.run([exe] + argv, cwd=workdir, env=env, stdout=subprocess.PIPE, stderr=subprocess.PIPE, timeout=timeout)
    except subprocess.TimeoutExpired as ex:
        # a tool that never finishes produces no header: reported as a failed run (callers turn rc != 0 into tool_failed:*)
        class _P:
            returncode = "timeout"
            stdout = ex.stdout or b""
            stderr = (ex.stderr or b"") + b"\ncglue-bindgen did not finish (no exit, no header at the output path): hung"
        p = _P()
    res = {"rc": p.returncode, "stdout": p.stdout.decode("utf-8", "replace"), "stderr": p.stderr.decode("utf-8", "replace"),
           "expect_argv": expect, "expect_prog": prog, "stub_argv": None, "stub_prog": None, "output": None,
           "out_expected_in_file": out is not None, "second_exists": os.path.exists(out_path + ".second")}
    if os.path.exists(log):
        with open(log) as f:
            lines = f.read().split("\n")[:-1]
        res["stub_prog"] = os.path.basename(lines[0]) if lines else None
        res["stub_argv"] = lines[1:]
    if out is not None:
        if os.path.exists(out_path):
            with open(out_path, encoding="utf-8", errors="replace") as f:
                res["output"] = f.read()
    else:
        res["output"] = res["stdout"]
    return res


def compile_check(lang, path, extra=(), timeout=120):
    """syntax-only acceptance of a header on its own. -> (ok, diagnostics text)"""
    if lang == "c":
        # implicit declarations are only warnings in gcc 12's C99 mode; a header that calls undeclared functions is not self-contained
        cmd = ["gcc", "-std=c99", "-fsyntax-only", "-Werror=implicit-function-declaration", "-Werror=implicit-int", "-x", "c", path]
    else:
        cmd = ["g++", "-std=c++11", "-fsyntax-only", "-x", "c++", path]
    p = subprocess.run(cmd + list(extra), stdout=subprocess.PIPE, stderr=subprocess.STDOUT, text=True, timeout=timeout)
    return p.returncode == 0, p.stdout


# ------------------------------------------------------------------------------------------------
# Signatures that are recorded as observations, never judged.
#
# The input headers are synthesised (no cbindgen offline). A failure is only reported as a violation
# when its cause can be confirmed from the tool's own source or from the headers published under
# /repo/examples independently of how cbindgen renders a construct. The causes below depend on details
# of cbindgen's *C++ template / type-alias* output (or on an argument kind outside the property's
# quantifier) that cannot be confirmed without the real cbindgen, so they are counted in the evidence
# (`unjudged_observations`) and excluded from the verdict. See DESIGN.md, C17/C18.
import re as _re

UNJUDGED = [
    (r":traitobj_spec_without_primary$", "C++: CGlueTraitObj specialisations without primary template in a group-only header (depends on which generic structs cbindgen emits)"),
    (r":rustmaybeuninit_undefined$", "C++: RustMaybeUninit used but not defined when the input has no MaybeUninit (depends on cbindgen's C++ rendering)"),
    (r":nocontext_incomplete_type$", "C++: NoContext only forward-declared (depends on how cbindgen renders `type NoContext = PhantomData<c_void>`)"),
    (r":default_container_without_default_context$", "C++: config with default_container only"),
    (r":default_context_falls_back_to_undeclared_nocontext$", "C++: config falls back to NoContext"),
    (r":fnptr_argument_misparsed$", "raw function-pointer arguments are outside the property's argument kinds (scalar/struct/slice/callback/pointer)"),
]


def split_judged(violations):
    """-> (judged [(sig, desc)], unjudged {sig: count})"""
    judged, unj = [], {}
    for s, d in violations:
        if any(_re.search(rx, s) for rx, _ in UNJUDGED):
            unj[s] = unj.get(s, 0) + 1
        else:
            judged.append((s, d))
    return judged, unj
