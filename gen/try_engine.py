#!/usr/bin/env python3
"""Run one python engine outside /verif/check (which stays untouched):

    try_engine.py <module> <PROP> [--tier quick|thorough] [--replay FILE] [--dump FILE] [--write-replays DIR]

Loads /verif/check as a module to get `Ctx`, calls <module>.run(prop, tier, replay, Ctx) and prints
the summary, the per-section counts and every violation record (signature, count, case).
"""
import importlib
import importlib.machinery
import importlib.util
import json
import os
import sys
import time

HERE = os.path.dirname(os.path.abspath(__file__))
sys.path.insert(0, HERE)


def load_check():
    path = os.path.join(os.path.dirname(HERE), "check")
    loader = importlib.machinery.SourceFileLoader("verif_check", path)
    spec = importlib.util.spec_from_loader("verif_check", loader)
    mod = importlib.util.module_from_spec(spec)
    loader.exec_module(mod)
    return mod


def main():
    a = sys.argv[1:]
    if len(a) < 2:
        print(__doc__)
        return 2
    module, prop = a[0], a[1]
    tier = a[a.index("--tier") + 1] if "--tier" in a else "quick"
    replay = a[a.index("--replay") + 1] if "--replay" in a else None
    chk = load_check()
    eng = importlib.import_module(module)
    t0 = time.time()
    try:
        kind, res = eng.run(prop, tier, replay, chk.Ctx)
    except chk.Machinery as e:
        print("MACHINERY FAILURE:", e)
        return 2
    wall = time.time() - t0
    if kind == "replay":
        print("replay rc=%s (1 = reproduced, 0 = no violation, 2 = flaky/machinery) wall=%.1fs" % (res, wall))
        return res
    c = res["coverage"]
    known = chk.Ctx.known_signatures(prop)
    print("[%s %s] evaluations=%s distinct_nontrivial=%s exhaustive=%s wall=%.1fs violations=%d" % (
        prop, tier, c["evaluations"], c["distinct_nontrivial"], c["exhaustive"], wall, len(res["violation_records"])))
    for s in c["sections"]:
        print("  section %-14s evaluations=%-5s nontrivial=%-5s distinct=%-5s exhaustive=%s" % (
            s["section"], s["evaluations"], s["nontrivial"], s["distinct_outcomes"], s["exhaustive"]))
    for v in sorted(res["violation_records"], key=lambda v: v["signature"]):
        print("  %s %s x%d case=%s" % ("KNOWN    " if v["signature"] in known else "VIOLATION", v["signature"], v.get("count", 1),
                                       json.dumps(v["case"])[:200]))
    if "--dump" in a:
        with open(a[a.index("--dump") + 1], "w") as f:
            json.dump(res, f, indent=1, sort_keys=True)
    if "--write-replays" in a:
        d = a[a.index("--write-replays") + 1]
        os.makedirs(d, exist_ok=True)
        for i, v in enumerate(res["violation_records"]):
            body = {"property": prop, "engine": module, "section": v.get("section"), "signature": v["signature"],
                    "desc": v.get("desc"), "case": v.get("case")}
            with open(os.path.join(d, "%s-%03d.json" % (prop, i)), "w") as f:
                json.dump(body, f, indent=1)
    try:
        ev = chk.merge_reports(prop, tier, res["level"], [res], wall)
        ev["violations"] = len(res["violation_records"])
        chk.validate(ev)
        print("  evidence shape validates against the schema")
    except chk.Machinery as e:
        print("  EVIDENCE INVALID:", e)
        return 2
    return 1 if any(v["signature"] not in known for v in res["violation_records"]) else 0


if __name__ == "__main__":
    sys.exit(main())
