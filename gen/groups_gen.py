#!/usr/bin/env python3
"""Group grammar for C08 (and the group half of C04): generated groups with n = 1..N optional traits,
all 2^n implementing types, all requested subsets, the five cast operations, Box/Mut/Ref containers.

usage: groups_gen.py <tier> <out_dir>     writes <out_dir>/g_groups_<tier>.rs
"""
import itertools
import os
import sys

OPT = ["Oa", "Ob", "Oc", "Od"]          # optional trait names (already in name order); &self methods only
MOPT = ["Pa", "Pb"]                      # optional traits that also have &mut self methods (no Ref container)
CODE = {"Gm": 1, "Oa": 2, "Ob": 3, "Oc": 4, "Od": 5, "TtUsize": 6, "TtU64": 7, "Hm": 1, "Pa": 8, "Pb": 9}
MUTABLE = {"Hm", "Pa", "Pb"}


def subsets(xs):
    for k in range(len(xs) + 1):
        for c in itertools.combinations(xs, k):
            yield list(c)


def meth(t):
    return t.lower()


def trait_defs():
    out = ["#[cglue_trait]\npub trait Gm {\n    fn gm(&self) -> u64;\n}"]
    for t in OPT:
        out.append("#[cglue_trait]\npub trait %s {\n    fn %s(&self) -> u64;\n}" % (t, meth(t)))
    for t in ["Hm"] + MOPT:
        out.append("#[cglue_trait]\npub trait %s {\n    fn %s(&self) -> u64;\n    fn %s_mut(&mut self, add: u64) -> u64;\n}" % (t, meth(t), meth(t)))
    out.append("#[cglue_trait]\npub trait Tt<T> {\n    fn tt(&self, v: T) -> u64;\n}")
    return "\n".join(out)


def imp_type(name):
    """A payload type implementing every trait; which ones a group sees is decided by cglue_impl_group!"""
    out = ["pub struct %s { pub id: u64, pub acc: u64, pub dc: DcHeap }" % name,
           "impl %s { pub fn new(id: u64) -> Self { %s { id, acc: 0, dc: DcHeap::new(id) } } }" % (name, name),
           "impl Gm for %s { fn gm(&self) -> u64 { self.id * 1000 + 1 + self.acc } }" % name]
    for t in OPT:
        out.append("impl %s for %s { fn %s(&self) -> u64 { self.id * 1000 + %d + self.acc } }" % (t, name, meth(t), CODE[t]))
    for t in ["Hm"] + MOPT:
        out.append("impl %s for %s { fn %s(&self) -> u64 { self.id * 1000 + %d + self.acc } fn %s_mut(&mut self, add: u64) -> u64 { self.acc += add * %d; self.id * 1000 + %d + self.acc } }" % (
            t, name, meth(t), CODE[t], meth(t), CODE[t], CODE[t]))
    out.append("impl Tt<usize> for %s { fn tt(&self, v: usize) -> u64 { self.id * 1000 + 6 + v as u64 } }" % name)
    out.append("impl Tt<u64> for %s { fn tt(&self, v: u64) -> u64 { self.id * 1000 + 7 + v } }" % name)
    return "\n".join(out)


def calls_on(var, traits, mutable, mand, kind):
    """statements checking that `var` dispatches to instance `id` for every listed trait.
    kind: 'ref' (var is &impl), 'mutref' (var is &mut impl), 'owned'"""
    st = []
    names = ([mand] if mand else []) + traits
    asref = {"ref": var, "mutref": "&*%s" % var, "owned": "&%s" % var}[kind]
    for t in names:
        if t in ("TtUsize", "TtU64"):
            ty = "usize" if t == "TtUsize" else "u64"
            st.append("if Tt::<%s>::tt(%s, 5) != id * 1000 + %d + 5 { return Err((\"cast:dispatch\".into(), format!(\"{}: %s dispatched to the wrong instance/trait\", what))); }" % (ty, asref, CODE[t], t))
        else:
            st.append("if %s.%s() != id * 1000 + %d + acc { return Err((\"cast:dispatch\".into(), format!(\"{}: %s::%s returned a value of another instance/trait\", what))); }" % (var, meth(t), CODE[t], t, meth(t)))
    if mutable:
        for t in names:
            if t not in MUTABLE:
                continue
            st.append("acc += 3 * %d; if %s.%s_mut(3) != id * 1000 + %d + acc { return Err((\"cast:dispatch_mut\".into(), format!(\"{}: %s::%s_mut did not mutate this instance\", what))); }" % (CODE[t], var, meth(t), CODE[t], t, meth(t)))
    return "\n                ".join(st)


def emit_family(gname, mandatory, optional, cells, aliases=None, containers=("Box", "Mut", "Ref")):
    """group definition + one implementing type per enabled subset + one checker fn per cell"""
    aliases = aliases or {}
    out = []
    w = out.append

    def decl(t):
        return aliases.get(t, t)

    mand = mandatory if mandatory else "{}"
    w("cglue_trait_group!(%s, %s, { %s });" % (gname, mand, ", ".join(decl(t) for t in optional)))
    for en in subsets(optional):
        ty = "%sImp%s" % (gname, "".join(en) or "None")
        w(imp_type(ty))
        w("cglue_impl_group!(%s, %s, { %s });" % (ty, gname, ", ".join(decl(t) for t in en)))
    for en in subsets(optional):
        ty = "%sImp%s" % (gname, "".join(en) or "None")
        for req in subsets(optional):
            if not req:
                continue
            expect = all(r in en for r in req)
            impl_list = " + ".join(req)
            for cont in containers:
                for op in ("check", "as_ref", "as_mut", "cast", "into"):
                    if cont == "Ref" and op == "as_mut":
                        continue
                    fname = "cell_%s_%s_%s_%s_%s" % (gname.lower(), "".join(en).lower() or "none", "".join(req).lower(), cont.lower(), op)
                    cells.append((fname, gname, en, req, cont, op, expect))
                    w("pub fn %s() -> Result<u64, (String, String)> {" % fname)
                    w("    let what = \"group %s built from a type enabling {%s}, %s!(.. impl %s) on a %s container\";" % (gname, ",".join(en), op, impl_list, cont))
                    w("    let id: u64 = 7; #[allow(unused_mut, unused_assignments)] let mut acc: u64 = 0; let _ = &mut acc;")
                    w("    let drops = DropScope::new();")
                    w("    #[allow(unused_mut)] let mut imp = %s::new(id);" % ty)
                    w("    let pid = imp.dc.id;")
                    w("    {")
                    if cont == "Box":
                        w("        #[allow(unused_mut)] let mut g = group_obj!(imp as %s);" % gname)
                    elif cont == "Mut":
                        w("        #[allow(unused_mut)] let mut g = group_obj!(&mut imp as %s);" % gname)
                    else:
                        w("        #[allow(unused_mut)] let mut g = group_obj!(&imp as %s);" % gname)
                    mutable_cont = cont != "Ref"
                    if mandatory:
                        w("        if g.%s() != id * 1000 + 1 { return Err((\"cast:mandatory\".into(), format!(\"{}: mandatory trait not callable on the group\", what))); }" % meth(mandatory))
                    if op == "check":
                        w("        let ok = check!(g impl %s);" % impl_list)
                        w("        if ok != %s { return Err((\"cast:decision\".into(), format!(\"{}: returned {}, expected %s\", what, ok))); }" % (str(expect).lower(), str(expect).lower()))
                    elif op == "as_ref":
                        w("        match as_ref!(g impl %s) {" % impl_list)
                        w("            Some(x) => {")
                        w("                if !%s { return Err((\"cast:decision\".into(), format!(\"{}: succeeded although a requested trait is not enabled\", what))); }" % str(expect).lower())
                        w("                " + calls_on("x", req, False, mandatory, "ref"))
                        w("            }")
                        w("            None => { if %s { return Err((\"cast:decision\".into(), format!(\"{}: failed although every requested trait is enabled\", what))); } }" % str(expect).lower())
                        w("        }")
                    elif op == "as_mut":
                        w("        match as_mut!(g impl %s) {" % impl_list)
                        w("            Some(x) => {")
                        w("                if !%s { return Err((\"cast:decision\".into(), format!(\"{}: succeeded although a requested trait is not enabled\", what))); }" % str(expect).lower())
                        w("                " + calls_on("x", req, True, mandatory, "mutref"))
                        w("            }")
                        w("            None => { if %s { return Err((\"cast:decision\".into(), format!(\"{}: failed although every requested trait is enabled\", what))); } }" % str(expect).lower())
                        w("        }")
                    elif op == "cast":
                        w("        match cast!(g impl %s) {" % impl_list)
                        w("            Some(mut x) => {")
                        w("                if !%s { return Err((\"cast:decision\".into(), format!(\"{}: succeeded although a requested trait is not enabled\", what))); }" % str(expect).lower())
                        w("                let _ = &mut x;")
                        w("                " + calls_on("x", req, mutable_cont, mandatory, "owned"))
                        w("                // casting back must give the original group with every optional trait still present")
                        w("                #[allow(unused_mut)] let mut back = x.upcast();")
                        for t in optional:
                            w("                if check!(back impl %s) != %s { return Err((\"cast:upcast\".into(), format!(\"{}: after cast + upcast, check!(impl %s) is not what the type enabled\", what))); }" % (t, str(t in en).lower(), t))
                        if mandatory:
                            w("                if back.%s() != id * 1000 + 1 + acc { return Err((\"cast:upcast_dispatch\".into(), format!(\"{}: mandatory trait on the upcast group reaches another instance\", what))); }" % meth(mandatory))
                        w("            }")
                        w("            None => { if %s { return Err((\"cast:decision\".into(), format!(\"{}: failed although every requested trait is enabled\", what))); } }" % str(expect).lower())
                        w("        }")
                    else:
                        w("        match into!(g impl %s) {" % impl_list)
                        w("            Some(mut x) => {")
                        w("                if !%s { return Err((\"cast:decision\".into(), format!(\"{}: succeeded although a requested trait is not enabled\", what))); }" % str(expect).lower())
                        w("                let _ = &mut x;")
                        w("                " + calls_on("x", req, mutable_cont, mandatory, "owned"))
                        w("            }")
                        w("            None => { if %s { return Err((\"cast:decision\".into(), format!(\"{}: failed although every requested trait is enabled\", what))); } }" % str(expect).lower())
                        w("        }")
                    w("    }")
                    if cont == "Box":
                        w("    if drops.count(pid) != 1 { return Err((\"cast:drop_count\".into(), format!(\"{}: the boxed value was dropped {} time(s)\", what, drops.count(pid)))); }")
                    else:
                        w("    if drops.count(pid) != 0 { return Err((\"cast:borrowed_dropped\".into(), format!(\"{}: the borrowed value was dropped by the group\", what))); }")
                        w("    if imp.acc != acc { return Err((\"cast:state\".into(), format!(\"{}: mutations did not reach the borrowed instance\", what))); }")
                        w("    drop(imp);")
                    w("    Ok(digest(&(%d, acc)))" % (1 if expect else 0))
                    w("}")
    return "\n".join(out)


def main():
    tier, out_dir = sys.argv[1], sys.argv[2]
    os.makedirs(out_dir, exist_ok=True)
    nmax = 3 if tier == "quick" else 4
    cells = []
    parts = ["// @generated by gen/groups_gen.py (tier %s) — do not edit" % tier,
             "#![allow(unused_variables, unused_mut, unused_assignments, dead_code, clippy::all)]",
             "use crate::support::*;", "use cglue::*;", trait_defs()]
    for n in range(1, nmax + 1):
        parts.append(emit_family("Gn%d" % n, "Gm", OPT[:n], cells))
    # a group without mandatory traits
    parts.append(emit_family("Gopt", None, OPT[:2], cells))
    # aliased generic instantiations
    parts.append(emit_family("Gali", "Gm", ["TtUsize", "TtU64"], cells, aliases={"TtUsize": "Tt<usize> = TtUsize", "TtU64": "Tt<u64> = TtU64"}))
    # traits with &mut self methods (no by-ref container possible)
    parts.append(emit_family("Gmut", "Hm", MOPT, cells, containers=("Box", "Mut")))
    reg = ["pub struct Cell { pub name: &'static str, pub group: &'static str, pub enabled: &'static str, pub requested: &'static str, pub container: &'static str, pub op: &'static str, pub expect: bool, pub run: fn() -> Result<u64, (String, String)> }",
           "pub fn cells() -> Vec<Cell> {", "    vec!["]
    for (fname, g, en, req, cont, op, expect) in cells:
        reg.append("        Cell { name: \"%s\", group: \"%s\", enabled: \"%s\", requested: \"%s\", container: \"%s\", op: \"%s\", expect: %s, run: %s }," % (
            fname, g, "+".join(en), "+".join(req), cont, op, str(expect).lower(), fname))
    reg.append("    ]")
    reg.append("}")
    text = "\n".join(parts) + "\n" + "\n".join(reg) + "\n"
    path = os.path.join(out_dir, "g_groups_%s.rs" % tier)
    if not os.path.exists(path) or open(path).read() != text:
        with open(path, "w") as f:
            f.write(text)
    print("generated %d cells (%s)" % (len(cells), tier))


if __name__ == "__main__":
    main()
