#!/usr/bin/env python3
"""Group grammar for C08 (and the group half of C04): generated groups with n = 1..N optional traits,
all 2^n implementing types, all requested subsets, the five cast operations, Box/Mut/Ref containers.

usage: groups_gen.py <tier> <out_dir>     writes <out_dir>/g_groups_<tier>.rs
"""
import itertools
import os
import sys

OPT = ["Oa", "Ob", "Oc", "Od"]          # optional trait names (already in name order); &self methods only
MOPT = ["Pa", "Pb"]                      # optional traits that also have &mut self methods (no Ref container)
CODE = {"Gm": 1, "Oa": 2, "Ob": 3, "Oc": 4, "Od": 5, "TtUsize": 6, "TtU64": 7, "Hm": 1, "Pa": 8, "Pb": 9}
MUTABLE = {"Hm", "Pa", "Pb"}
CODE.update({"Ma": 10, "Mb": 11, "TLB": 12, "Tag": 13, "KVStore": 14, "KeyDumper": 15})
# names whose byte-wise order differs from the order of their lower-cased forms ("name order" = order of the identifiers)
CASED = ["TLB", "Tag", "KVStore", "KeyDumper"]
# traits with #[cglue_forward]: usable through Fwd<&mut T>, for the 4-argument cglue_impl_group! form
FWD = ["Fm", "Fa", "Fb"]
CODE.update({"Fm": 16, "Fa": 17, "Fb": 18})


def subsets(xs):
    for k in range(len(xs) + 1):
        for c in itertools.combinations(xs, k):
            yield list(c)


def meth(t):
    return t.lower()


def trait_defs():
    out = ["#[cglue_trait]\npub trait Gm {\n    fn gm(&self) -> u64;\n}"]
    for t in OPT:
        out.append("#[cglue_trait]\npub trait %s {\n    fn %s(&self) -> u64;\n}" % (t, meth(t)))
    for t in ["Hm"] + MOPT:
        out.append("#[cglue_trait]\npub trait %s {\n    fn %s(&self) -> u64;\n    fn %s_mut(&mut self, add: u64) -> u64;\n}" % (t, meth(t), meth(t)))
    for t in ["Ma", "Mb"] + CASED:
        out.append("#[cglue_trait]\npub trait %s {\n    fn %s(&self) -> u64;\n}" % (t, meth(t)))
    for t in FWD:
        # a provided method that every implementor overrides: the forwarding impl for Fwd<..> must forward it as well
        out.append("#[cglue_trait]\n#[cglue_forward]\npub trait %s {\n    fn %s(&self) -> u64;\n    fn %s_dflt(&self) -> u64 {\n        0xDEAD_0000\n    }\n}" % (t, meth(t), meth(t)))
    out.append("#[cglue_trait]\npub trait Tt<T> {\n    fn tt(&self, v: T) -> u64;\n}")
    return "\n".join(out)


def imp_type(name):
    """A payload type implementing every trait; which ones a group sees is decided by cglue_impl_group!"""
    out = ["#[repr(C)] pub struct %s { pub id: u64, pub acc: u64, pub dc: DcHeap }" % name,
           "impl %s { pub fn new(id: u64) -> Self { %s { id, acc: 0, dc: DcHeap::new(id) } } }" % (name, name),
           "impl Gm for %s { fn gm(&self) -> u64 { self.id * 1000 + 1 + self.acc } }" % name]
    for t in OPT:
        out.append("impl %s for %s { fn %s(&self) -> u64 { self.id * 1000 + %d + self.acc } }" % (t, name, meth(t), CODE[t]))
    for t in ["Hm"] + MOPT:
        out.append("impl %s for %s { fn %s(&self) -> u64 { self.id * 1000 + %d + self.acc } fn %s_mut(&mut self, add: u64) -> u64 { self.acc += add * %d; self.id * 1000 + %d + self.acc } }" % (
            t, name, meth(t), CODE[t], meth(t), CODE[t], CODE[t]))
    for t in ["Ma", "Mb"] + CASED:
        out.append("impl %s for %s { fn %s(&self) -> u64 { self.id * 1000 + %d + self.acc } }" % (t, name, meth(t), CODE[t]))
    for t in FWD:
        out.append("impl %s for %s { fn %s(&self) -> u64 { self.id * 1000 + %d + self.acc } fn %s_dflt(&self) -> u64 { self.id * 1000 + %d + 500 + self.acc } }" % (t, name, meth(t), CODE[t], meth(t), CODE[t]))
    out.append("impl Tt<usize> for %s { fn tt(&self, v: usize) -> u64 { self.id * 1000 + 6 + v as u64 } }" % name)
    out.append("impl Tt<u64> for %s { fn tt(&self, v: u64) -> u64 { self.id * 1000 + 7 + v } }" % name)
    return "\n".join(out)


def calls_on(var, traits, mutable, mand, kind):
    """statements checking that `var` dispatches to instance `id` for every listed trait.
    kind: 'ref' (var is &impl), 'mutref' (var is &mut impl), 'owned'"""
    st = []
    names = ([mand] if mand else []) + traits
    asref = {"ref": var, "mutref": "&*%s" % var, "owned": "&%s" % var}[kind]
    for t in names:
        if t in ("TtUsize", "TtU64"):
            ty = "usize" if t == "TtUsize" else "u64"
            st.append("if Tt::<%s>::tt(%s, 5) != id * 1000 + %d + 5 { return Err((\"cast:dispatch\".into(), format!(\"{}: %s dispatched to the wrong instance/trait\", what))); }" % (ty, asref, CODE[t], t))
        else:
            st.append("if %s.%s() != id * 1000 + %d + acc { return Err((\"cast:dispatch\".into(), format!(\"{}: %s::%s returned a value of another instance/trait\", what))); }" % (var, meth(t), CODE[t], t, meth(t)))
            if t in FWD:
                st.append("if %s.%s_dflt() != id * 1000 + %d + 500 + acc { return Err((\"cast:dispatch_provided\".into(), format!(\"{}: the provided method %s::%s_dflt, overridden by the implementor, did not reach the implementor's override\", what))); }" % (var, meth(t), CODE[t], t, meth(t)))
    if mutable:
        for t in names:
            if t not in MUTABLE:
                continue
            st.append("acc += 3 * %d; if %s.%s_mut(3) != id * 1000 + %d + acc { return Err((\"cast:dispatch_mut\".into(), format!(\"{}: %s::%s_mut did not mutate this instance\", what))); }" % (CODE[t], var, meth(t), CODE[t], t, meth(t)))
    return "\n                ".join(st)


def emit_family(gname, mandatory, optional, cells, aliases=None, containers=("Box", "Mut", "Ref"), mand_call=None, fwd_of=None):
    """group definition + one implementing type per enabled subset + one checker fn per cell"""
    aliases = aliases or {}
    out = []
    w = out.append

    def decl(t):
        return aliases.get(t, t)

    mand = mandatory if mandatory else "{}"
    if mand_call:
        mandatory = mand_call
    w("cglue_trait_group!(%s, %s, { %s });" % (gname, mand, ", ".join(decl(t) for t in optional)))
    for en in subsets(optional):
        ty = "%sImp%s" % (gname, "".join(en) or "None")
        w(imp_type(ty))
        if fwd_of is None:
            w("cglue_impl_group!(%s, %s, { %s });" % (ty, gname, ", ".join(decl(t) for t in en)))
        else:
            # 4-argument form: the third list is what the type itself enables (Box, &mut and & containers),
            # the fourth what its Fwd<&mut T> wrapper enables
            w("cglue_impl_group!(%s, %s, { %s }, { %s });" % (ty, gname, ", ".join(decl(t) for t in en), ", ".join(decl(t) for t in fwd_of(en))))
    for en_decl in subsets(optional):
        ty = "%sImp%s" % (gname, "".join(en_decl) or "None")
        for req in subsets(optional):
            if not req:
                continue
            # the request is written in name order (the macros sort it; unsorted spellings are probed by gen/castprobe_c08.py,
            # where a spelling the macros reject is a verdict instead of a harness that does not build)
            impl_list = " + ".join(sorted(req))
            for cont in containers + (("Fwd",) if fwd_of is not None else ()):
                en = fwd_of(en_decl) if cont == "Fwd" else en_decl
                expect = all(r in en for r in req)
                for op in ("check", "as_ref", "as_mut", "cast", "cast_from", "into"):
                    if cont == "Ref" and op == "as_mut":
                        continue
                    fname = "cell_%s_%s_%s_%s_%s" % (gname.lower(), "".join(en_decl).lower() or "none", "".join(req).lower(), cont.lower(), op)
                    cells.append((fname, gname, en, req, cont, op, expect))
                    w("pub fn %s() -> Result<u64, (String, String)> {" % fname)
                    w("    let what = \"group %s built from a type enabling {%s}, %s!(.. impl %s) on a %s container\";" % (gname, ",".join(en), "cast" if op == "cast_from" else op, impl_list, cont + (" and back through From::from" if op == "cast_from" else "")))
                    w("    let id: u64 = 7; #[allow(unused_mut, unused_assignments)] let mut acc: u64 = 0; let _ = &mut acc;")
                    w("    let drops = DropScope::new();")
                    w("    #[allow(unused_mut)] let mut imp = %s::new(id);" % ty)
                    w("    let pid = imp.dc.id;")
                    w("    {")
                    if cont == "Box":
                        w("        #[allow(unused_mut)] let mut g = group_obj!(imp as %s);" % gname)
                    elif cont == "Mut":
                        w("        #[allow(unused_mut)] let mut g = group_obj!(&mut imp as %s);" % gname)
                    elif cont == "Fwd":
                        w("        #[allow(unused_mut)] let mut g: %sBaseBox<'_, cglue::forward::Fwd<&mut %s>> = From::from(cglue::forward::Fwd(&mut imp));" % (gname, ty))
                    else:
                        w("        #[allow(unused_mut)] let mut g = group_obj!(&imp as %s);" % gname)
                    mutable_cont = cont != "Ref"
                    if mandatory:
                        w("        if g.%s() != id * 1000 + %d { return Err((\"cast:mandatory\".into(), format!(\"{}: mandatory trait not callable on the group\", what))); }" % (meth(mandatory), CODE[mandatory]))
                    if op == "check":
                        w("        let ok = check!(g impl %s);" % impl_list)
                        w("        if ok != %s { return Err((\"cast:decision\".into(), format!(\"{}: returned {}, expected %s\", what, ok))); }" % (str(expect).lower(), str(expect).lower()))
                    elif op == "as_ref":
                        w("        match as_ref!(g impl %s) {" % impl_list)
                        w("            Some(x) => {")
                        w("                if !%s { return Err((\"cast:decision\".into(), format!(\"{}: succeeded although a requested trait is not enabled\", what))); }" % str(expect).lower())
                        w("                " + calls_on("x", req, False, mandatory, "ref"))
                        w("            }")
                        w("            None => { if %s { return Err((\"cast:decision\".into(), format!(\"{}: failed although every requested trait is enabled\", what))); } }" % str(expect).lower())
                        w("        }")
                    elif op == "as_mut":
                        w("        match as_mut!(g impl %s) {" % impl_list)
                        w("            Some(x) => {")
                        w("                if !%s { return Err((\"cast:decision\".into(), format!(\"{}: succeeded although a requested trait is not enabled\", what))); }" % str(expect).lower())
                        w("                " + calls_on("x", req, True, mandatory, "mutref"))
                        w("            }")
                        w("            None => { if %s { return Err((\"cast:decision\".into(), format!(\"{}: failed although every requested trait is enabled\", what))); } }" % str(expect).lower())
                        w("        }")
                    elif op in ("cast", "cast_from"):
                        w("        match cast!(g impl %s) {" % impl_list)  # cast_from differs only in the way back
                        w("            Some(mut x) => {")
                        w("                if !%s { return Err((\"cast:decision\".into(), format!(\"{}: succeeded although a requested trait is not enabled\", what))); }" % str(expect).lower())
                        w("                let _ = &mut x;")
                        w("                " + calls_on("x", req, mutable_cont, mandatory, "owned"))
                        w("                // casting back must give the original group with every optional trait still present")
                        if op == "cast":
                            w("                #[allow(unused_mut)] let mut back = x.upcast();")
                        else:
                            # the same way back through the generated From<concrete variant> for the group
                            w("                #[allow(unused_mut)] let mut back: %s<'_, _, _> = From::from(x);" % gname)
                        for t in optional:
                            w("                if check!(back impl %s) != %s { return Err((\"cast:upcast\".into(), format!(\"{}: after cast + upcast, check!(impl %s) is not what the type enabled\", what))); }" % (t, str(t in en).lower(), t))
                        if mandatory:
                            w("                if back.%s() != id * 1000 + MANDCODE + acc { return Err((\"cast:upcast_dispatch\".into(), format!(\"{}: mandatory trait on the upcast group reaches another instance\", what))); }".replace("MANDCODE", str(CODE[mandatory])) % meth(mandatory))
                        w("            }")
                        w("            None => { if %s { return Err((\"cast:decision\".into(), format!(\"{}: failed although every requested trait is enabled\", what))); } }" % str(expect).lower())
                        w("        }")
                    else:
                        w("        match into!(g impl %s) {" % impl_list)
                        w("            Some(mut x) => {")
                        w("                if !%s { return Err((\"cast:decision\".into(), format!(\"{}: succeeded although a requested trait is not enabled\", what))); }" % str(expect).lower())
                        w("                let _ = &mut x;")
                        w("                " + calls_on("x", req, mutable_cont, mandatory, "owned"))
                        w("            }")
                        w("            None => { if %s { return Err((\"cast:decision\".into(), format!(\"{}: failed although every requested trait is enabled\", what))); } }" % str(expect).lower())
                        w("        }")
                    w("    }")
                    if cont == "Box":
                        w("    if drops.count(pid) != 1 { return Err((\"cast:drop_count\".into(), format!(\"{}: the boxed value was dropped {} time(s)\", what, drops.count(pid)))); }")
                    else:
                        w("    if drops.count(pid) != 0 { return Err((\"cast:borrowed_dropped\".into(), format!(\"{}: the borrowed value was dropped by the group\", what))); }")
                        w("    if imp.acc != acc { return Err((\"cast:state\".into(), format!(\"{}: mutations did not reach the borrowed instance\", what))); }")
                        w("    drop(imp);")
                    w("    Ok(digest(&(%d, acc)))" % (1 if expect else 0))
                    w("}")
    # the consuming macros applied to an operand EXPRESSION with a side effect (a constructor call): evaluated exactly once
    for en in subsets(optional):
        ty = "%sImp%s" % (gname, "".join(en) or "None")
        for req in subsets(optional):
            if not req or "Box" not in containers:
                continue
            expect = all(r in en for r in req)
            impl_list = " + ".join(sorted(req))
            for op in ("cast", "into"):
                fname = "cell_%s_%s_%s_box_%s_expr" % (gname.lower(), "".join(en).lower() or "none", "".join(req).lower(), op)
                cells.append((fname, gname, en, req, "Box", op + "_expr", expect))
                w("pub fn %s() -> Result<u64, (String, String)> {" % fname)
                w("    let what = \"group %s built from a type enabling {%s}, %s!(<constructor call> impl %s)\";" % (gname, ",".join(en), op, impl_list))
                w("    let drops = DropScope::new();")
                w("    let made = ::std::cell::Cell::new(0u32);")
                w("    let make = || { made.set(made.get() + 1); group_obj!(%s::new(7) as %s) };" % (ty, gname))
                w("    let r = %s!(make() impl %s);" % (op, impl_list))
                w("    let ok = r.is_some();")
                w("    drop(r);")
                w("    if made.get() != 1 { return Err((\"cast:operand_evaluations\".into(), format!(\"{}: the operand expression was evaluated {} times\", what, made.get()))); }")
                w("    if ok != %s { return Err((\"cast:decision\".into(), format!(\"{}: returned {}, expected %s\", what, if ok { \"Some\" } else { \"None\" }))); }" % (str(expect).lower(), "Some" if expect else "None"))
                w("    let bad = drops.not_equal(1);")
                w("    if !bad.is_empty() { return Err((\"cast:drop_count\".into(), format!(\"{}: payloads {:?} were not dropped exactly once\", what, bad))); }")
                w("    Ok(digest(&(%d, made.get())))" % (1 if expect else 0))
                w("}")
    # requests that name one of their traits through a module path (`Oa + crate::Ob`): every listed trait counts
    for en in subsets(optional):
        ty = "%sImp%s" % (gname, "".join(en) or "None")
        for req in subsets(optional):
            if len(req) < 2 or "Box" not in containers or any(t in aliases for t in req):
                continue
            expect = all(r in en for r in req)
            for pos in (0, len(req) - 1):
                impl_list = " + ".join(("crate::" + t) if k == pos else t for k, t in enumerate(sorted(req)))
                for op in ("check", "cast"):
                    fname = "cell_%s_%s_%s_box_%s_path%d" % (gname.lower(), "".join(en).lower() or "none", "".join(req).lower(), op, pos)
                    cells.append((fname, gname, en, req, "Box", op + "_path", expect))
                    w("pub fn %s() -> Result<u64, (String, String)> {" % fname)
                    w("    let what = \"group %s built from a type enabling {%s}, %s!(.. impl %s)\";" % (gname, ",".join(en), op, impl_list))
                    w("    let drops = DropScope::new();")
                    w("    #[allow(unused_mut)] let mut g = group_obj!(%s::new(7) as %s);" % (ty, gname))
                    if op == "check":
                        w("    let ok = check!(g impl %s);" % impl_list)
                        w("    drop(g);")
                    else:
                        w("    let r = cast!(g impl %s);" % impl_list)
                        w("    let ok = r.is_some();")
                        w("    drop(r);")
                    w("    if ok != %s { return Err((\"cast:decision\".into(), format!(\"{}: returned {}, expected %s\", what, ok))); }" % (str(expect).lower(), str(expect).lower()))
                    w("    let bad = drops.not_equal(1);")
                    w("    if !bad.is_empty() { return Err((\"cast:drop_count\".into(), format!(\"{}: payloads {:?} were not dropped exactly once\", what, bad))); }")
                    w("    Ok(digest(&(%d, %d)))" % (1 if expect else 0, pos))
                    w("}")
    return "\n".join(out)


def emit_layout(gname, mandatory_list, optional, layouts, containers):
    """C04: raw-word layout of the group object, seen the way a C caller sees it.
    mandatory_list / optional are in DECLARATION order; the expected order is name order."""
    out = []
    w = out.append
    order = sorted(mandatory_list) + sorted(optional)
    nvt = len(order)
    for en in subsets(optional):
        ty = "%sImp%s" % (gname, "".join(en) or "None")
        for cont in containers:
            for ctx in (False, True):
                fname = "layout_%s_%s_%s_%s" % (gname.lower(), "".join(en).lower() or "none", cont.lower(), "arc" if ctx else "noctx")
                layouts.append((fname, gname, en, cont, ctx))
                w("pub fn %s() -> Result<u64, (String, String)> {" % fname)
                w("    let what = \"layout of group %s (enabled {%s}) in a %s container %s context\";" % (gname, ",".join(en), cont, "with a CArc" if ctx else "without"))
                w("    let id: u64 = 7;")
                w("    #[allow(unused_mut)] let mut imp = %s::new(id);" % ty)
                w("    let arc = ::std::sync::Arc::new(5u64);")
                if cont == "Box":
                    inst = "imp"
                elif cont == "Mut":
                    inst = "&mut imp"
                    w("    let imp_addr = &imp as *const _ as usize;")
                else:
                    inst = "&imp"
                    w("    let imp_addr = &imp as *const _ as usize;")
                if ctx:
                    w("    let g = group_obj!((%s, cglue::arc::CArc::<u64>::from(arc.clone())) as %s);" % (inst, gname))
                else:
                    w("    let g = group_obj!(%s as %s);" % (inst, gname))
                inst_words = 2 if cont == "Box" else 1
                ctx_words = 3 if ctx else 0
                total = nvt + inst_words + ctx_words
                w("    let words: Vec<usize> = words_of(&g);")
                w("    if words.len() != %d { return Err((\"layout:size\".into(), format!(\"{}: object is {} words, expected %d (= %d vtable pointers + %d instance + %d context, no temporary storage)\", what, words.len()))); }" % (total, total, nvt, inst_words, ctx_words))
                w("    let cont_ptr = unsafe { (&g as *const _ as *const usize).add(%d) } as *const ::core::ffi::c_void;" % nvt)
                for k, t in enumerate(order):
                    present = (t in mandatory_list) or (t in en)
                    if present:
                        w("    if words[%d] == 0 { return Err((\"layout:vtbl_missing\".into(), format!(\"{}: word %d (vtable of %s) is null\", what))); }" % (k, k, t))
                        if t in ("TtUsize", "TtU64"):
                            w("    if unsafe { call_slot0_arg(words[%d], cont_ptr, 5) } != id * 1000 + %d + 5 { return Err((\"layout:vtbl_order\".into(), format!(\"{}: word %d is not the vtable of %s (name order: mandatory first, then optional)\", what))); }" % (k, CODE[t], k, t))
                        else:
                            w("    if unsafe { call_slot0(words[%d], cont_ptr) } != id * 1000 + %d { return Err((\"layout:vtbl_order\".into(), format!(\"{}: word %d is not the vtable of %s (name order: mandatory first, then optional)\", what))); }" % (k, CODE[t], k, t))
                    else:
                        w("    if words[%d] != 0 { return Err((\"layout:vtbl_not_null\".into(), format!(\"{}: word %d (optional vtable of %s, not enabled) is not null\", what))); }" % (k, k, t))
                if cont == "Box":
                    w("    if words[%d] == 0 || words[%d] == 0 { return Err((\"layout:instance\".into(), format!(\"{}: CBox instance/drop_fn words are null\", what))); }" % (nvt, nvt + 1))
                    w("    if unsafe { *(words[%d] as *const u64) } != id { return Err((\"layout:instance\".into(), format!(\"{}: the word after the vtable pointers is not the instance pointer\", what))); }" % nvt)
                else:
                    w("    if words[%d] != imp_addr { return Err((\"layout:instance\".into(), format!(\"{}: the word after the vtable pointers is not the instance pointer\", what))); }" % nvt)
                if ctx:
                    w("    if words[%d] != ::std::sync::Arc::as_ptr(&arc) as usize || words[%d] == 0 || words[%d] == 0 { return Err((\"layout:context\".into(), format!(\"{}: the context (CArc: instance, clone_fn, drop_fn) does not follow the instance\", what))); }" % (nvt + inst_words, nvt + inst_words + 1, nvt + inst_words + 2))
                # cast to the full enabled set keeps the bit pattern; the final form keeps mandatory + requested + container
                if en:
                    impl_list = " + ".join(sorted(en))
                    w("    let c = match cast!(g impl %s) { Some(c) => c, None => return Err((\"layout:cast\".into(), format!(\"{}: cast to the enabled set failed\", what))) };" % impl_list)
                    w("    if words_of(&c) != words { return Err((\"layout:cast_bits\".into(), format!(\"{}: cast changed the bit pattern of the object\", what))); }")
                    w("    let back = c.upcast();")
                    w("    if words_of(&back) != words { return Err((\"layout:upcast_bits\".into(), format!(\"{}: upcast changed the bit pattern of the object\", what))); }")
                    w("    let f = match into!(back impl %s) { Some(f) => f, None => return Err((\"layout:into\".into(), format!(\"{}: into the enabled set failed\", what))) };" % impl_list)
                    forder = sorted(mandatory_list) + sorted(en)
                    w("    let fw = words_of(&f);")
                    w("    if fw.len() != %d { return Err((\"layout:final_size\".into(), format!(\"{}: final object is {} words, expected %d\", what, fw.len()))); }" % (len(forder) + inst_words + ctx_words, len(forder) + inst_words + ctx_words))
                    w("    let fcont = unsafe { (&f as *const _ as *const usize).add(%d) } as *const ::core::ffi::c_void;" % len(forder))
                    for k, t in enumerate(forder):
                        if t in ("TtUsize", "TtU64"):
                            w("    if fw[%d] == 0 || unsafe { call_slot0_arg(fw[%d], fcont, 5) } != id * 1000 + %d + 5 { return Err((\"layout:final_order\".into(), format!(\"{}: word %d of the final object is not the vtable of %s\", what))); }" % (k, k, CODE[t], k, t))
                        else:
                            w("    if fw[%d] == 0 || unsafe { call_slot0(fw[%d], fcont) } != id * 1000 + %d { return Err((\"layout:final_order\".into(), format!(\"{}: word %d of the final object is not the vtable of %s\", what))); }" % (k, k, CODE[t], k, t))
                    w("    if fw[%d..] != words[%d..] { return Err((\"layout:final_container\".into(), format!(\"{}: the container part changed in the final object\", what))); }" % (len(forder), nvt))
                    w("    drop(f);")
                else:
                    w("    drop(g);")
                if cont != "Box":
                    w("    drop(imp);")
                w("    Ok(digest(&(words.len(), %d)))" % total)
                w("}")
    return "\n".join(out)


FAM_TOML = """[package]
name = "%s"
version = "0.1.0"
edition = "2021"

[dependencies]
cglue = { path = "/repo/cglue" }
cglue-macro = { path = "/repo/cglue-macro" }
h_objbase = { path = "../../../h_objbase" }
instr = { path = "../../../instr" }
explore = { path = "../../../explore" }
"""

CELL_STRUCT = "pub use h_objbase::harness::{Cell, LayoutCell};"


def write_if_changed(path, text):
    os.makedirs(os.path.dirname(path), exist_ok=True)
    if not os.path.exists(path) or open(path).read() != text:
        with open(path, "w") as f:
            f.write(text)


SELFRET_SRC = r"""
// ---- hand-written cells: methods that return Self (the built-in Clone and a user trait), called on cast results; the
//      returned object is a complete member of the group again (upcast: every optional trait the type enabled is present)
#[cglue_trait]
pub trait Sm { fn sm(&self) -> u64; }
#[cglue_trait]
pub trait So { fn so(&self) -> u64; }
#[cglue_trait]
pub trait Sd { fn sd_dup(&self) -> Self; fn sd(&self) -> u64; }
#[derive(Clone)]
pub struct SImpAll { pub id: u64, pub dc: instr::DcHeap }
#[derive(Clone)]
pub struct SImpNoSo { pub id: u64, pub dc: instr::DcHeap }
macro_rules! simp {
    ($t:ident) => {
        impl Sm for $t { fn sm(&self) -> u64 { self.id * 10 + 1 } }
        impl So for $t { fn so(&self) -> u64 { self.id * 10 + 2 } }
        impl Sd for $t { fn sd_dup(&self) -> Self { self.clone() } fn sd(&self) -> u64 { self.id * 10 + 3 } }
    };
}
simp!(SImpAll);
simp!(SImpNoSo);
cglue_trait_group!(Gs, Sm, { Clone, So, Sd });
cglue_impl_group!(SImpAll, Gs, { Clone, So, Sd });
cglue_impl_group!(SImpNoSo, Gs, { Clone, Sd });

macro_rules! selfret_cell {
    ($fname:ident, $ty:ident, $has_so:expr, $what:expr, |$x:ident| $dup:expr, $($req:tt)+) => {
        pub fn $fname() -> Result<u64, (String, String)> {
            let what = $what;
            let drops = DropScope::new();
            {
                let g = group_obj!($ty { id: 7, dc: instr::DcHeap::new(7) } as Gs);
                let $x = match cast!(g impl $($req)+) { Some(x) => x, None => return Err(("cast:decision".into(), format!("{}: the cast failed although the trait is enabled", what))) };
                let y = $dup;
                let back = y.upcast();
                if back.sm() != 71 { return Err(("cast:upcast_dispatch".into(), format!("{}: mandatory trait on the returned object reaches another instance", what))); }
                if check!(back impl So) != $has_so { return Err(("cast:selfret_upcast".into(), format!("{}: after upcast of the returned object, check!(impl So) is not what the type enabled ({})", what, $has_so))); }
                if !check!(back impl Sd) || !check!(back impl Clone) { return Err(("cast:selfret_upcast".into(), format!("{}: the returned object lost Sd / Clone after upcast", what))); }
                if $has_so {
                    match as_ref!(back impl So) { Some(v) => if v.so() != 72 { return Err(("cast:dispatch".into(), format!("{}: So on the returned object answers for another instance", what))); }, None => return Err(("cast:selfret_upcast".into(), format!("{}: as_ref!(impl So) fails on the returned object", what))) }
                }
                // the cast result itself is still complete
                let back0 = $x.upcast();
                if check!(back0 impl So) != $has_so || !check!(back0 impl Sd) { return Err(("cast:upcast".into(), format!("{}: the cast result lost optional traits on upcast", what))); }
            }
            let bad = drops.not_equal(1);
            if !bad.is_empty() { return Err(("cast:drop_count".into(), format!("{}: payloads {:?} were not dropped exactly once", what, bad))); }
            Ok(digest(&(drops.ids() as u64, $has_so)))
        }
    };
}
selfret_cell!(cell_gs_all_clone_selfret, SImpAll, true, "group Gs {Clone,So,Sd} from a type enabling all: cast!(impl Clone), clone() the result, upcast the clone", |x| x.clone(), Clone);
selfret_cell!(cell_gs_all_dup_selfret, SImpAll, true, "group Gs {Clone,So,Sd} from a type enabling all: cast!(impl Sd), sd_dup() on the result, upcast the returned object", |x| x.sd_dup(), Sd);
selfret_cell!(cell_gs_all_clonedup_selfret, SImpAll, true, "group Gs {Clone,So,Sd} from a type enabling all: cast!(impl So + Sd), sd_dup() on the result, upcast the returned object", |x| x.sd_dup(), So + Sd);
selfret_cell!(cell_gs_noso_clone_selfret, SImpNoSo, false, "group Gs {Clone,So,Sd} from a type enabling {Clone,Sd}: cast!(impl Clone), clone() the result, upcast the clone", |x| x.clone(), Clone);
selfret_cell!(cell_gs_noso_dup_selfret, SImpNoSo, false, "group Gs {Clone,So,Sd} from a type enabling {Clone,Sd}: cast!(impl Sd), sd_dup() on the result, upcast the returned object", |x| x.sd_dup(), Sd);
"""
SELFRET_CELLS = [("cell_gs_all_clone_selfret", "Gs", ["Clone", "So", "Sd"], ["Clone"], "Box", "selfret", True),
                 ("cell_gs_all_dup_selfret", "Gs", ["Clone", "So", "Sd"], ["Sd"], "Box", "selfret", True),
                 ("cell_gs_all_clonedup_selfret", "Gs", ["Clone", "So", "Sd"], ["So", "Sd"], "Box", "selfret", True),
                 ("cell_gs_noso_clone_selfret", "Gs", ["Clone", "Sd"], ["Clone"], "Box", "selfret", True),
                 ("cell_gs_noso_dup_selfret", "Gs", ["Clone", "Sd"], ["Sd"], "Box", "selfret", True)]


HANDFILL_SRC = r'''
// ---- hand-written cells: vtable fillers written by hand (the documented manual route), enabling optional traits in every order
#[cglue_trait]
pub trait Hfm { fn hfm(&self) -> u64; }
#[cglue_trait]
pub trait Ha { fn ha(&self) -> u64; }
#[cglue_trait]
pub trait Hb { fn hb(&self) -> u64; }
#[cglue_trait]
pub trait Hc { fn hc(&self) -> u64; }
cglue_trait_group!(Gh, Hfm, { Ha, Hb, Hc });
macro_rules! hand_filled {
    ($ty:ident, $fname:ident, [$($vt:ident => $en:ident),*], [$wa:expr, $wb:expr, $wc:expr], $what:expr) => {
        pub struct $ty(pub u64);
        impl Hfm for $ty { fn hfm(&self) -> u64 { self.0 * 10 } }
        impl Ha for $ty { fn ha(&self) -> u64 { self.0 * 10 + 1 } }
        impl Hb for $ty { fn hb(&self) -> u64 { self.0 * 10 + 2 } }
        impl Hc for $ty { fn hc(&self) -> u64 { self.0 * 10 + 3 } }
        impl<'cglue_a, CGlueInst: ::core::ops::Deref<Target = $ty>, CGlueCtx: cglue::trait_group::ContextBounds> GhVtableFiller<'cglue_a, CGlueInst, CGlueCtx> for $ty
        where
            $(&'cglue_a $vt<'cglue_a, GhContainer<CGlueInst, CGlueCtx>>: 'cglue_a + Default,)*
        {
            fn fill_table(table: GhVtables<'cglue_a, CGlueInst, CGlueCtx>) -> GhVtables<'cglue_a, CGlueInst, CGlueCtx> {
                table$(.$en())*
            }
        }
        pub fn $fname() -> Result<u64, (String, String)> {
            let what = $what;
            let g = group_obj!($ty(7) as Gh);
            if g.hfm() != 70 { return Err(("cast:mandatory".into(), format!("{}: mandatory trait not callable", what))); }
            let got = [check!(g impl Ha), check!(g impl Hb), check!(g impl Hc)];
            if got != [$wa, $wb, $wc] { return Err(("cast:decision".into(), format!("{}: check!(Ha, Hb, Hc) = {:?}, the filler enabled {:?}", what, got, [$wa, $wb, $wc]))); }
            if $wa { if as_ref!(g impl Ha).map(|x| x.ha()) != Some(71) { return Err(("cast:dispatch".into(), format!("{}: Ha", what))); } }
            if $wb { if as_ref!(g impl Hb).map(|x| x.hb()) != Some(72) { return Err(("cast:dispatch".into(), format!("{}: Hb", what))); } }
            if $wc { if as_ref!(g impl Hc).map(|x| x.hc()) != Some(73) { return Err(("cast:dispatch".into(), format!("{}: Hc", what))); } }
            Ok(digest(&got))
        }
    };
}

hand_filled!(HfNone, cell_gh_none_handfilled, [], [false, false, false], "group Gh {Ha,Hb,Hc} with a hand-written vtable filler enabling nothing in this order");
hand_filled!(Hfa, cell_gh_a_handfilled, [HaVtbl => enable_ha], [true, false, false], "group Gh {Ha,Hb,Hc} with a hand-written vtable filler enabling Ha in this order");
hand_filled!(Hfb, cell_gh_b_handfilled, [HbVtbl => enable_hb], [false, true, false], "group Gh {Ha,Hb,Hc} with a hand-written vtable filler enabling Hb in this order");
hand_filled!(Hfc, cell_gh_c_handfilled, [HcVtbl => enable_hc], [false, false, true], "group Gh {Ha,Hb,Hc} with a hand-written vtable filler enabling Hc in this order");
hand_filled!(Hfab, cell_gh_ab_handfilled, [HaVtbl => enable_ha, HbVtbl => enable_hb], [true, true, false], "group Gh {Ha,Hb,Hc} with a hand-written vtable filler enabling Ha then Hb in this order");
hand_filled!(Hfba, cell_gh_ba_handfilled, [HbVtbl => enable_hb, HaVtbl => enable_ha], [true, true, false], "group Gh {Ha,Hb,Hc} with a hand-written vtable filler enabling Hb then Ha in this order");
hand_filled!(Hfac, cell_gh_ac_handfilled, [HaVtbl => enable_ha, HcVtbl => enable_hc], [true, false, true], "group Gh {Ha,Hb,Hc} with a hand-written vtable filler enabling Ha then Hc in this order");
hand_filled!(Hfca, cell_gh_ca_handfilled, [HcVtbl => enable_hc, HaVtbl => enable_ha], [true, false, true], "group Gh {Ha,Hb,Hc} with a hand-written vtable filler enabling Hc then Ha in this order");
hand_filled!(Hfbc, cell_gh_bc_handfilled, [HbVtbl => enable_hb, HcVtbl => enable_hc], [false, true, true], "group Gh {Ha,Hb,Hc} with a hand-written vtable filler enabling Hb then Hc in this order");
hand_filled!(Hfcb, cell_gh_cb_handfilled, [HcVtbl => enable_hc, HbVtbl => enable_hb], [false, true, true], "group Gh {Ha,Hb,Hc} with a hand-written vtable filler enabling Hc then Hb in this order");
hand_filled!(Hfabc, cell_gh_abc_handfilled, [HaVtbl => enable_ha, HbVtbl => enable_hb, HcVtbl => enable_hc], [true, true, true], "group Gh {Ha,Hb,Hc} with a hand-written vtable filler enabling Ha then Hb then Hc in this order");
hand_filled!(Hfacb, cell_gh_acb_handfilled, [HaVtbl => enable_ha, HcVtbl => enable_hc, HbVtbl => enable_hb], [true, true, true], "group Gh {Ha,Hb,Hc} with a hand-written vtable filler enabling Ha then Hc then Hb in this order");
hand_filled!(Hfbac, cell_gh_bac_handfilled, [HbVtbl => enable_hb, HaVtbl => enable_ha, HcVtbl => enable_hc], [true, true, true], "group Gh {Ha,Hb,Hc} with a hand-written vtable filler enabling Hb then Ha then Hc in this order");
hand_filled!(Hfbca, cell_gh_bca_handfilled, [HbVtbl => enable_hb, HcVtbl => enable_hc, HaVtbl => enable_ha], [true, true, true], "group Gh {Ha,Hb,Hc} with a hand-written vtable filler enabling Hb then Hc then Ha in this order");
hand_filled!(Hfcab, cell_gh_cab_handfilled, [HcVtbl => enable_hc, HaVtbl => enable_ha, HbVtbl => enable_hb], [true, true, true], "group Gh {Ha,Hb,Hc} with a hand-written vtable filler enabling Hc then Ha then Hb in this order");
hand_filled!(Hfcba, cell_gh_cba_handfilled, [HcVtbl => enable_hc, HbVtbl => enable_hb, HaVtbl => enable_ha], [true, true, true], "group Gh {Ha,Hb,Hc} with a hand-written vtable filler enabling Hc then Hb then Ha in this order");
'''
HANDFILL_CELLS = [('cell_gh_none_handfilled', 'Gh', [], [], 'Box', 'handfilled', True), ('cell_gh_a_handfilled', 'Gh', ['Ha'], ['Ha'], 'Box', 'handfilled', True), ('cell_gh_b_handfilled', 'Gh', ['Hb'], ['Hb'], 'Box', 'handfilled', True), ('cell_gh_c_handfilled', 'Gh', ['Hc'], ['Hc'], 'Box', 'handfilled', True), ('cell_gh_ab_handfilled', 'Gh', ['Ha', 'Hb'], ['Ha', 'Hb'], 'Box', 'handfilled', True), ('cell_gh_ba_handfilled', 'Gh', ['Hb', 'Ha'], ['Hb', 'Ha'], 'Box', 'handfilled', True), ('cell_gh_ac_handfilled', 'Gh', ['Ha', 'Hc'], ['Ha', 'Hc'], 'Box', 'handfilled', True), ('cell_gh_ca_handfilled', 'Gh', ['Hc', 'Ha'], ['Hc', 'Ha'], 'Box', 'handfilled', True), ('cell_gh_bc_handfilled', 'Gh', ['Hb', 'Hc'], ['Hb', 'Hc'], 'Box', 'handfilled', True), ('cell_gh_cb_handfilled', 'Gh', ['Hc', 'Hb'], ['Hc', 'Hb'], 'Box', 'handfilled', True), ('cell_gh_abc_handfilled', 'Gh', ['Ha', 'Hb', 'Hc'], ['Ha', 'Hb', 'Hc'], 'Box', 'handfilled', True), ('cell_gh_acb_handfilled', 'Gh', ['Ha', 'Hc', 'Hb'], ['Ha', 'Hc', 'Hb'], 'Box', 'handfilled', True), ('cell_gh_bac_handfilled', 'Gh', ['Hb', 'Ha', 'Hc'], ['Hb', 'Ha', 'Hc'], 'Box', 'handfilled', True), ('cell_gh_bca_handfilled', 'Gh', ['Hb', 'Hc', 'Ha'], ['Hb', 'Hc', 'Ha'], 'Box', 'handfilled', True), ('cell_gh_cab_handfilled', 'Gh', ['Hc', 'Ha', 'Hb'], ['Hc', 'Ha', 'Hb'], 'Box', 'handfilled', True), ('cell_gh_cba_handfilled', 'Gh', ['Hc', 'Hb', 'Ha'], ['Hc', 'Hb', 'Ha'], 'Box', 'handfilled', True)]


IMPLSYNTAX_SRC = r'''
// ---- hand-written cells: every way of writing the trait lists of cglue_impl_group! (trailing comma, unbraced single trait, empty
// list, 3- and 4-argument form with equal / smaller / larger / empty forward lists)
#[cglue_trait]
#[cglue_forward]
pub trait Ym { fn ym(&self) -> u64; }
#[cglue_trait]
#[cglue_forward]
pub trait Ya { fn ya(&self) -> u64; }
#[cglue_trait]
#[cglue_forward]
pub trait Yb { fn yb(&self) -> u64; }
#[cglue_trait]
#[cglue_forward]
pub trait Yc { fn yc(&self) -> u64; }
cglue_trait_group!(Gy, Ym, { Ya, Yb, Yc });
macro_rules! y_probe {
    ($g:ident, $base:expr, [$wa:expr, $wb:expr, $wc:expr], $what:expr, $how:expr) => {{
        if $g.ym() != $base { return Err(("cast:mandatory".into(), format!("{} ({}): mandatory trait not callable", $what, $how))); }
        let got = [check!($g impl Ya), check!($g impl Yb), check!($g impl Yc)];
        if got != [$wa, $wb, $wc] { return Err(("cast:decision".into(), format!("{} ({}): check!(Ya, Yb, Yc) = {:?}, the lists enable {:?}", $what, $how, got, [$wa, $wb, $wc]))); }
        if as_ref!($g impl Ya).map(|x| x.ya()) != (if $wa { Some($base + 1) } else { None }) { return Err(("cast:decision".into(), format!("{} ({}): as_ref!(Ya)", $what, $how))); }
        if as_ref!($g impl Yb).map(|x| x.yb()) != (if $wb { Some($base + 2) } else { None }) { return Err(("cast:decision".into(), format!("{} ({}): as_ref!(Yb)", $what, $how))); }
        if as_ref!($g impl Yc).map(|x| x.yc()) != (if $wc { Some($base + 3) } else { None }) { return Err(("cast:decision".into(), format!("{} ({}): as_ref!(Yc)", $what, $how))); }
        if check!($g impl Ya + Yb + Yc) != ($wa && $wb && $wc) || check!($g impl Ya + Yc) != ($wa && $wc) { return Err(("cast:decision".into(), format!("{} ({}): check! of a set", $what, $how))); }
        got
    }};
}
macro_rules! y_type {
    ($ty:ident) => {
        pub struct $ty(pub u64);
        impl Ym for $ty { fn ym(&self) -> u64 { self.0 * 10 } }
        impl Ya for $ty { fn ya(&self) -> u64 { self.0 * 10 + 1 } }
        impl Yb for $ty { fn yb(&self) -> u64 { self.0 * 10 + 2 } }
        impl Yc for $ty { fn yc(&self) -> u64 { self.0 * 10 + 3 } }
    };
}
macro_rules! impl_syntax {
    ($ty:ident, $fname:ident, ($($args:tt)*), [$oa:expr, $ob:expr, $oc:expr], $what:expr) => {
        y_type!($ty);
        cglue_impl_group!($ty, Gy, $($args)*);
        pub fn $fname() -> Result<u64, (String, String)> {
            let g = group_obj!($ty(7) as Gy);
            let a = y_probe!(g, 70, [$oa, $ob, $oc], $what, "owned object");
            let mut t = $ty(8);
            let g = group_obj!(&mut t as Gy);
            let b = y_probe!(g, 80, [$oa, $ob, $oc], $what, "object by mutable reference");
            Ok(digest(&(a, b)))
        }
    };
    ($ty:ident, $fname:ident, ($($args:tt)*), [$oa:expr, $ob:expr, $oc:expr], [$fa:expr, $fb:expr, $fc:expr], $what:expr) => {
        y_type!($ty);
        cglue_impl_group!($ty, Gy, $($args)*);
        pub fn $fname() -> Result<u64, (String, String)> {
            let g = group_obj!($ty(7) as Gy);
            let a = y_probe!(g, 70, [$oa, $ob, $oc], $what, "owned object");
            let mut t = $ty(9);
            let g: GyBaseBox<'_, cglue::forward::Fwd<&mut $ty>> = From::from(cglue::forward::Fwd(&mut t));
            let b = y_probe!(g, 90, [$fa, $fb, $fc], $what, "forwarded object Fwd<&mut T>");
            Ok(digest(&(a, b)))
        }
    };
}
impl_syntax!(YsTrail2, cell_gy_trail2_implsyntax, ({ Ya, Yb, }), [true, true, false], "group Gy {Ya,Yb,Yc}: cglue_impl_group!(T, Gy, { Ya, Yb, })");
impl_syntax!(YsTrail1, cell_gy_trail1_implsyntax, ({ Yc, }), [false, false, true], "group Gy {Ya,Yb,Yc}: cglue_impl_group!(T, Gy, { Yc, })");
impl_syntax!(YsTrail3, cell_gy_trail3_implsyntax, ({ Ya, Yb, Yc, }), [true, true, true], "group Gy {Ya,Yb,Yc}: cglue_impl_group!(T, Gy, { Ya, Yb, Yc, })");
impl_syntax!(YsUnbraced, cell_gy_unbraced_implsyntax, (Yb), [false, true, false], "group Gy {Ya,Yb,Yc}: cglue_impl_group!(T, Gy, Yb)");
impl_syntax!(YsEmpty, cell_gy_empty_implsyntax, ({}), [false, false, false], "group Gy {Ya,Yb,Yc}: cglue_impl_group!(T, Gy, {})");
impl_syntax!(YsPlain2, cell_gy_plain2_implsyntax, ({ Ya, Yc }), [true, false, true], "group Gy {Ya,Yb,Yc}: cglue_impl_group!(T, Gy, { Ya, Yc })");
impl_syntax!(YsFwdEmpty, cell_gy_fwd_empty_implsyntax, ({ Ya, Yb }, {}), [true, true, false], [false, false, false], "group Gy {Ya,Yb,Yc}: cglue_impl_group!(T, Gy, { Ya, Yb }, {})");
impl_syntax!(YsFwdPart, cell_gy_fwd_part_implsyntax, ({ Ya, Yb }, { Yb }), [true, true, false], [false, true, false], "group Gy {Ya,Yb,Yc}: cglue_impl_group!(T, Gy, { Ya, Yb }, { Yb })");
impl_syntax!(YsFwdMore, cell_gy_fwd_more_implsyntax, ({ Ya }, { Ya, Yc }), [true, false, false], [true, false, true], "group Gy {Ya,Yb,Yc}: cglue_impl_group!(T, Gy, { Ya }, { Ya, Yc })");
impl_syntax!(YsFwdTrail, cell_gy_fwd_trail_implsyntax, ({ Ya, Yb, }, { Yc, }), [true, true, false], [false, false, true], "group Gy {Ya,Yb,Yc}: cglue_impl_group!(T, Gy, { Ya, Yb, }, { Yc, })");
impl_syntax!(YsFwdOnly, cell_gy_fwd_only_implsyntax, ({}, { Ya }), [false, false, false], [true, false, false], "group Gy {Ya,Yb,Yc}: cglue_impl_group!(T, Gy, {}, { Ya })");
impl_syntax!(YsFwdAllTrail, cell_gy_fwd_all_trail_implsyntax, ({ Ya, Yb, Yc, }, { Ya, Yb, Yc, }), [true, true, true], [true, true, true], "group Gy {Ya,Yb,Yc}: cglue_impl_group!(T, Gy, { Ya, Yb, Yc, }, { Ya, Yb, Yc, })");
'''
IMPLSYNTAX_CELLS = [('cell_gy_trail2_implsyntax', 'Gy', ['Ya', 'Yb'], ['Ya', 'Yb'], 'Box', 'implsyntax', True), ('cell_gy_trail1_implsyntax', 'Gy', ['Yc'], ['Yc'], 'Box', 'implsyntax', True), ('cell_gy_trail3_implsyntax', 'Gy', ['Ya', 'Yb', 'Yc'], ['Ya', 'Yb', 'Yc'], 'Box', 'implsyntax', True), ('cell_gy_unbraced_implsyntax', 'Gy', ['Yb'], ['Yb'], 'Box', 'implsyntax', True), ('cell_gy_empty_implsyntax', 'Gy', [], [], 'Box', 'implsyntax', True), ('cell_gy_plain2_implsyntax', 'Gy', ['Ya', 'Yc'], ['Ya', 'Yc'], 'Box', 'implsyntax', True), ('cell_gy_fwd_empty_implsyntax', 'Gy', ['Ya', 'Yb'], ['Ya', 'Yb'], 'Box+Fwd', 'implsyntax', True), ('cell_gy_fwd_part_implsyntax', 'Gy', ['Ya', 'Yb'], ['Ya', 'Yb'], 'Box+Fwd', 'implsyntax', True), ('cell_gy_fwd_more_implsyntax', 'Gy', ['Ya'], ['Ya'], 'Box+Fwd', 'implsyntax', True), ('cell_gy_fwd_trail_implsyntax', 'Gy', ['Ya', 'Yb'], ['Ya', 'Yb'], 'Box+Fwd', 'implsyntax', True), ('cell_gy_fwd_only_implsyntax', 'Gy', [], [], 'Box+Fwd', 'implsyntax', True), ('cell_gy_fwd_all_trail_implsyntax', 'Gy', ['Ya', 'Yb', 'Yc'], ['Ya', 'Yb', 'Yc'], 'Box+Fwd', 'implsyntax', True)]


MIXED_SRC = r'''
// ---- hand-written layout cells: built-in (external) traits mixed with user traits that sort AFTER them, in the mandatory and in
//      the optional list: name order does not depend on where a trait is defined
#[cglue_trait]
pub trait Zeta { fn zeta(&self) -> u64; }
#[cglue_trait]
pub trait Omega { fn omega(&self) -> u64; }
cglue_trait_group!(Gz, { Clone, Zeta }, { Debug, Omega });
macro_rules! zimp {
    ($t:ident, { $($en:ident),* }) => {
        #[derive(Clone, Debug)]
        pub struct $t(pub u64);
        impl Zeta for $t { fn zeta(&self) -> u64 { self.0 * 10 + 1 } }
        impl Omega for $t { fn omega(&self) -> u64 { self.0 * 10 + 2 } }
        cglue_impl_group!($t, Gz, { $($en),* });
    };
}
zimp!(ZBoth, { Debug, Omega });
zimp!(ZDebug, { Debug });
zimp!(ZOmega, { Omega });
zimp!(ZNone, {});
macro_rules! mixed_layout {
    ($fname:ident, $t:ident, $has_debug:expr, $has_omega:expr, $ctx:expr) => {
        pub fn $fname() -> Result<u64, (String, String)> {
            use cglue::ext::core::clone::CloneVtblGet;
            use cglue::ext::core::fmt::DebugVtblGet;
            let what = format!("layout of group Gz {{Clone, Zeta}} + {{Debug, Omega}} built from {} ({} context)", stringify!($t), if $ctx { "CArc" } else { "no" });
            let arc = ::std::sync::Arc::new(5u64);
            let mut words: Vec<usize>;
            let (clone_v, zeta_v): (usize, usize);
            let mut debug_v = 0usize;
            let mut omega_v = 0usize;
            macro_rules! body {
                ($g:ident) => {{
                    words = words_of(&$g);
                    clone_v = CloneVtblGet::get_vtbl(&$g) as *const _ as usize;
                    zeta_v = ZetaVtblGet::get_vtbl(&$g) as *const _ as usize;
                    if $g.zeta() != 71 { return Err(("layout:dispatch".into(), format!("{}: mandatory trait not callable", what))); }
                    // one trait at a time: the check does not depend on the name of a combined conversion
                    let mut g = $g;
                    if $has_debug {
                        let c = match cast!(g impl Debug) { Some(c) => c, None => return Err(("layout:cast".into(), format!("{}: cast to Debug failed", what))) };
                        debug_v = DebugVtblGet::get_vtbl(&c) as *const _ as usize;
                        if words_of(&c) != words { return Err(("layout:cast_bits".into(), format!("{}: cast changed the bit pattern of the object", what))); }
                        g = c.upcast();
                    }
                    if $has_omega {
                        let c = match cast!(g impl Omega) { Some(c) => c, None => return Err(("layout:cast".into(), format!("{}: cast to Omega failed", what))) };
                        omega_v = OmegaVtblGet::get_vtbl(&c) as *const _ as usize;
                        if c.omega() != 72 { return Err(("layout:dispatch".into(), format!("{}: Omega not callable", what))); }
                        if words_of(&c) != words { return Err(("layout:cast_bits".into(), format!("{}: cast changed the bit pattern of the object", what))); }
                        g = c.upcast();
                    }
                    if words_of(&g) != words { return Err(("layout:upcast_bits".into(), format!("{}: upcast changed the bit pattern of the object", what))); }
                    drop(g);
                }};
            }
            if $ctx {
                let g = group_obj!(($t(7), cglue::arc::CArc::<u64>::from(arc.clone())) as Gz);
                body!(g);
            } else {
                let g = group_obj!($t(7) as Gz);
                body!(g);
            }
            let total = 4 + 2 + if $ctx { 3 } else { 0 };
            if words.len() != total { return Err(("layout:size".into(), format!("{}: object is {} words, expected {} (4 vtable pointers + instance + context)", what, words.len(), total))); }
            if clone_v == zeta_v || clone_v == 0 || zeta_v == 0 { return Err(("layout:vtbl_missing".into(), format!("{}: mandatory vtables not distinct", what))); }
            if (words[0], words[1]) != (clone_v, zeta_v) {
                return Err(("layout:vtbl_order".into(), format!("{}: the mandatory vtable pointers are not in name order [Clone, Zeta] (words {:#x} {:#x}; Clone {:#x}, Zeta {:#x})", what, words[0], words[1], clone_v, zeta_v)));
            }
            if (words[2], words[3]) != (debug_v, omega_v) {
                return Err(("layout:vtbl_order".into(), format!("{}: the optional vtable pointers are not [Debug, Omega] in name order, null when not enabled (words {:#x} {:#x}; Debug {:#x}, Omega {:#x})", what, words[2], words[3], debug_v, omega_v)));
            }
            if words[4] == 0 || words[5] == 0 { return Err(("layout:instance".into(), format!("{}: the words after the vtable pointers are not the CBox", what))); }
            if $ctx && (words[6] != ::std::sync::Arc::as_ptr(&arc) as usize || words[7] == 0 || words[8] == 0) { return Err(("layout:context".into(), format!("{}: the context does not follow the instance", what))); }
            Ok(digest(&(words.len(), $has_debug, $has_omega)))
        }
    };
}
mixed_layout!(layout_gz_both_box_noctx, ZBoth, true, true, false);
mixed_layout!(layout_gz_both_box_arc, ZBoth, true, true, true);
mixed_layout!(layout_gz_debug_box_noctx, ZDebug, true, false, false);
mixed_layout!(layout_gz_debug_box_arc, ZDebug, true, false, true);
mixed_layout!(layout_gz_omega_box_noctx, ZOmega, false, true, false);
mixed_layout!(layout_gz_omega_box_arc, ZOmega, false, true, true);
mixed_layout!(layout_gz_none_box_noctx, ZNone, false, false, false);
mixed_layout!(layout_gz_none_box_arc, ZNone, false, false, true);
'''
MIXED_LAYOUTS = [('layout_gz_both_box_noctx', 'Gz', ['Debug', 'Omega'], 'Box', False), ('layout_gz_both_box_arc', 'Gz', ['Debug', 'Omega'], 'Box', True), ('layout_gz_debug_box_noctx', 'Gz', ['Debug'], 'Box', False), ('layout_gz_debug_box_arc', 'Gz', ['Debug'], 'Box', True), ('layout_gz_omega_box_noctx', 'Gz', ['Omega'], 'Box', False), ('layout_gz_omega_box_arc', 'Gz', ['Omega'], 'Box', True), ('layout_gz_none_box_noctx', 'Gz', [], 'Box', False), ('layout_gz_none_box_arc', 'Gz', [], 'Box', True)]


def family_crate(out_dir, crate, gname, mandatory_list, optional, aliases=None, containers=("Box", "Mut", "Ref"), fwd_of=None, extra=None):
    cells, layouts = [], []
    mand = mandatory_list[0] if len(mandatory_list) == 1 else None
    parts = ["// @generated by gen/groups_gen.py — do not edit",
             "#![allow(unused_variables, unused_mut, unused_assignments, dead_code, clippy::all)]",
             "use h_objbase::support::*;", "use cglue::*;", "use cglue_macro::check;", CELL_STRUCT, trait_defs()]
    if len(mandatory_list) <= 1:
        parts.append(emit_family(gname, mand, optional, cells, aliases=aliases, containers=containers, fwd_of=fwd_of))
    else:
        # several mandatory traits, declared out of name order (layout only; the cast cells use the first)
        parts.append(emit_family(gname, "{ %s }" % ", ".join(mandatory_list), optional, cells, aliases=aliases, containers=containers, mand_call=mandatory_list[0]))
    parts.append(emit_layout(gname, mandatory_list, optional, layouts, containers))
    if extra:
        parts.append(extra[0])
        cells.extend(extra[1])
        if len(extra) > 2:
            layouts.extend(extra[2])
    reg = ["pub fn cells() -> Vec<Cell> {", "    vec!["]
    for (fname, g, en, req, cont, op, expect) in cells:
        reg.append("        Cell { name: \"%s\", group: \"%s\", enabled: \"%s\", requested: \"%s\", container: \"%s\", op: \"%s\", expect: %s, run: %s }," % (
            fname, g, "+".join(en), "+".join(req), cont, op, str(expect).lower(), fname))
    reg.append("    ]")
    reg.append("}")
    reg.append("pub fn layouts() -> Vec<LayoutCell> {")
    reg.append("    vec![")
    for (fname, g, en, cont, ctx) in layouts:
        reg.append("        LayoutCell { name: \"%s\", group: \"%s\", enabled: \"%s\", container: \"%s\", context: %s, run: %s }," % (fname, g, "+".join(en), cont, str(ctx).lower(), fname))
    reg.append("    ]")
    reg.append("}")
    write_if_changed(os.path.join(out_dir, crate, "Cargo.toml"), FAM_TOML % crate)
    write_if_changed(os.path.join(out_dir, crate, "src", "lib.rs"), "\n".join(parts) + "\n" + "\n".join(reg) + "\n")
    return len(cells), len(layouts)


def main():
    out_dir = sys.argv[1]
    tot = [0, 0]

    def add(r):
        tot[0] += r[0]
        tot[1] += r[1]
    for n in range(1, 5):
        add(family_crate(out_dir, "hg_gn%d" % n, "Gn%d" % n, ["Gm"], OPT[:n]))
    add(family_crate(out_dir, "hg_gopt", "Gopt", [], OPT[:2], extra=(SELFRET_SRC + HANDFILL_SRC, SELFRET_CELLS + HANDFILL_CELLS)))
    add(family_crate(out_dir, "hg_gali", "Gali", ["Gm"], ["TtUsize", "TtU64"], aliases={"TtUsize": "Tt<usize> = TtUsize", "TtU64": "Tt<u64> = TtU64"}))
    add(family_crate(out_dir, "hg_gmut", "Gmut", ["Hm"], MOPT, containers=("Box", "Mut")))
    # mandatory and optional traits declared out of name order
    add(family_crate(out_dir, "hg_gord", "Gord", ["Mb", "Ma"], ["Ob", "Oa"]))
    # trait names whose case-sensitive order differs from the case-folded one
    add(family_crate(out_dir, "hg_gcase", "Gcase", ["Gm"], ["Tag", "TLB", "KeyDumper", "KVStore"][:3], extra=(MIXED_SRC, [], MIXED_LAYOUTS)))
    # 4-argument cglue_impl_group!: the Fwd<&mut T> wrapper enables a strict subset (all but the last) of what the type enables
    add(family_crate(out_dir, "hg_gfwd", "Gfwd", ["Fm"], ["Fa", "Fb"], fwd_of=lambda en: en[:-1], extra=(IMPLSYNTAX_SRC, IMPLSYNTAX_CELLS)))
    print("generated %d cast cells, %d layout cells" % tuple(tot))


if __name__ == "__main__":
    main()
