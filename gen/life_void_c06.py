"""C06 under the cglue feature `rust_void`: the same lifecycle harness (engine/h_life), built in the separate workspace
/verif/engine_void against cglue with `rust_void` (the opaque instance type is `()` - zero-sized, no destructor - instead of
the 1-byte c_void enum), so that every path that decides by the size or drop glue of the ERASED type is exercised.

    run(prop, tier, replay, Ctx) -> ("report", dict) | ("replay", rc)
"""
import json
import os
import shutil
import subprocess
import time


def _build(Ctx):
    ws = os.path.join(Ctx.ROOT, "engine_void")
    target = os.path.join(Ctx.BUILD, "target-void")
    lock = os.path.join(ws, "Cargo.lock")
    if not os.path.exists(lock):
        shutil.copyfile(os.path.join(Ctx.ENGINE, "Cargo.lock"), lock)
    env = dict(Ctx.ENV)
    env["CARGO_TARGET_DIR"] = target
    env["CARGO_NET_OFFLINE"] = "true"
    t0 = time.time()
    for attempt in (0, 1):
        p = subprocess.run(["cargo", "build", "--offline", "--release", "-p", "h_life_void"], cwd=ws, env=env, stdout=subprocess.PIPE, stderr=subprocess.STDOUT, text=True)
        if p.returncode == 0:
            break
        if attempt == 0 and ("failed to select a version" in p.stdout or "lock file" in p.stdout):
            shutil.copyfile(os.path.join(Ctx.ENGINE, "Cargo.lock"), lock)
            continue
        Ctx.log(p.stdout[-4000:])
        raise Ctx.Machinery("cargo build of h_life_void (cglue feature rust_void) failed")
    Ctx.log("[build] h_life_void (rust_void) ok (%.1fs)" % (time.time() - t0))
    return os.path.join(target, "release", "h_life_void"), env


def run(prop, tier, replay, Ctx):
    exe, env = _build(Ctx)
    if replay is not None:
        tmp = replay + ".void"
        with open(replay) as f:
            rec = json.load(f)
        rec["section"] = rec.get("section", "").replace("@rust_void", "")
        with open(tmp, "w") as f:
            json.dump(rec, f)
        try:
            p = subprocess.run([exe, "--property", prop, "--replay", tmp], env=env)
        finally:
            os.remove(tmp)
        return ("replay", p.returncode if p.returncode in (0, 1) else 2)
    rep_dir = os.path.join(Ctx.BUILD, "reports")
    os.makedirs(rep_dir, exist_ok=True)
    out = os.path.join(rep_dir, "%s-h_life_void.json" % prop)
    if os.path.exists(out):
        os.remove(out)
    p = subprocess.run([exe, "--property", prop, "--tier", tier, "--out", out], env=env)
    if p.returncode != 0 or not os.path.exists(out):
        raise Ctx.Machinery("h_life_void exited with %s and no report" % p.returncode)
    with open(out, encoding="utf-8", errors="replace") as f:
        rep = json.load(f)
    # the sections are the same as those of the default-feature run: tag them
    for s in rep["coverage"].get("sections", []):
        s["section"] = s["section"] + "@rust_void"
    for v in rep.get("violation_records", []):
        v["section"] = str(v.get("section")) + "@rust_void"
        v["engine"] = "life_void_c06"
    for smp in rep["coverage"].get("samples", []):
        if isinstance(smp, dict) and "section" in smp:
            smp["section"] = smp["section"] + "@rust_void"
    rep["coverage"]["rule"] = "[cglue built with feature rust_void] " + rep["coverage"].get("rule", "")
    return ("report", rep)
