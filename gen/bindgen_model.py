"""The API model of the bindgen checks (C17, C18) and its enumerators.

A *model* is plain JSON:

  {"traits":    [{"name": "Alpha", "methods": [{"name": "alpha_get", "recv": "ref|mut|own", "args": [<kind>...],
                                                "ret": "void|u64|bool|s3|self"}],
                  "wrapped": {"group": G, "methods": ["borrow","into","get_mut","get_ref"]}   # C18 only
                 }],
   "groups":    [{"name": "Bundle", "mandatory": [trait...], "optional": [trait...]}],
   "instances": [{"kind": "obj", "trait": T, "cont": "Box|Mut|Ref", "ctx": "none|arc|<custom context name>"} |
                 {"kind": "group", "group": G, "cont": ..., "ctx": ...}],     # one exported function per instance
   "custom_contexts": ["MyCtx", ...], "foreign": [<FOREIGN_KINDS>...], "foreign_first": bool,
   "root_style": "uninit|ptr", "cpp_compat": bool, "guard": "NAME"|None}

A *case* adds the language and the tool configuration:  {"model": M, "lang": "c|cpp", "config": None | {...}}
(C18 cases also carry "layout": one of bindgen_tool.ARG_LAYOUTS).

Argument kinds: scalars u8 u64 i32 usize bool; s3 (by-value #[repr(C)] struct); slice (CSliceRef<u8>);
cb (OpaqueCallback<S3>, the callback shape of examples/plugin-api); ptr_const (*const u8); ptr_mut (&mut S3);
extended kinds, enumerated separately because the tool is expected to mishandle them:
cb_u64 (OpaqueCallback<u64>: callback over a primitive), fnptr (extern "C" fn(u64) -> u64).
"""
import copy
import itertools

SCALAR_KINDS = ["u8", "u64", "i32", "usize", "bool"]
BASE_KINDS = ["u64", "s3", "slice", "cb", "ptr_const", "ptr_mut", "bool"]
ALL_BASE_KINDS = ["u8", "u64", "i32", "usize", "bool", "s3", "slice", "cb", "ptr_const", "ptr_mut"]
EXT_KINDS = ["cb_u64", "fnptr"]
GENERIC_KINDS = ["pair"]  # Pair<CSliceRef<u8>, usize>: a by-value user struct with two type parameters
MORE_CB_KINDS = ["cb_p2", "cb_p3"]  # OpaqueCallback<Point2>, OpaqueCallback<Addr>: further struct element types
RECVS = ["ref", "mut", "own"]
RETS = ["void", "u64", "bool", "s3", "self", "vptr", "cvptr"]  # vptr/cvptr: raw `void *` / `const void *` results
CONTS = ["Box", "Mut", "Ref"]
CTXS = ["none", "arc"]
TRAIT_NAMES = ["Alpha", "Beta", "Gamma", "Delta"]
GROUP_NAMES = ["Bundle", "Kit"]

CONFIG_CONTAINERS = [None, "Box", "Mut", "Ref"]
CONFIG_CONTEXTS = [None, "Arc", "NoContext"]
CONFIG_PREFIXES = [None, "cg"]


def all_configs():
    """None (no -c option at all) + every combination of the three keys (each present or absent)."""
    out = [None]
    for c, x, p in itertools.product(CONFIG_CONTAINERS, CONFIG_CONTEXTS, CONFIG_PREFIXES):
        out.append({"default_container": c, "default_context": x, "function_prefix": p})
    return out


def meth(name, recv="ref", args=(), ret="void"):
    return {"name": name, "recv": recv, "args": list(args), "ret": ret}


def trait(name, methods, wrapped=None):
    t = {"name": name, "methods": list(methods)}
    if wrapped:
        t["wrapped"] = wrapped
    return t


def obj(t, cont="Box", ctx="arc"):
    return {"kind": "obj", "trait": t, "cont": cont, "ctx": ctx}


def grp(g, cont="Box", ctx="arc"):
    return {"kind": "group", "group": g, "cont": cont, "ctx": ctx}


def model(traits, groups=(), instances=(), **kw):
    m = {"traits": list(traits), "groups": list(groups), "instances": list(instances)}
    m.update(kw)
    return m


def baseline():
    """2 traits, 1 group (Alpha mandatory, Beta optional), an Alpha object and a Bundle group over Box + CArc."""
    alpha = trait("Alpha", [meth("alpha_get", "ref", ["u64"], "u64"), meth("alpha_set", "mut", ["u64", "s3"], "void")])
    beta = trait("Beta", [meth("beta_sum", "ref", ["slice"], "u64"), meth("beta_into", "own", [], "u64")])
    return model([alpha, beta], [{"name": "Bundle", "mandatory": ["Alpha"], "optional": ["Beta"]}],
                 [obj("Alpha"), obj("Beta"), grp("Bundle")])


def single(m, cont="Box", ctx="arc", form="obj", extra=()):
    """One trait Alpha with the given methods, exposed as object / sole mandatory trait of a group / optional trait next to Beta."""
    a = trait("Alpha", list(m))
    if form == "obj":
        return model([a], [], [obj("Alpha", cont, ctx)] + list(extra))
    if form == "gmand":
        return model([a], [{"name": "Bundle", "mandatory": ["Alpha"], "optional": []}], [grp("Bundle", cont, ctx)] + list(extra))
    if form == "gopt":
        b = trait("Beta", [meth("beta_ping", "ref", [], "void")])
        return model([a, b], [{"name": "Bundle", "mandatory": ["Beta"], "optional": ["Alpha"]}], [grp("Bundle", cont, ctx)] + list(extra))
    if form in ("gfirst", "gmid", "glast"):
        # 3-trait group `Trio`; vtable order is mandatory (sorted) then optional (sorted): Alpha sits first / in the middle / last
        lead = trait("Aaa", [meth("aaa_ping", "ref", ["u64"], "u64")])
        tail = trait("Zed", [meth("zed_sum", "ref", ["u64", "u64"], "u64")])
        mand, opt = {"gfirst": (["Alpha"], ["Aaa", "Zed"]), "gmid": (["Aaa", "Alpha"], ["Zed"]), "glast": (["Aaa", "Zed"], ["Alpha"])}[form]
        return model([a, lead, tail], [{"name": "Trio", "mandatory": mand, "optional": opt}], [grp("Trio", cont, ctx)] + list(extra))
    raise ValueError(form)


def needs_filler(m):
    """True when the header would lack a single-trait object over Box + CArc (so no CBox_c_void / CArc_c_void / CGlueTraitObj in it)."""
    return not any(i["kind"] == "obj" and i["cont"] == "Box" and i["ctx"] == "arc" for i in m["instances"])


def with_filler(m):
    """Add an unrelated trait object over Box + CArc. Several tool defects are triggered by headers that lack such an object
    (helpers emitted for absent types); the filler variant lets the remaining oracle clauses run on those shapes too."""
    m = copy.deepcopy(m)
    m["traits"] = m["traits"] + [trait("Filler", [meth("filler_ping", "ref", [], "void")])]
    m["instances"] = [obj("Filler", "Box", "arc")] + m["instances"]
    return m


def shape(case):
    """Short stable description used in signatures/notes (no enumeration indices)."""
    m = case["model"]
    inst = ",".join("%s:%s%s" % (i["kind"][0], i["cont"], "" if i["ctx"] == "none" else "+" + i["ctx"]) for i in m["instances"])
    return "%s|t%d g%d|%s" % (case["lang"], len(m["traits"]), len(m.get("groups", [])), inst)


# ------------------------------------------------------------------------------------------ C17 enumerators

LONG_ARGLISTS = [
    ["u64", "s3", "slice"], ["cb", "ptr_mut", "bool"], ["u64", "u64", "u64"], ["ptr_const", "u8", "usize"],
    ["u64", "s3", "slice", "ptr_const"], ["cb", "ptr_mut", "bool", "i32"], ["u64", "u64", "u64", "u64"], ["slice", "slice", "s3", "s3"],
    ["cb", "cb_p2"], ["cb_p3", "cb", "cb_p2"],
]


def arglists_thorough():
    """all argument lists of length <= 2 over the 10 base kinds (111) + the 8 long lists"""
    out = [[]]
    for k in ALL_BASE_KINDS:
        out.append([k])
    for a, b in itertools.product(ALL_BASE_KINDS, ALL_BASE_KINDS):
        out.append([a, b])
    return out + LONG_ARGLISTS


def c17_quick_models():
    """One-factor-at-a-time slice around baseline(); every entry is (factor label, model)."""
    out = [("baseline", baseline())]
    # F1 argument lists: every kind alone, 0..4 arguments, mixed and same-typed long lists
    for k in ALL_BASE_KINDS + EXT_KINDS + MORE_CB_KINDS + GENERIC_KINDS:
        out.append(("arg:" + k, single([meth("alpha_call", "ref", [k], "u64")])))
    out.append(("args:pair_mid", single([meth("alpha_call", "mut", ["u64", "pair", "slice"], "u64")])))
    for al in [[]] + LONG_ARGLISTS:
        out.append(("args:%d" % len(al), single([meth("alpha_call", "mut", al, "u64")])))
    # F2 receiver x return
    for r, t in itertools.product(RECVS, RETS):
        out.append(("recv_ret:%s:%s" % (r, t), single([meth("alpha_call", r, ["u64"], t)])))
    # F3 container x context, object and group
    for form in ("obj", "gmand"):
        for c, x in itertools.product(CONTS, CTXS):
            ms = [meth("alpha_get", "ref", ["u64"], "u64"), meth("alpha_set", "mut", ["s3"], "void"), meth("alpha_into", "own", ["u64"], "u64")]
            out.append(("inst:%s:%s:%s" % (form, c, x), single(ms, c, x, form)))
    # F4 several (container, context) variants of one trait / group in one header (+ Self-returning entry)
    ms = [meth("alpha_get", "ref", ["u64"], "u64"), meth("alpha_into", "own", [], "u64")]
    out.append(("variants:obj", single(ms, "Box", "arc", "obj", [obj("Alpha", "Mut", "none"), obj("Alpha", "Ref", "arc")])))
    out.append(("variants:group", single(ms, "Box", "arc", "gmand", [grp("Bundle", "Mut", "none"), grp("Bundle", "Box", "none")])))
    msc = [meth("alpha_get", "ref", ["u64"], "u64"), meth("alpha_dup", "ref", [], "self")]
    # second variants of a Self-returning entry are Box containers with another context: an object over a borrowed
    # container cannot implement a Self-returning method at all (the Rust side cannot build that vtable)
    out.append(("variants:obj:self", single(msc, "Box", "arc", "obj", [obj("Alpha", "Box", "none")])))
    out.append(("variants:group:self", single(msc, "Box", "arc", "gmand", [grp("Bundle", "Box", "none")])))
    # F5 number of traits / groups, group composition
    tr = [trait(n, [meth(n.lower() + "_get", "ref", ["u64"], "u64"), meth(n.lower() + "_put", "mut", ["s3"], "void")]) for n in TRAIT_NAMES]
    for nt in (1, 2, 3, 4):
        out.append(("traits:%d" % nt, model(tr[:nt], [], [obj(t["name"]) for t in tr[:nt]])))
    out.append(("groups:1:mand_only", model(tr[:2], [{"name": "Bundle", "mandatory": ["Alpha", "Beta"], "optional": []}], [grp("Bundle")])))
    out.append(("groups:1:opt_only", model(tr[:2], [{"name": "Bundle", "mandatory": [], "optional": ["Alpha", "Beta"]}], [grp("Bundle")])))
    out.append(("groups:1:2+2", model(tr, [{"name": "Bundle", "mandatory": ["Beta", "Alpha"], "optional": ["Delta", "Gamma"]}], [grp("Bundle"), obj("Gamma")])))
    out.append(("groups:2", model(tr, [{"name": "Bundle", "mandatory": ["Alpha"], "optional": ["Beta"]},
                                       {"name": "Kit", "mandatory": ["Gamma"], "optional": ["Alpha", "Delta"]}],
                                  [grp("Bundle"), grp("Kit", "Mut", "none"), obj("Delta", "Ref", "none")])))
    # F6 a method name shared by two traits
    ca = trait("Alpha", [meth("get", "ref", ["u64"], "u64"), meth("alpha_only", "mut", [], "void")])
    cb = trait("Beta", [meth("get", "ref", ["s3"], "u64"), meth("beta_only", "ref", [], "void")])
    out.append(("clash:objs", model([ca, cb], [], [obj("Alpha"), obj("Beta")])))
    out.append(("clash:group", model([ca, cb], [{"name": "Bundle", "mandatory": ["Alpha"], "optional": ["Beta"]}], [grp("Bundle")])))
    out.append(("clash:both", model([ca, cb], [{"name": "Bundle", "mandatory": ["Alpha", "Beta"], "optional": []}], [obj("Alpha"), obj("Beta"), grp("Bundle")])))
    # F6b a trait's own consuming method is called `drop` (clashes with the synthesised `<obj>_drop` helper)
    dm = [meth("alpha_get", "ref", ["u64"], "u64"), meth("drop", "own", [], "void")]
    for c, x in (("Box", "arc"), ("Box", "none"), ("Mut", "arc")):
        out.append(("clash:drop_method:%s:%s" % (c, x), single(dm, c, x, "obj")))
    out.append(("clash:drop_method:group", single(dm, "Box", "arc", "gmand")))
    # F7 one trait name is a suffix / prefix of another
    s1 = trait("Store", [meth("store_put", "mut", ["u64"], "void")])
    s2 = trait("KeyStore", [meth("key_get", "ref", ["slice"], "u64")])
    s3_ = trait("StoreExt", [meth("ext_len", "ref", [], "u64")])
    out.append(("names:nested", model([s1, s2, s3_], [{"name": "Bundle", "mandatory": ["Store"], "optional": ["KeyStore", "StoreExt"]}],
                                      [obj("Store"), obj("KeyStore"), obj("StoreExt"), grp("Bundle")])))
    # F7b names that themselves end in a word the generated type names are built from
    for gname in ("KitContainer", "KitContainerContainer", "VtblKit"):
        out.append(("names:group:%s" % gname, model(tr[:2], [{"name": gname, "mandatory": ["Alpha"], "optional": ["Beta"]}], [grp(gname), obj("Alpha")])))
    # ... and a trait name with a non-ASCII capital: the generated member names use the Unicode lower-case form (vtbl_échelle)
    for tname in ("StoreVtbl", "StoreContainer", "CGlueStore", "Échelle"):
        tt = trait(tname, [meth("store_put", "mut", ["u64"], "void"), meth("store_take", "own", [], "u64")])
        out.append(("names:trait:%s" % tname, model([tt, tr[0]], [{"name": "Bundle", "mandatory": ["Alpha"], "optional": [tname]}], [obj(tname), grp("Bundle")])))
    # F7c argument names that resemble the generator's own words: a pointer argument whose name starts with `cont` next to the
    #     by-value container of a consuming entry, arguments named like members of the generated C++ classes
    for names in (["control", "context_id"], ["container", "vtbl"], ["cont_ptr", "instance"]):
        cm = dict(meth("alpha_close", "own", ["ptr_mut", "u64"], "u64"), arg_names=names)
        gm = dict(meth("alpha_get", "ref", ["ptr_mut", "u64"], "u64"), arg_names=names)
        for c, x in (("Box", "arc"), ("Box", "none")):
            out.append(("names:args:%s:%s:%s" % ("+".join(names), c, x), single([gm, cm], c, x, "obj")))
        out.append(("names:args:%s:group" % "+".join(names), single([gm, cm], "Box", "arc", "gmand")))
    # F8 Self-returning entry (clone) as object and inside a group
    cl = [meth("alpha_get", "ref", ["u64"], "u64"), meth("alpha_dup", "ref", [], "self")]
    for form in ("obj", "gmand", "gopt"):
        for c, x in (("Box", "arc"), ("Box", "none"), ("Mut", "arc")):
            out.append(("selfret:%s:%s:%s" % (form, c, x), single(cl, c, x, form)))
    # F8b Self-returning entry in the first / middle / last vtable of a 3-trait group (the returned object must carry ALL vtables)
    for form in ("gfirst", "gmid", "glast"):
        for c, x in (("Box", "arc"), ("Mut", "arc")):
            out.append(("selfret:%s:%s:%s" % (form, c, x), single(cl, c, x, form)))
    two = [trait("Alpha", [meth("alpha_get", "ref", ["u64"], "u64"), meth("alpha_dup", "ref", [], "self")]),
           trait("Beta", [meth("beta_get", "ref", ["s3"], "u64"), meth("beta_dup", "ref", [], "self")]),
           trait("Gamma", [meth("gamma_get", "mut", ["slice"], "u64")])]
    out.append(("selfret:trio:two_dups", model(two, [{"name": "Trio", "mandatory": ["Alpha"], "optional": ["Beta", "Gamma"]}], [grp("Trio"), obj("Alpha")])))
    # F1b several distinct callback element types in one header
    out.append(("cbtypes:2:one_method", single([meth("alpha_each", "ref", ["cb", "cb_p2"], "void")])))
    out.append(("cbtypes:3:one_method", single([meth("alpha_each", "ref", ["cb", "cb_p2", "cb_p3"], "u64")])))
    out.append(("cbtypes:3:methods", single([meth("alpha_a", "ref", ["cb_p3"], "void"), meth("alpha_b", "mut", ["cb"], "void"), meth("alpha_c", "ref", ["u64", "cb_p2"], "u64")])))
    # F9 header-level switches
    b = baseline()
    for k, v in (("root_style", "ptr"), ("cpp_compat", False), ("guard", "DEMO_BINDINGS_H")):
        m = copy.deepcopy(b)
        m[k] = v
        out.append(("hdr:%s" % k, m))
    # F9b over-long function-pointer fields laid out one argument per line
    for label, m0 in (("baseline", b), ("args4", single([meth("alpha_call", "mut", ["u64", "s3", "slice", "ptr_const"], "u64"), meth("alpha_get", "ref", ["u64"], "u64"), meth("alpha_take", "own", ["cb", "slice"], "u64")])),
                      ("group", model(tr[:2], [{"name": "Bundle", "mandatory": ["Alpha"], "optional": ["Beta"]}], [grp("Bundle"), obj("Alpha")]))):
        m = copy.deepcopy(m0)
        m["fnptr_layout"] = "vertical"
        out.append(("hdr:fnptr_vertical:%s" % label, m))
    return out


def c17_slice_models():
    """c17_quick_models() plus, for every model without a Box+CArc trait object, the same model with the filler object."""
    out = []
    for label, m in c17_quick_models():
        out.append((label, m))
        if needs_filler(m):
            out.append((label + "+filler", with_filler(m)))
    return out


def c17_quick_configs():
    """each key alone, the matching pair, everything."""
    return [
        {"default_container": "Box", "default_context": None, "function_prefix": None},
        {"default_container": None, "default_context": "Arc", "function_prefix": None},
        {"default_container": None, "default_context": None, "function_prefix": "cg"},
        {"default_container": "Box", "default_context": "Arc", "function_prefix": None},
        {"default_container": "Box", "default_context": "NoContext", "function_prefix": None},
        {"default_container": "Mut", "default_context": "Arc", "function_prefix": "cg"},
        {"default_container": "Box", "default_context": "Arc", "function_prefix": "cg"},
    ]


def config_model():
    """Objects and groups over Box+arc, Box+none and Mut+arc in one header: every default-(container, context) choice matches some, not all."""
    ms = [meth("alpha_get", "ref", ["u64"], "u64"), meth("alpha_into", "own", ["u64"], "u64")]
    a = trait("Alpha", ms)
    b = trait("Beta", [meth("beta_ping", "mut", [], "void")])
    return model([a, b], [{"name": "Bundle", "mandatory": ["Alpha"], "optional": ["Beta"]}],
                 [obj("Alpha", "Box", "arc"), obj("Alpha", "Box", "none"), obj("Alpha", "Mut", "arc"),
                  grp("Bundle", "Box", "arc"), grp("Bundle", "Box", "none"), grp("Bundle", "Mut", "arc")])


def c17_cases(tier):
    """-> list of (section, label, case)"""
    cases = []
    for label, m in c17_slice_models():
        for lang in ("c", "cpp"):
            if lang == "cpp" and label == "hdr:cpp_compat":
                continue
            cases.append(("slice", label, {"model": m, "lang": lang, "config": None, "label": label}))
    for cfg in (c17_quick_configs() if tier == "quick" else all_configs()[1:]):
        for lang in ("c", "cpp"):
            cases.append(("config", "config", {"model": config_model(), "lang": lang, "config": cfg, "label": "config"}))
    if tier == "quick":
        return cases
    # thorough: the full product recv x ret x arglist, packed 5 entries per vtable, x container x context x form
    sigs = [(r, t, al) for r in RECVS for t in RETS for al in arglists_thorough()]
    packs = [sigs[i:i + 5] for i in range(0, len(sigs), 5)]
    for pi, pack in enumerate(packs):
        ms = [meth("m%d_%s" % (j, r), r, al, t) for j, (r, t, al) in enumerate(pack)]
        for c, x, form in itertools.product(CONTS, CTXS, ("obj", "gmand", "gopt", "gmid")):
            for lang in ("c", "cpp"):
                m = single(ms, c, x, form)
                if needs_filler(m):
                    m = with_filler(m)
                cases.append(("signatures", "sig", {"model": m, "lang": lang, "config": None, "label": "sig"}))
    # thorough: structure product traits(1..4) x groups(0..2) x clash x second variant x config subset
    tr_plain = [trait(n, [meth(n.lower() + "_get", "ref", ["u64"], "u64"), meth(n.lower() + "_take", "own", [], "u64")]) for n in TRAIT_NAMES]
    tr_clash = [trait(n, [meth("get", "ref", ["u64"], "u64"), meth(n.lower() + "_take", "own", [], "u64")]) for n in TRAIT_NAMES]
    for nt, ng, clash, second, cfg in itertools.product((1, 2, 3, 4), (0, 1, 2), (False, True), (False, True), all_configs()):
        trs = (tr_clash if clash else tr_plain)[:nt]
        names = [t["name"] for t in trs]
        groups = []
        if ng >= 1:
            groups.append({"name": "Bundle", "mandatory": names[:1], "optional": names[1:]})
        if ng >= 2:
            groups.append({"name": "Kit", "mandatory": names[-1:], "optional": names[:-1]})
        inst = [obj(n) for n in names] + [grp(g["name"]) for g in groups]
        if second:
            inst += [obj(names[0], "Mut", "none")] + [grp(g["name"], "Ref", "none") for g in groups]
        for lang in ("c", "cpp"):
            cases.append(("structure", "structure", {"model": model(trs, groups, inst), "lang": lang, "config": cfg, "label": "structure"}))
    return cases


# ------------------------------------------------------------------------------------------ C18 enumerators

WRAPPED_SETS = [["borrow"], ["into"], ["get_mut"], ["get_ref"], ["borrow", "into", "get_mut"], ["borrow", "into", "get_mut", "get_ref"]]
CONTEXT_SETS = [["arc"], ["arc", "MyCtx"], ["arc", "MyCtx", "OtherCtx"], ["MyCtx", "OtherCtx"], ["none", "arc"], ["none", "MyCtx"]]
ALL_FOREIGN = ["vtblthing", "rettmp_like", "ctx_suffix", "tagged", "func"]


def wrapped_model(ctxs, wrapped, cont="Box", foreign=(), extra_plain=True, host_name="Host", **kw):
    """The PluginInner shape: trait Host whose associated types are wrapped with group Bundle (Alpha mandatory, Beta optional),
    one Host object per context in `ctxs`. `wrapped` = list of wrapped method kinds or None (plain trait)."""
    alpha = trait("Alpha", [meth("alpha_get", "ref", ["u64"], "u64")])
    beta = trait("Beta", [meth("beta_set", "mut", ["slice", "usize"], "void"), meth("beta_dup", "ref", [], "self")])
    host_methods = [meth("host_id", "ref", [], "u64")] if extra_plain else []
    host = trait(host_name, host_methods, {"group": "Bundle", "methods": list(wrapped)} if wrapped else None)
    customs = [c for c in ctxs if c not in ("none", "arc")]
    inst = [obj(host_name, cont, c) for c in ctxs]
    if not wrapped:
        inst += [grp("Bundle", cont, c) for c in ctxs]
    m = model([host, alpha, beta], [{"name": "Bundle", "mandatory": ["Alpha"], "optional": ["Beta"]}], inst,
              custom_contexts=customs, foreign=list(foreign))
    m.update(kw)
    return m


def foreign_subsets():
    out = []
    for n in range(len(ALL_FOREIGN) + 1):
        for s in itertools.combinations(ALL_FOREIGN, n):
            out.append(list(s))
    return out


def c18_cases(tier):
    """-> list of (section, label, case); case = {"model","lang","config","layout"}"""
    cases = []

    def add(section, label, m, lang, cfg=None, layout="output_last"):
        cases.append((section, label, {"model": m, "lang": lang, "config": cfg, "layout": layout, "label": label}))
    langs = ("c", "cpp")
    quick = tier == "quick"
    # S1 the C17 one-factor slice: self-contained + reproducible
    for label, m in c17_slice_models():
        for lang in langs:
            if lang == "cpp" and label == "hdr:cpp_compat":
                continue
            add("c17_slice", label, m, lang)
    # S2 several contexts x wrapped-return structs (monomorphisation, re-ordering)
    wsets = [None] + WRAPPED_SETS
    for ctxs, w in itertools.product(CONTEXT_SETS, wsets):
        conts = ["Box"] if quick else ["Box", "Mut"]
        for cont in conts:
            for fo in ([[]] if quick else [[], ALL_FOREIGN]):
                for lang in langs:
                    add("contexts", "ctx%d:%s" % (len(ctxs), "+".join(w) if w else "plain"), wrapped_model(ctxs, w, cont, fo), lang)
    # S2a a trait WITHOUT temporary storage whose name is a suffix of a trait WITH temporary storage (Host / PluginHost), same context
    for w in (["get_mut"], ["borrow", "into", "get_mut", "get_ref"]):
        wm = wrapped_model(["arc"], w, host_name="PluginHost")
        wm["traits"].append(trait("Host", [meth("host_ping", "ref", [], "void")]))
        wm["instances"].append(obj("Host"))
        for lang in langs:
            add("contexts", "names:suffix_of_rettmp_trait:%d" % len(w), wm, lang)
    # S2b 1..3 distinct callback element types (struct items) in one header, in one method / spread over traits, with/without contexts
    cbsets = [["cb"], ["cb", "cb_p2"], ["cb_p2", "cb_p3"], ["cb", "cb_p2", "cb_p3"], ["cb_p3", "cb_p2", "cb"]]
    for ks in cbsets:
        one = model([trait("Alpha", [meth("alpha_each", "ref", ks, "u64")])], [], [obj("Alpha")])
        spread_tr = [trait(n, [meth(n.lower() + "_each", "mut", [k], "void")]) for n, k in zip(TRAIT_NAMES, ks)]
        spread = model(spread_tr, [{"name": "Bundle", "mandatory": [spread_tr[0]["name"]], "optional": [t["name"] for t in spread_tr[1:]]}],
                       [obj(spread_tr[0]["name"]), grp("Bundle")])
        shapes_cb = [("one", one), ("spread", spread)]
        if not quick:
            both = copy.deepcopy(spread)
            both["instances"] += [grp("Bundle", "Mut", "none")]
            shapes_cb.append(("spread2", both))
            wm = wrapped_model(["arc", "MyCtx"], ["borrow", "into", "get_mut"])
            wm["traits"].append(trait("Gamma", [meth("gamma_each", "ref", ks, "void")]))
            wm["instances"].append(obj("Gamma"))
            shapes_cb.append(("wrapped", wm))
        for sn, m in shapes_cb:
            for lang in langs:
                add("callbacks", "cbtypes:%d:%s" % (len(ks), sn), m, lang)
    # S3 foreign declarations: every subset (thorough) / none, each alone, all (quick)
    subsets = foreign_subsets() if not quick else [[]] + [[k] for k in ALL_FOREIGN] + [ALL_FOREIGN]
    shapes = [(["arc"], None), (["arc", "MyCtx"], ["borrow", "into", "get_mut"])] if quick else \
        [(["arc"], None), (["none", "arc"], None), (["arc"], ["get_mut"]), (["arc", "MyCtx"], ["borrow", "into", "get_mut"]), (["none"], None)]
    for fs, (ctxs, w) in itertools.product(subsets, shapes):
        for first in ((False,) if quick else (False, True)):
            for lang in langs:
                add("foreign", "foreign:%s" % ("+".join(fs) or "none"), wrapped_model(ctxs, w, "Box", fs, foreign_first=first), lang)
    # S3a a header far larger than one pipe buffer (1200 plain user records + a table of them, > 64 KiB from cbindgen)
    for (ctxs, w) in ((["arc"], None), (["arc", "MyCtx"], ["borrow", "into", "get_mut"])):
        for lang in langs:
            add("foreign", "foreign:bulk", wrapped_model(ctxs, w, "Box", ["bulk"]), lang)
    # S3a' user declarations documented in non-ASCII text / mentioning the other language's keywords in the middle of a line
    for kind in ("nonascii", "cppwords"):
        for (ctxs, w) in ((["arc"], None), (["arc", "MyCtx"], ["borrow", "into", "get_mut"])):
            for lang in langs:
                add("foreign", "foreign:%s" % kind, wrapped_model(ctxs, w, "Box", [kind]), lang)
    # S3b users of `const TypeLayout *`: undeclared / declared as a struct / (C++) declared as an alias
    for kind in ("layout_undeclared", "layout_struct", "layout_alias"):
        for (ctxs, w) in ((["arc"], None), (["arc", "MyCtx"], ["borrow", "into", "get_mut"])):
            for lang in langs:
                if kind == "layout_alias" and lang == "c":
                    continue  # C spells an alias `typedef struct LayoutInfo TypeLayout;`: outside what the tool documents
                add("foreign", "foreign:%s" % kind, wrapped_model(ctxs, w, "Box", [kind]), lang)
    # S3c a library that exports runtime helper types and plain functions but NO object or group, with and without a user of
    #     `const TypeLayout *` (C: the tool supplies the forward declaration whatever else the header contains)
    for fk in (["runtime_only"], ["runtime_only", "layout_undeclared"], ["runtime_only", "layout_struct"]):
        add("foreign", "foreign:no_objects:%s" % "+".join(fk[1:] or ["plain"]), model([], [], [], foreign=fk), "c")
    # S4 configuration keys: every combination, on a header in which some objects match and some do not
    cm = config_model()
    for cfg in all_configs():
        for lang in langs:
            add("config", "config", cm, lang, cfg)
    if not quick:
        wm = wrapped_model(["arc", "MyCtx"], ["borrow", "into", "get_mut"])
        for cfg in all_configs():
            for lang in langs:
                add("config", "config:wrapped", wm, lang, cfg)
    # S5 argument forwarding / output hijack: every layout, with and without config
    from bindgen_tool import ARG_LAYOUTS
    b = baseline()
    for layout in ARG_LAYOUTS:
        for cfg in (None, {"default_container": "Box", "default_context": "Arc", "function_prefix": None}):
            for lang in langs:
                add("args", "layout:" + layout, b, lang, cfg, layout)
    # S6 header-level switches combined (thorough)
    if not quick:
        for rs, cc, gd, ctxs in itertools.product(("uninit", "ptr"), (True, False), (None, "DEMO_BINDINGS_H"), (["arc"], ["arc", "MyCtx"])):
            for w in (None, ["borrow", "into", "get_mut"]):
                for lang in langs:
                    if lang == "cpp" and not cc:
                        continue
                    add("switches", "switches", wrapped_model(ctxs, w, "Box", ALL_FOREIGN, root_style=rs, cpp_compat=cc, guard=gd), lang)
    return cases
