"""C20 python driver: regenerate the twin definitions, build the layout harness, run it.

    run(prop, tier, replay, Ctx) -> ("report", dict) | ("replay", rc)

The harness lives in its own cargo workspace /verif/engine_layout (own lockfile, own target directory
/verif/.build/target-layout) and depends on <repo>/cglue by path with the feature `layout_checks`, so it
is rebuilt from the repository's current working tree on every run. <repo> = $VERIF_REPO_DIR (default
/repo); for another repository directory the generated manifests point there and a separate target
directory (/verif/.build/target-layout-alt) is used.
"""
import json
import os
import shutil
import subprocess
import time

import layout_gen

WS = "/verif/engine_layout"


def _paths(Ctx):
    repo = os.path.abspath(os.environ.get("VERIF_REPO_DIR", "/repo"))
    ws = os.path.join(Ctx.ROOT, "engine_layout")
    target = os.path.join(Ctx.BUILD, "target-layout" if repo == "/repo" else "target-layout-alt")
    return repo, ws, target


def _build(Ctx, repo, ws, target, thorough):
    lock = os.path.join(ws, "Cargo.lock")
    src_lock = os.path.join(repo, "Cargo.lock")
    if not os.path.exists(lock):
        shutil.copyfile(src_lock, lock)
    env = dict(Ctx.ENV)
    env["CARGO_TARGET_DIR"] = target
    env["CARGO_NET_OFFLINE"] = "true"
    cmd = ["cargo", "build", "--offline", "-p", "h_layout"]
    if thorough:
        cmd += ["--features", "thorough"]
    t0 = time.time()
    out = ""
    for attempt in (0, 1):
        p = subprocess.run(cmd, cwd=ws, env=env, stdout=subprocess.PIPE, stderr=subprocess.STDOUT, text=True)
        out = p.stdout
        if p.returncode == 0:
            break
        if attempt == 0 and ("failed to select a version" in out or "no matching package" in out or "lock file" in out):
            # cargo pruned lock entries that are needed again (offline resolution cannot re-add a yanked crate)
            Ctx.log("[C20] dependency resolution failed; restoring the lockfile from %s and retrying" % src_lock)
            shutil.copyfile(src_lock, lock)
            continue
        errs = [l for l in out.splitlines() if l.startswith("error")]
        Ctx.log(out[-6000:])
        raise Ctx.Machinery("cargo build of h_layout failed (%d error lines, first: %s)" % (len(errs), errs[:1]))
    Ctx.log("[build] h_layout%s ok (%.1fs)" % (" +thorough" if thorough else "", time.time() - t0))
    return os.path.join(target, "debug", "h_layout"), env


def run(prop, tier, replay, Ctx):
    repo, ws, target = _paths(Ctx)
    if not os.path.isdir(os.path.join(repo, "cglue")):
        raise Ctx.Machinery("no cglue crate under %s" % repo)
    summary = layout_gen.generate(ws, repo_dir=repo, explore_dir=os.path.join(Ctx.ENGINE, "explore"))
    Ctx.log("[C20] generated %(bases)d bases, %(twins)d twins in %(shards)d shard crates; cases %(cases)s; call sequences %(sequences)s" % summary)
    if replay is not None:
        with open(replay) as f:
            rec = json.load(f)
        case = rec.get("case") or {}
        thorough = not case.get("quick", True)
        exe, env = _build(Ctx, repo, ws, target, thorough)
        p = subprocess.run([exe, "--replay", replay], env=env)
        rc = p.returncode
        if rc < 0:
            p2 = subprocess.run([exe, "--replay", replay], env=env, stdout=subprocess.DEVNULL)
            if p2.returncode == rc:
                print("violation reproduced: process died with signal %d in both replays" % -rc)
                rc = 1
            else:
                rc = 2
        return ("replay", rc)
    exe, env = _build(Ctx, repo, ws, target, tier == "thorough")
    rep_dir = os.path.join(Ctx.BUILD, "reports")
    os.makedirs(rep_dir, exist_ok=True)
    out = os.path.join(rep_dir, "%s-h_layout.json" % prop)
    if os.path.exists(out):
        os.remove(out)
    p = subprocess.run([exe, "--tier", tier, "--out", out], env=env)
    if p.returncode != 0 or not os.path.exists(out):
        raise Ctx.Machinery("h_layout exited with %s and no report" % p.returncode)
    with open(out, encoding="utf-8", errors="replace") as f:
        rep = json.load(f)
    expected = summary["cases"][tier] + 9 + summary["sequences"][tier] + summary["overlap"][tier]
    # (a run that the driver cut short after a crash / hang reports what it established; its coverage says so)
    if rep["coverage"]["evaluations"] != expected and not rep["coverage"].get("aborted"):
        raise Ctx.Machinery("h_layout evaluated %s cases, the generator emitted %s" % (rep["coverage"]["evaluations"], expected))
    rep["coverage"]["generator"] = dict(summary, repo=repo)
    for v in rep.get("violation_records", []):
        v["engine"] = "layout_c20"
    return ("report", rep)
