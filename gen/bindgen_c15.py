"""C15, C side: the callback / iterator helpers that cglue-bindgen writes into every C header.

The processed C header carries its own collecting callbacks and a buffer iterator for C callers
(COLLECT_CB, COLLECT_CB_INTO, COLLECT_CB_INTO_ARR, COUNT_CB, BUF_ITER, BUF_ITER_ARR). A header for a small
API with callback arguments over several element types is rendered, pushed through the REAL cglue-bindgen
(stub `cbindgen` on PATH), and a generated C driver feeds every helper the way a Rust callee does
(call `func(context, item)` once per item, in order, stop after the first `false`; call the iterator's
`func` until it returns non-zero), for EVERY length 0..=N and every capacity of a bounded set.

Oracle per (helper, element type, n, capacity):
  dynamic collector   every one of the n items is accepted, in order, nothing else is stored
  static collector    holds exactly the first min(n, L) items; refuses after the L-th; nothing beyond L is written
  counting callback   counts n, never stops the feeder
  buffer iterator     yields exactly the n items in order, then keeps reporting the end
"""
import json
import os
import shutil
import subprocess
import sys
import time

sys.path.insert(0, os.path.dirname(os.path.abspath(__file__)))

import bindgen_headers as H  # noqa: E402
import bindgen_model as BM  # noqa: E402
import bindgen_tool as TL  # noqa: E402
from bindgen_c17 import setup  # noqa: E402
from pyreport import Report  # noqa: E402

# element type -> (C type name, field initialisers from index i, equality expression a vs b)
ELEMS = {
    "S3": ("S3", "v.a = (uint8_t)(i + 1); v.b = (uint16_t)(3 * i + 7); v.c = 0x1000000000ULL + i;", "x.a == y.a && x.b == y.b && x.c == y.c"),
    "Point2": ("Point2", "v.x = (int32_t)i - 5; v.y = (int32_t)(2 * i + 1);", "x.x == y.x && x.y == y.y"),
}


COMPILERS = [c for c in ("gcc", "clang") if shutil.which(c)]


def model():
    ms = [BM.meth("alpha_each", "ref", ["cb"], "u64"), BM.meth("alpha_points", "mut", ["cb_p2"], "void")]
    return BM.model([BM.trait("Alpha", ms)], [], [BM.obj("Alpha")])


def driver(nmax, caps):
    out = ["#include <stdio.h>", "#include <stdlib.h>", "#include <stdint.h>", "#include <stdbool.h>", '#include "processed.h"', ""]
    out.append("static const long CAPS[] = {%s};" % ", ".join(str(c) for c in caps))
    out.append("#define NCAPS (sizeof(CAPS) / sizeof(*CAPS))")
    for key, (ty, init, eq) in ELEMS.items():
        out.append("""
/* ---------------------------------------------------------------- %(ty)s */
typedef struct CIterator_%(ty)s { void *iter; int32_t (*func)(void *, %(ty)s *out); } CIterator_%(ty)s;
static %(ty)s mk_%(ty)s(size_t i) { %(ty)s v; memset(&v, 0, sizeof v); %(init)s return v; }
static int eq_%(ty)s(%(ty)s x, %(ty)s y) { return %(eq)s; }
/* what a Rust callee does with an OpaqueCallback: one call per item, in order, stop after the first false */
static size_t feed_%(ty)s(Callback_c_void__%(ty)s cb, size_t n) {
    size_t i, offered = 0;
    for (i = 0; i < n; i++) { offered++; if (!cb.func(cb.context, mk_%(ty)s(i))) break; }
    return offered;
}
static void run_%(ty)s(size_t n) {
    size_t i, k;
    {
        COLLECT_CB(%(ty)s, dyn);
        size_t offered = feed_%(ty)s(dyn, n);
        int ok = offered == n && dyn_base.size == n && dyn_base.capacity >= n && (n == 0 || dyn_base.buf != NULL);
        for (i = 0; ok && i < n; i++) ok = eq_%(ty)s((*dyn_data)[i], mk_%(ty)s(i));
        printf("CASE dynamic %(ty)s n=%%zu cap=-1 %%s offered=%%zu stored=%%zu\\n", n, ok ? "ok" : "bad", offered, dyn_base.size);
        free(dyn_base.buf);
    }
    for (k = 0; k < NCAPS; k++) {
        long cl = CAPS[k] < 0 ? (long)n + (CAPS[k] + 2) : CAPS[k];   /* -3, -2, -1: n-1, n, n+1 */
        size_t L, want, want_offered;
        %(ty)s *buf;
        if (cl < 0) continue;
        L = (size_t)cl;
        buf = (%(ty)s *)malloc(sizeof(%(ty)s) * (L + 2));
        for (i = 0; i < L + 2; i++) buf[i] = mk_%(ty)s(900000 + i);
        want = n < L ? n : L;
        want_offered = L == 0 ? (n < 1 ? n : 1) : want;
        {
            COLLECT_CB_INTO(%(ty)s, st, buf, L);
            size_t offered = feed_%(ty)s(st, n);
            int ok = offered == want_offered && st_base.size == want;
            for (i = 0; ok && i < want; i++) ok = eq_%(ty)s(buf[i], mk_%(ty)s(i));
            for (i = want; ok && i < L + 2; i++) ok = eq_%(ty)s(buf[i], mk_%(ty)s(900000 + i));
            printf("CASE static %(ty)s n=%%zu cap=%%zu %%s offered=%%zu stored=%%zu\\n", n, L, ok ? "ok" : "bad", offered, st_base.size);
        }
        free(buf);
    }
    {
        %(ty)s arr[7];
        COLLECT_CB_INTO_ARR(%(ty)s, sa, arr);
        size_t offered = feed_%(ty)s(sa, n);
        size_t want = n < 7 ? n : 7;
        int ok = offered == want && sa_base.size == want;
        for (i = 0; ok && i < want; i++) ok = eq_%(ty)s(arr[i], mk_%(ty)s(i));
        printf("CASE static_arr %(ty)s n=%%zu cap=7 %%s offered=%%zu stored=%%zu\\n", n, ok ? "ok" : "bad", offered, sa_base.size);
    }
    {
        COUNT_CB(%(ty)s, cnt);
        size_t offered = feed_%(ty)s(cnt, n);
        int ok = offered == n && cnt_count == n;
        printf("CASE count %(ty)s n=%%zu cap=-1 %%s offered=%%zu stored=%%zu\\n", n, ok ? "ok" : "bad", offered, cnt_count);
    }
    {
        %(ty)s *src = (%(ty)s *)malloc(sizeof(%(ty)s) * (n + 1));
        size_t got = 0;
        int ok = 1, tail;
        %(ty)s outv;
        for (i = 0; i < n + 1; i++) src[i] = mk_%(ty)s(i);
        {
            BUF_ITER(%(ty)s, it, src, n);
            /* what Rust's CIterator::next does: func == 0 means an item was written */
            while (got <= n + 2 && it.func(it.iter, &outv) == 0) { if (got < n) ok = ok && eq_%(ty)s(outv, mk_%(ty)s(got)); got++; }
            tail = it.func(it.iter, &outv) != 0 && it.func(it.iter, &outv) != 0;
            ok = ok && got == n && tail;
        }
        printf("CASE buf_iter %(ty)s n=%%zu cap=-1 %%s offered=%%zu stored=%%zu\\n", n, ok ? "ok" : "bad", got, n);
        {
            /* the same items behind a pointer of another static type (a byte payload / malloc block): the element type is the
               macro's type argument, not the type of the expression passed as the buffer */
            unsigned char *raw = (unsigned char *)src;
            BUF_ITER(%(ty)s, it2, raw, n);
            got = 0; ok = 1;
            while (got <= n + 2 && it2.func(it2.iter, &outv) == 0) { if (got < n) ok = ok && eq_%(ty)s(outv, mk_%(ty)s(got)); got++; }
            ok = ok && got == n;
            printf("CASE buf_iter_bytes %(ty)s n=%%zu cap=-1 %%s offered=%%zu stored=%%zu\\n", n, ok ? "ok" : "bad", got, n);
        }
        {
            /* a fixed array through the _ARR form (length taken from the array) */
            %(ty)s arr[5];
            for (i = 0; i < 5; i++) arr[i] = mk_%(ty)s(i);
            BUF_ITER_ARR(%(ty)s, it3, arr);
            got = 0; ok = 1;
            while (got <= 7 && it3.func(it3.iter, &outv) == 0) { if (got < 5) ok = ok && eq_%(ty)s(outv, mk_%(ty)s(got)); got++; }
            ok = ok && got == 5;
            if (n == 0) printf("CASE buf_iter_arr %(ty)s n=5 cap=-1 %%s offered=%%zu stored=%%zu\\n", ok ? "ok" : "bad", got, (size_t)5);
        }
        free(src);
    }
}
""" % {"ty": ty, "init": init, "eq": eq})
    out.append("int main(void) {\n    size_t n;\n    for (n = 0; n <= %d; n++) {" % nmax)
    for key in ELEMS:
        out.append("        run_%s(n);" % ELEMS[key][0])
    out.append("    }\n    printf(\"DONE\\n\");\n    return 0;\n}")
    return "\n".join(out) + "\n"


def run_once(exe, stubdir, workroot, nmax, caps, keep=False):
    wd = os.path.join(workroot, "c15-%d" % os.getpid())
    shutil.rmtree(wd, ignore_errors=True)
    os.makedirs(wd)
    try:
        r = H.render(model(), "c")
        res = TL.run_tool(exe, stubdir, wd, r["text"], None)
        if res["stub_argv"] is None or res["rc"] != 0 or not res["output"]:
            return {"machinery": "cglue-bindgen did not produce a header (rc=%s, stderr=%s)" % (res["rc"], res["stderr"][:300])}
        with open(os.path.join(wd, "processed.h"), "w") as f:
            f.write(res["output"])
        with open(os.path.join(wd, "driver.c"), "w") as f:
            f.write(driver(nmax, caps))
        outs = {}
        for cc in COMPILERS:
          for opt in ("-O0", "-O2"):
            exe_c = os.path.join(wd, "driver-" + cc + opt)
            p = subprocess.run([cc, "-std=gnu99", opt, "-o", exe_c, "driver.c"], cwd=wd, stdout=subprocess.PIPE, stderr=subprocess.STDOUT, text=True)
            if p.returncode != 0:
                return {"compile_error": p.stdout[-1500:]}
            q = subprocess.run([exe_c], cwd=wd, stdout=subprocess.PIPE, stderr=subprocess.STDOUT, text=True, timeout=600)
            outs[cc + " " + opt] = (q.returncode, q.stdout)
        return {"outs": outs}
    finally:
        if not keep:
            shutil.rmtree(wd, ignore_errors=True)


def parse(text):
    cases = []
    for ln in text.splitlines():
        if ln.startswith("CASE "):
            f = ln.split()
            d = {"helper": f[1], "elem": f[2], "n": int(f[3][2:]), "cap": int(f[4][4:]), "ok": f[5] == "ok", "offered": int(f[6].split("=")[1]), "stored": int(f[7].split("=")[1])}
            cases.append(d)
    return cases, text.rstrip().endswith("DONE")


def bounds(tier):
    nmax = 140 if tier == "quick" else 1100
    caps = [0, 1, 2, 63, 64, 65, 128, -3, -2, -1]
    return nmax, caps


def run(prop, tier, replay, Ctx):
    exe, stubdir, workroot = setup(Ctx)
    nmax, caps = bounds(tier)
    if replay is not None:
        with open(replay) as f:
            body = json.load(f)
        nmax = max(nmax, body["case"].get("n", 0))
        hits = []
        for _ in range(2):
            r = run_once(exe, stubdir, workroot, nmax, caps)
            if "machinery" in r:
                raise Ctx.Machinery(r["machinery"])
            bad = "compile_error" in r
            if not bad:
                for opt, (rc, text) in r["outs"].items():
                    cs, done = parse(text)
                    bad = bad or rc != 0 or not done or any(not c["ok"] for c in cs if c["helper"] == body["case"].get("helper", c["helper"]))
            hits.append(bad)
        return ("replay", 1 if all(hits) else (0 if not any(hits) else 2))
    rep = Report(prop, tier, "model_checking", os.environ.get("VERIF_SEED", 0))
    rep.assume("cbindgen is not available offline: the input header is synthesised (gen/bindgen_headers.py); the helpers under test are emitted by the real cglue-bindgen built from /repo")
    rep.assume("the driver follows the published calling contract of callbacks (stop after the first false) and iterators (0 = item); gcc and clang, -O0 and -O2")
    t0 = time.time()
    r = run_once(exe, stubdir, workroot, nmax, caps)
    if "machinery" in r:
        raise Ctx.Machinery(r["machinery"])
    sec = "c_header_helpers"
    rep.rule(sec, "the collecting / counting callbacks and the buffer iterator that the real cglue-bindgen writes into a C header, driven from C for every "
                  "item count n = 0..=%d x element type {S3, Point2} x capacity {0,1,2,63,64,65,128,n-1,n,n+1} (static collectors), built with gcc and clang, -O0 and -O2; "
                  "oracle: dynamic collector stores all n items in order; static collector exactly the first min(n, L) and nothing beyond; counter counts n; "
                  "iterator yields the n items in order and then keeps reporting the end; distinct = distinct (helper, element, n, capacity) outcomes" % nmax)
    if "compile_error" in r:
        rep.record(sec, {"helper": "all"}, None, True, ("chelper:compile_error", "the driver using the header's helper macros does not compile:\n" + r["compile_error"][-600:]))
        return ("report", rep.build())
    ref = None
    for opt, (rc, text) in sorted(r["outs"].items()):
        cases, done = parse(text)
        if rc != 0 or not done:
            rep.record(sec, {"helper": "all", "opt": opt}, None, True, ("chelper:crash", "the helper driver (%s) died with rc=%s after %d cases" % (opt, rc, len(cases))))
            continue
        for c in cases:
            case = {"helper": c["helper"], "elem": c["elem"], "n": c["n"], "cap": c["cap"], "opt": opt}
            v = None
            if not c["ok"]:
                v = ("chelper:%s" % c["helper"], "%s over %s with n=%d capacity=%d (%s): offered %d, holds %d - not exactly the items the contract implies" % (
                    c["helper"], c["elem"], c["n"], c["cap"], opt, c["offered"], c["stored"]))
            rep.record(sec, case, {"c": case, "offered": c["offered"], "stored": c["stored"]}, c["n"] > 0, v)
        key = [(c["helper"], c["elem"], c["n"], c["cap"], c["ok"], c["offered"], c["stored"]) for c in cases]
        if ref is None:
            ref = key
        elif ref != key:
            rep.record(sec, {"helper": "all", "opt": opt}, None, True, ("chelper:opt_dependent", "the helpers behave differently between compilers / optimisation levels (gcc, clang x -O0, -O2)"))
    rep.note(sec, "wall_s", round(time.time() - t0, 1))
    return ("report", rep.build())
