"""C16, C++ side: the runtime-type declarations that cglue-bindgen writes into every C++ header.

In C++ mode the tool replaces cbindgen's renderings of the runtime types by its own templates (cpp.rs): the
temporary-storage wrapper `RustMaybeUninit<T>`, the four `CGlueObjContainer<T, C, R>` specialisations, `CSliceRef<T>` with
its std::string bridges, `Callback<T, F>` with its std::vector / functor bridges.  A header for a small API is rendered,
pushed through the REAL cglue-bindgen (stub `cbindgen` on PATH) and a generated C++ driver operates those declarations
the way a foreign caller does.  Three exhaustive sweeps (g++ and clang++ -std=c++11, -O0 and -O2):

  layout    instance T in {CBox<void>, void*} x context C in {none, CArc<void>, 1-, 4-, 8-, 12-byte user contexts}
            x temporary storage R in {none, 1, 2, 4, 8, 24 bytes, 16-byte aligned}: size, alignment and the offset of every
            member of the container equal those of the plain C struct {T instance; C context; R ret_tmp;} (what #[repr(C)]
            gives on the Rust side, MaybeUninit<R> having the size and alignment of R); RustMaybeUninit<X> has the size and
            alignment of X for every X
  strings   every byte string of length 0..=L over {NUL, 'a', 0xC3, ' '} x element type {char, unsigned char}:
            std::string -> CSliceRef<T> keeps address and length; CSliceRef<T> -> std::string gives the same bytes (a slice is
            {data, length}: an interior or trailing NUL is content); (pointer, length) construction likewise
  release   the four container specialisations over a CBox / CArc pair with recording drop functions: drop() releases the
            instance first and the context last (the order in which Rust drops the fields), forget() releases nothing
  iterators every int sequence of length 0..=min(L,5) over {0, 1, -1, 7}: a CIterator<int> consumed with range-for through the
            generated input-iterator class yields exactly the items (a zero item is an item), polling the source once more
            for the end; a std::vector offered through CPPIterator yields its items and then keeps reporting the end
  callbacks n = 0..=N items x stop position {never, after 1, n/2, n-1, n}: OpaqueCallback<S3> built from a
            std::vector<S3>* collects every offered item in order and never stops the feeder; built from a functor it is
            invoked once per item until the functor returns false

Signatures: cpphelper:layout:<what>, cpphelper:string:<direction>, cpphelper:callback:<kind>, cpphelper:compile_error,
cpphelper:crash, cpphelper:opt_dependent.
"""
import json
import os
import shutil
import subprocess
import sys
import time

sys.path.insert(0, os.path.dirname(os.path.abspath(__file__)))

import bindgen_headers as H  # noqa: E402
import bindgen_model as BM  # noqa: E402
import bindgen_tool as TL  # noqa: E402
from bindgen_c17 import setup  # noqa: E402
from pyreport import Report  # noqa: E402


COMPILERS = [c for c in ("g++", "clang++") if shutil.which(c)]


def model():
    m = BM.wrapped_model(["arc", "MyCtx"], ["borrow", "into", "get_mut"])
    m["traits"].append(BM.trait("Gamma", [BM.meth("gamma_each", "ref", ["cb", "slice"], "u64")]))
    m["instances"].append(BM.obj("Gamma"))
    return m


INSTS = [("cbox", "CBox<void>"), ("ptr", "void *")]
CTXS = [("none", "void"), ("carc", "CArc<void>"), ("ctx1", "Ctx1"), ("ctx4", "Ctx4"), ("ctx8", "Ctx8"), ("ctx12", "Ctx12")]
TMPS = [("none", "void"), ("r1", "R1"), ("r2", "R2"), ("r4", "R4"), ("r8", "R8"), ("r24", "R24"), ("r16a", "R16A")]

DRIVER_HEAD = r'''#include <cstdio>
#include <cstddef>
#include <string>
#include <vector>
#include <iterator>
#include <type_traits>
#include "processed.hpp"

struct Ctx1 { uint8_t a; Ctx1 clone() const { return *this; } void drop() && {} void forget() {} };
struct Ctx4 { uint32_t a; Ctx4 clone() const { return *this; } void drop() && {} void forget() {} };
struct Ctx8 { uint64_t a; Ctx8 clone() const { return *this; } void drop() && {} void forget() {} };
struct Ctx12 { uint32_t a, b, c; Ctx12 clone() const { return *this; } void drop() && {} void forget() {} };
struct R1 { uint8_t a; };
struct R2 { uint16_t a; };
struct R4 { uint32_t a; };
struct R8 { void *a; };
struct R24 { void *a, *b, *c; };
struct alignas(16) R16A { uint64_t a, b; };

/* what #[repr(C)] struct { instance: T, context: C, ret_tmp: MaybeUninit<R> } is on the Rust side */
template<typename T, typename C, typename R> struct Twin { T instance; C context; R ret_tmp; };
template<typename T, typename R> struct Twin<T, void, R> { T instance; R ret_tmp; };
template<typename T, typename C> struct Twin<T, C, void> { T instance; C context; };
template<typename T> struct Twin<T, void, void> { T instance; };

template<typename A, typename B> struct HasTmp { static const bool v = true; };
template<typename A> struct HasTmp<A, void> { static const bool v = false; };

#define OFF(S, m) ((long)offsetof(S, m))
'''


def layout_cases():
    out = []
    for (tn, t) in INSTS:
        for (cn, c) in CTXS:
            for (rn, r) in TMPS:
                out.append((tn, t, cn, c, rn, r))
    return out


def driver(L, N):
    out = [DRIVER_HEAD]
    out.append("static void layouts() {")
    for (tn, t, cn, c, rn, r) in layout_cases():
        cont = "CGlueObjContainer<%s, %s, %s>" % (t, c, r)
        twin = "Twin<%s, %s, %s>" % (t, c, r)
        out.append("    {")
        out.append("        typedef %s Co; typedef %s Tw;" % (cont, twin))
        out.append("        long so = (long)sizeof(Co), st = (long)sizeof(Tw), ao = (long)alignof(Co), at = (long)alignof(Tw);")
        out.append("        long oi = OFF(Co, instance), ti = OFF(Tw, instance);")
        if c != "void":
            out.append("        long oc = OFF(Co, context), tc = OFF(Tw, context);")
        else:
            out.append("        long oc = -1, tc = -1;")
        if r != "void":
            out.append("        long orr = OFF(Co, ret_tmp), tr = OFF(Tw, ret_tmp);")
        else:
            out.append("        long orr = -1, tr = -1;")
        out.append("        printf(\"CASE layout %s %s %s %%s size=%%ld/%%ld align=%%ld/%%ld instance=%%ld/%%ld context=%%ld/%%ld ret_tmp=%%ld/%%ld\\n\", "
                   "(so == st && ao == at && oi == ti && oc == tc && orr == tr) ? \"ok\" : \"bad\", so, st, ao, at, oi, ti, oc, tc, orr, tr);" % (tn, cn, rn))
        out.append("    }")
    for (rn, r) in TMPS:
        if r == "void":
            continue
        out.append("    printf(\"CASE maybeuninit x x %s %%s size=%%ld/%%ld align=%%ld/%%ld instance=0/0 context=0/0 ret_tmp=0/0\\n\", "
                   "(sizeof(RustMaybeUninit<%s>) == sizeof(%s) && alignof(RustMaybeUninit<%s>) == alignof(%s)) ? \"ok\" : \"bad\", "
                   "(long)sizeof(RustMaybeUninit<%s>), (long)sizeof(%s), (long)alignof(RustMaybeUninit<%s>), (long)alignof(%s));" % (rn, r, r, r, r, r, r, r, r))
    out.append("}")
    out.append(r'''
/* release order of the containers: Rust drops the fields in declaration order - instance first, then the context (the
   context typically keeps the library loaded that the instance's drop function lives in) */
static std::string ORDER;
static void rec_inst(void *) { ORDER += "instance;"; }
static void rec_ctx(const void *) { ORDER += "context;"; }
static const void *rec_clone(const void *p) { return p; }
template<typename Cont> static void release_with_ctx(const char *shape) {
    int dummy = 0;
    Cont c;
    c.instance = CBox<void>(&dummy, rec_inst);
    c.context.instance = &dummy; c.context.clone_fn = rec_clone; c.context.drop_fn = rec_ctx;
    ORDER.clear();
    std::move(c).drop();
    printf("CASE release %s x x %s order=%s\n", shape, ORDER == "instance;context;" ? "ok" : "bad", ORDER.c_str());
    /* a handle the user released explicitly is empty afterwards: the regular clean-up of its owner must not release it again */
    Cont e;
    e.instance = CBox<void>(&dummy, rec_inst);
    e.context.instance = &dummy; e.context.clone_fn = rec_clone; e.context.drop_fn = rec_ctx;
    ORDER.clear();
    mem_drop(std::move(e.context));
    std::move(e).drop();
    printf("CASE release_after_ctx %s x x %s order=%s\n", shape, ORDER == "context;instance;" ? "ok" : "bad", ORDER.c_str());
    Cont g;
    g.instance = CBox<void>(&dummy, rec_inst);
    g.context.instance = &dummy; g.context.clone_fn = rec_clone; g.context.drop_fn = rec_ctx;
    ORDER.clear();
    mem_drop(std::move(g.instance));
    std::move(g).drop();
    printf("CASE release_after_inst %s x x %s order=%s\n", shape, ORDER == "instance;context;" ? "ok" : "bad", ORDER.c_str());
    Cont f;
    f.instance = CBox<void>(&dummy, rec_inst);
    f.context.instance = &dummy; f.context.clone_fn = rec_clone; f.context.drop_fn = rec_ctx;
    ORDER.clear();
    f.forget();
    printf("CASE forget %s x x %s order=%s\n", shape, ORDER.empty() ? "ok" : "bad", ORDER.c_str());
}
template<typename Cont> static void release_no_ctx(const char *shape) {
    int dummy = 0;
    Cont c;
    c.instance = CBox<void>(&dummy, rec_inst);
    ORDER.clear();
    std::move(c).drop();
    printf("CASE release %s x x %s order=%s\n", shape, ORDER == "instance;" ? "ok" : "bad", ORDER.c_str());
}
static void releases() {
    release_with_ctx<CGlueObjContainer<CBox<void>, CArc<void>, R24> >("box_arc_tmp");
    release_with_ctx<CGlueObjContainer<CBox<void>, CArc<void>, void> >("box_arc_notmp");
    release_no_ctx<CGlueObjContainer<CBox<void>, void, R24> >("box_noctx_tmp");
    release_no_ctx<CGlueObjContainer<CBox<void>, void, void> >("box_noctx_notmp");
}

/* CIterator consumed from C++ through the generated input iterator (range-for), and a std::vector offered to a consumer
   through CPPIterator: exactly the items of the source, in order, the source polled once more for the end */
struct IntSrc { const int *cur, *end; int pulls; };
static int32_t int_src_next(void *p, int *out) {
    IntSrc *s = (IntSrc *)p;
    s->pulls++;
    if (s->cur == s->end) return 1;
    *out = *s->cur++;
    return 0;
}
static void iterators(int maxlen) {
    static const int VALS[4] = {0, 1, -1, 7};
    for (int len = 0; len <= maxlen; len++) {
        long total = 1;
        for (int i = 0; i < len; i++) total *= 4;
        for (long code = 0; code < total; code++) {
            std::vector<int> items;
            long c = code;
            for (int i = 0; i < len; i++) { items.push_back(VALS[c % 4]); c /= 4; }
            {
                IntSrc s = { items.data(), items.data() + items.size(), 0 };
                CIterator<int> it;
                it.iter = &s;
                it.func = &int_src_next;
                std::vector<int> got;
                for (int v : it) got.push_back(v);
                bool ok = got == items && s.pulls == (int)items.size() + 1;
                printf("CASE citer range_for len=%d code=%ld %s got=%zu pulls=%d\n", len, code, ok ? "ok" : "bad", got.size(), s.pulls);
            }
            {
                std::vector<int> src(items);
                CPPIterator<std::vector<int> > bridge(src);
                CIterator<int> &ci = bridge;
                std::vector<int> got;
                int v = 0, extra = 0;
                while (got.size() <= items.size() + 2 && ci.func(ci.iter, &v) == 0) got.push_back(v);
                extra = ci.func(ci.iter, &v) != 0 && ci.func(ci.iter, &v) != 0;
                bool ok = got == items && extra;
                printf("CASE citer cpp_iterator len=%d code=%ld %s got=%zu pulls=0\n", len, code, ok ? "ok" : "bad", got.size());
            }
        }
    }
}

static const unsigned char ALPHA[4] = {0x00, 'a', 0xC3, ' '};

template<typename T> static void strings_for(const char *tname, int maxlen) {
    for (int len = 0; len <= maxlen; len++) {
        long total = 1;
        for (int i = 0; i < len; i++) total *= 4;
        for (long code = 0; code < total; code++) {
            std::string s;
            long c = code;
            for (int i = 0; i < len; i++) { s.push_back((char)ALPHA[c % 4]); c /= 4; }
            /* std::string -> slice */
            CSliceRef<T> r(s);
            bool to_ok = r.len == s.size() && (const void *)r.data == (const void *)s.data();
            /* slice -> std::string */
            std::string back = r;
            bool from_ok = back.size() == s.size() && back == s;
            /* (pointer, length) -> slice -> std::string */
            CSliceRef<T> p(s.data(), (uintptr_t)s.size());
            std::string back2 = p;
            bool ptr_ok = p.len == s.size() && back2 == s;
            printf("CASE string %s len=%d code=%ld %s to=%d from=%d ptrlen=%d got=%zu\n", tname, len, code, (to_ok && from_ok && ptr_ok) ? "ok" : "bad", (int)to_ok, (int)from_ok, (int)ptr_ok, back.size());
        }
    }
}

static S3 mk(size_t i) { S3 v; v.a = (uint8_t)(i + 1); v.b = (uint16_t)(3 * i + 7); v.c = 0x1000000000ULL + i; return v; }
static bool eq(S3 x, S3 y) { return x.a == y.a && x.b == y.b && x.c == y.c; }
/* what a Rust callee does with an OpaqueCallback: one call per item, in order, stop after the first false */
static size_t feed(OpaqueCallback<S3> cb, size_t n) {
    size_t offered = 0;
    for (size_t i = 0; i < n; i++) { offered++; if (!cb.func(cb.context, mk(i))) break; }
    return offered;
}

struct Stopper {
    std::vector<S3> *got;
    size_t stop_after;   /* returns false on the stop_after-th call; 0 = never */
    bool operator()(S3 x) const { got->push_back(x); return !(stop_after != 0 && got->size() >= stop_after); }
};

struct Keeper {
    size_t calls;
    size_t stop_after;
    std::vector<S3> own;
    bool operator()(S3 x) { calls++; own.push_back(x); return !(stop_after != 0 && calls >= stop_after); }
};

static void callbacks(size_t nmax) {
    for (size_t n = 0; n <= nmax; n++) {
        {
            std::vector<S3> v;
            OpaqueCallback<S3> cb(&v);
            size_t offered = feed(cb, n);
            bool ok = offered == n && v.size() == n;
            for (size_t i = 0; ok && i < n; i++) ok = eq(v[i], mk(i));
            printf("CASE callback vector n=%zu stop=0 %s offered=%zu stored=%zu\n", n, ok ? "ok" : "bad", offered, v.size());
        }
        size_t stops[5] = {0, 1, n / 2, n > 0 ? n - 1 : 0, n};
        for (int k = 0; k < 5; k++) {
            std::vector<S3> got;
            Stopper f = {&got, stops[k]};
            OpaqueCallback<S3> cb(f);
            size_t offered = feed(cb, n);
            size_t want = (stops[k] == 0 || stops[k] > n) ? n : stops[k];
            bool ok = offered == want && got.size() == want;
            for (size_t i = 0; ok && i < want; i++) ok = eq(got[i], mk(i));
            printf("CASE callback functor n=%zu stop=%zu %s offered=%zu stored=%zu\n", n, stops[k], ok ? "ok" : "bad", offered, got.size());
        }
        /* callables that keep their state INSIDE themselves (a counting function object collecting into its own member, a mutable
           lambda with a by-value counter): the callback refers to the caller's object, it is invoked in place */
        for (int k = 0; k < 5; k++) {
            Keeper kp; kp.calls = 0; kp.stop_after = stops[k];
            OpaqueCallback<S3> cb(kp);
            size_t offered = feed(cb, n);
            size_t want = (stops[k] == 0 || stops[k] > n) ? n : stops[k];
            bool ok = offered == want && kp.calls == want && kp.own.size() == want;
            for (size_t i = 0; ok && i < want; i++) ok = eq(kp.own[i], mk(i));
            printf("CASE callback stateful_functor n=%zu stop=%zu %s offered=%zu stored=%zu\n", n, stops[k], ok ? "ok" : "bad", offered, kp.own.size());
            size_t seen = 0, stop = stops[k];
            auto lam = [seen, stop](S3) mutable -> bool { seen++; return !(stop != 0 && seen >= stop); };
            OpaqueCallback<S3> cb2(lam);
            size_t offered2 = feed(cb2, n);
            printf("CASE callback mutable_lambda n=%zu stop=%zu %s offered=%zu stored=%zu\n", n, stops[k], offered2 == want ? "ok" : "bad", offered2, want);
        }
    }
}
''')
    out.append("int main() {\n    layouts();\n    releases();\n    iterators(%d);\n    strings_for<char>(\"char\", %d);\n    strings_for<unsigned char>(\"uchar\", %d);\n    callbacks(%d);\n    printf(\"DONE\\n\");\n    return 0;\n}\n" % (min(L, 5), L, L, N))
    return "\n".join(out) + "\n"


def run_once(exe, stubdir, workroot, L, N, keep=False):
    wd = os.path.join(workroot, "c16cpp-%d" % os.getpid())
    shutil.rmtree(wd, ignore_errors=True)
    os.makedirs(wd)
    try:
        r = H.render(model(), "cpp")
        raw = r["text"]
        # the header model has no iterator argument kind: cbindgen's rendering of the runtime type is added verbatim, so that the
        # tool bridges it (input iterator class, CPPIterator)
        anchor = "template<typename T, typename F>\nstruct Callback {"
        if anchor not in raw:
            return {"machinery": "rendered header has no Callback struct to place CIterator next to"}
        raw = raw.replace(anchor, "/**\n * FFI compatible iterator.\n */\ntemplate<typename T>\nstruct CIterator {\n    void *iter;\n    int32_t (*func)(void*, T *out);\n};\n\n" + anchor, 1)
        res = TL.run_tool(exe, stubdir, wd, raw, None)
        if res["stub_argv"] is None or res["rc"] != 0 or not res["output"]:
            return {"machinery": "cglue-bindgen did not produce a header (rc=%s, stderr=%s)" % (res["rc"], res["stderr"][:300])}
        with open(os.path.join(wd, "processed.hpp"), "w") as f:
            f.write(res["output"])
        with open(os.path.join(wd, "driver.cpp"), "w") as f:
            f.write(driver(L, N))
        outs = {}
        for cxx in COMPILERS:
          for opt in ("-O0", "-O2"):
            exe_c = os.path.join(wd, "driver-" + cxx + opt)
            p = subprocess.run([cxx, "-std=c++11", opt, "-Wno-invalid-offsetof", "-o", exe_c, "driver.cpp"], cwd=wd, stdout=subprocess.PIPE, stderr=subprocess.STDOUT, text=True)
            if p.returncode != 0:
                return {"compile_error": "[%s %s] " % (cxx, opt) + p.stdout[-2500:]}
            q = subprocess.run([exe_c], cwd=wd, stdout=subprocess.PIPE, stderr=subprocess.STDOUT, text=True, timeout=600)
            outs[cxx + " " + opt] = (q.returncode, q.stdout)
        return {"outs": outs}
    finally:
        if not keep:
            shutil.rmtree(wd, ignore_errors=True)


def parse(text):
    cases = []
    for ln in text.splitlines():
        if not ln.startswith("CASE "):
            continue
        f = ln.split()
        kind = f[1]
        if kind == "citer":
            cases.append({"kind": kind, "key": " ".join(f[1:5]), "ok": f[5] == "ok", "detail": " ".join(f[6:]), "sub": f[2], "len": int(f[3][4:])})
        elif kind in ("release", "forget", "release_after_ctx", "release_after_inst"):
            cases.append({"kind": kind, "key": " ".join(f[1:5]), "ok": f[5] == "ok", "detail": " ".join(f[6:])})
        elif kind in ("layout", "maybeuninit"):
            cases.append({"kind": kind, "key": " ".join(f[1:5]), "ok": f[5] == "ok", "detail": " ".join(f[6:])})
        elif kind == "string":
            cases.append({"kind": kind, "key": " ".join(f[1:5]), "ok": f[5] == "ok", "detail": " ".join(f[6:]), "len": int(f[3][4:])})
        else:
            cases.append({"kind": kind, "key": " ".join(f[1:5]), "ok": f[5] == "ok", "detail": " ".join(f[6:]), "sub": f[2], "n": int(f[3][2:])})
    return cases, text.rstrip().endswith("DONE")


def signature(c):
    if c["kind"] == "citer":
        return "cpphelper:iterator:%s" % c["sub"]
    if c["kind"] in ("release_after_ctx", "release_after_inst"):
        return "cpphelper:released_handle_not_empty"
    if c["kind"] in ("release", "forget"):
        return "cpphelper:%s_order" % c["kind"]
    if c["kind"] in ("layout", "maybeuninit"):
        d = dict(x.split("=") for x in c["detail"].split())
        for what in ("ret_tmp", "context", "instance", "align", "size"):
            a, b = d[what].split("/")
            if a != b:
                return "cpphelper:layout:%s" % what
        return "cpphelper:layout:other"
    if c["kind"] == "string":
        d = dict(x.split("=") for x in c["detail"].split())
        return "cpphelper:string:%s" % ("to_slice" if d["to"] == "0" else ("to_std_string" if d["from"] == "0" else "pointer_length"))
    return "cpphelper:callback:%s" % c["sub"]


def bounds(tier):
    return (4, 48) if tier == "quick" else (6, 300)


def run(prop, tier, replay, Ctx):
    exe, stubdir, workroot = setup(Ctx)
    L, N = bounds(tier)
    if replay is not None:
        with open(replay) as f:
            body = json.load(f)
        want = body.get("signature")
        hits = []
        for _ in range(2):
            r = run_once(exe, stubdir, workroot, L, N)
            if "machinery" in r:
                raise Ctx.Machinery(r["machinery"])
            bad = "compile_error" in r
            if not bad:
                for opt, (rc, text) in r["outs"].items():
                    cs, done = parse(text)
                    for c in cs:
                        if not c["ok"] and (want is None or signature(c) == want):
                            if not bad:
                                print("replay: %s: %s %s" % (signature(c), c["key"], c["detail"]))
                            bad = True
                    bad = bad or rc != 0 or not done
            hits.append(bad)
        return ("replay", 1 if all(hits) else (0 if not any(hits) else 2))
    rep = Report(prop, tier, "exploration", os.environ.get("VERIF_SEED", 0))
    rep.assume("cbindgen is not available offline: the input header is synthesised (gen/bindgen_headers.py); the C++ declarations under test are emitted by the real cglue-bindgen built from /repo")
    rep.assume("the Rust side of a container is #[repr(C)] {instance, context, MaybeUninit<R>}: its layout is that of the plain C++ struct with the same members (checked against rustc's own numbers for the shipped types by h_runtime c16 / cabi_c16)")
    t0 = time.time()
    r = run_once(exe, stubdir, workroot, L, N)
    if "machinery" in r:
        raise Ctx.Machinery(r["machinery"])
    sec = "cpp_header_runtime_types"
    rep.rule(sec, "the runtime-type templates the real cglue-bindgen writes into a C++ header, operated from C++ (g++ and clang++ -std=c++11, -O0 and -O2): "
                  "container layout for instance {CBox<void>, void*} x context {none, CArc<void>, 1/4/8/12-byte user contexts} x temporary storage {none, 1, 2, 4, 8, 24 bytes, "
                  "16-byte aligned} against the plain struct with the same members (size, alignment, offset of every member) and RustMaybeUninit<X> against X; "
                  "std::string <-> CSliceRef<char|unsigned char> for every byte string of length 0..=%d over {NUL, 'a', 0xC3, ' '} (address, length, bytes); "
                  "CIterator<int> through the generated input iterator (range-for) and std::vector through CPPIterator for every int sequence up to length min(L, 5) over {0, 1, -1, 7}; drop() of the four container specialisations releases the instance, then the context; forget() nothing; a context / instance handle released explicitly with mem_drop is empty afterwards (the container's later drop() does not release it again); OpaqueCallback<S3> from a std::vector, from a functor, from a function object that keeps its state in itself and from a mutable lambda for n = 0..=%d items x 5 stop positions; distinct = distinct (case, outcome)" % (L, N))
    if "compile_error" in r:
        rep.record(sec, {"kind": "all"}, None, True, ("cpphelper:compile_error", "the driver using the header's runtime-type templates does not compile:\n" + r["compile_error"][-900:]))
        return ("report", rep.build())
    ref = None
    for opt, (rc, text) in sorted(r["outs"].items()):
        cases, done = parse(text)
        if rc != 0 or not done:
            rep.record(sec, {"kind": "all", "opt": opt}, None, True, ("cpphelper:crash", "the C++ driver (%s) died with rc=%s after %d cases" % (opt, rc, len(cases))))
            continue
        for c in cases:
            case = {"kind": c["kind"], "case": c["key"], "opt": opt}
            v = None
            if not c["ok"]:
                v = (signature(c), "%s (%s): %s - the C++ declaration does not behave like / is not laid out like the Rust type it stands for (header value/plain-struct value)" % (c["key"], opt, c["detail"]))
            trivial = (c["kind"] in ("string", "citer") and c.get("len") == 0) or (c["kind"] == "callback" and c.get("n") == 0)
            rep.record(sec, case, {"c": c["key"], "d": c["detail"]}, not trivial, v)
        key = [(c["key"], c["ok"], c["detail"]) for c in cases]
        if ref is None:
            ref = key
        elif ref != key:
            rep.record(sec, {"kind": "all", "opt": opt}, None, True, ("cpphelper:opt_dependent", "the C++ declarations behave differently between compilers / optimisation levels"))
    rep.note(sec, "wall_s", round(time.time() - t0, 1))
    return ("report", rep.build())
