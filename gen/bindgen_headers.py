"""API model -> cbindgen-shaped header text (a miniature cbindgen 0.20).

There is no cbindgen in the sandbox, so the headers `cglue-bindgen` post-processes are synthesised.  To keep
the synthesiser honest it is not a text template but a small re-implementation of the parts of cbindgen that
decide the *shape* of its output, applied to the Rust-level definitions `cglue` / `cglue-gen` produce:

* an item IR (struct / opaque / typedef / function) over a type IR (primitive, path with generic arguments,
  pointer, function pointer) transcribed from cglue/src/{boxed,arc,slice,callback,trait_group}.rs and from the
  `quote!` blocks of cglue-gen/src/{traits,trait_groups}.rs (vtable struct, RetTmp alias/struct, the
  Base/BaseBox/.../ArcRef alias families, group struct + container, doc comments verbatim);
* C mode: monomorphisation of every generic instantiation with cbindgen's name mangling
  (`<`=_  `,`=__  `>`=___ (omitted on the last-argument spine)  `*mut`=____  `*const`=_____ ), `MaybeUninit<T>` -> `T`,
  `style = "both"` (`typedef struct X {..} X;`, `struct X` in references to structs and opaque items, bare names for
  typedefs and unknown paths such as the `Context` left over from `CGlueC::Context`), `cpp_compat` trailer;
* C++ mode: generics stay templates (`template<typename T>\nstruct X {`), opaque generic items get `= void` defaults,
  aliases are `using`;
* both: items in cbindgen's order -- depth-first dependency order starting from the exported functions
  (generic arguments first, then the item's own fields, then the item), followed by the stable sort that moves
  opaque items to the front ordered by name; one blank line between items; doxygen comments ` * text`.

This reproduces every type name and the item order of /repo/examples/pregen-headers/bindings.{h,hpp} (those files are
post-processed by an older tool version, so only names/order/struct bodies are comparable), see `plugin_api_model()`.
"""
from collections import OrderedDict

# ------------------------------------------------------------------------------------------ type IR

PRIMS = {
    "u8": "uint8_t", "u16": "uint16_t", "u32": "uint32_t", "u64": "uint64_t", "i32": "int32_t", "i64": "int64_t",
    "usize": "uintptr_t", "bool": "bool", "c_void": "void", "c_char": "char",
}


def prim(n):
    return ("prim", n)


def path(name, *args):
    return ("path", name, tuple(args))


def ptr(inner, const=False):
    return ("ptr", inner, bool(const))


def fn(ret, args):
    return ("fn", ret, tuple((n, t) for n, t in args))


VOID = prim("c_void")


def mangle(ty, last=True):
    k = ty[0]
    if k == "prim":
        return ty[1]
    if k == "ptr":
        return ("_____" if ty[2] else "____") + mangle(ty[1], last)
    if k == "path":
        out = ty[1]
        args = ty[2]
        if not args:
            return out
        out += "_"
        for i, a in enumerate(args):
            if i:
                out += "__"
            out += mangle(a, last and i == len(args) - 1)
        if not last:
            out += "___"
        return out
    raise ValueError("cannot mangle %r" % (ty,))


def subst(ty, env):
    k = ty[0]
    if k == "prim":
        return ty
    if k == "ptr":
        return ("ptr", subst(ty[1], env), ty[2])
    if k == "fn":
        return ("fn", subst(ty[1], env), tuple((n, subst(t, env)) for n, t in ty[2]))
    if k == "path":
        if not ty[2] and ty[1] in env:
            return env[ty[1]]
        return ("path", ty[1], tuple(subst(a, env) for a in ty[2]))
    raise ValueError(ty)


# ------------------------------------------------------------------------------------------ item IR

def struct(name, generics, fields, doc=None, foreign=False):
    return {"kind": "struct", "name": name, "generics": list(generics), "fields": list(fields), "doc": doc, "foreign": foreign}


def opaque(name, generics, doc=None, foreign=False):
    return {"kind": "opaque", "name": name, "generics": list(generics), "doc": doc, "foreign": foreign}


def typedef(name, generics, aliased, doc=None, foreign=False):
    return {"kind": "typedef", "name": name, "generics": list(generics), "aliased": aliased, "doc": doc, "foreign": foreign}


def function(name, ret, args, doc=None, foreign=False):
    return {"kind": "function", "name": name, "ret": ret, "args": list(args), "doc": doc, "foreign": foreign}


# ------------------------------------------------------------------------------------------ docs (verbatim from cglue / cglue-gen)

DOC_CBOX = [" FFI-safe box", "", " This box has a static self reference, alongside a custom drop function.", "",
            " The drop function can be called from anywhere, it will free on correct allocator internally."]
DOC_CARC = [" FFI-Safe Arc", "", " This is an FFI-Safe equivalent of Arc<T> and Option<Arc<T>>."]
DOC_CSLICEREF = [
    " Wrapper around const slices.", "",
    " This is meant as a safe type to pass across the FFI boundary with similar semantics as regular",
    " slice. However, not all functionality is present, use the slice conversion functions.", "",
    " # Examples", "", " Simple conversion:", "", " ```", " use cglue::slice::CSliceRef;", "",
    " let arr = [0, 5, 3, 2];", "", " let cslice = CSliceRef::from(&arr[..]);", "", " let slice = cslice.as_slice();", "",
    " assert_eq!(&arr, slice);", " ```"]
DOC_OBJ = [" Simple CGlue trait object.", "",
           " This is the simplest form of CGlue object, represented by a container and vtable for a single", " trait.", "",
           " Container merely is a this pointer with some optional temporary return reference context."]
DOC_OBJCONT = [
    " Simple CGlue trait object container.", "",
    " This is the simplest form of container, represented by an instance, clone context, and", " temporary return context.", "",
    " `instance` value usually is either a reference, or a mutable reference, or a `CBox`, which",
    " contains static reference to the instance, and a dedicated drop function for freeing resources.", "",
    " `context` is either `PhantomData` representing nothing, or typically a `CArc` that can be",
    " cloned at will, reference counting some resource, like a `Library` for automatic unloading.", "",
    " `ret_tmp` is usually `PhantomData` representing nothing, unless the trait has functions that",
    " return references to associated types, in which case space is reserved for wrapping structures."]
DOC_NOCONTEXT = [" Describes absence of a context.", "", " This context is used by default whenever a specific context was not supplied."]
DOC_RETTMP_ZST = [
    " Type definition for temporary return value wrapping storage.", "",
    " The trait does not use return wrapping, thus is a typedef to `PhantomData`.", "",
    " Note that `cbindgen` will generate wrong structures for this type. It is important",
    " to go inside the generated headers and fix it - all RetTmp structures without a",
    " body should be completely deleted, both as types, and as fields in the",
    " groups/objects. If C++11 templates are generated, it is important to define a",
    " custom type for CGlueTraitObj that does not have `ret_tmp` defined, and change all",
    " type aliases of this trait to use that particular structure."]
DOC_RETTMP = [
    " Temporary return value structure, for returning wrapped references.", "",
    " This structure contains data for each vtable function that returns a reference to",
    " an associated type. Note that these temporary values should not be accessed", " directly. Use the trait functions."]


def doc_vtbl(t):
    return [" CGlue vtable for trait %s." % t, "", " This virtual function table contains ABI-safe interface for the given trait."]


def doc_group(name, traits_desc):
    return [
        " Trait group potentially implementing `%s` traits." % traits_desc, "",
        " Optional traits are not implemented here, however. There are numerous conversion",
        " functions available for safely retrieving a concrete collection of traits.", "",
        " `check_impl_` functions allow to check if the object implements the wanted traits.", "",
        " `into_impl_` functions consume the object and produce a new final structure that",
        " keeps only the required information.", "",
        " `cast_impl_` functions merely check and transform the object into a type that can",
        "be transformed back into `%s` without losing data." % name, "",
        " `as_ref_`, and `as_mut_` functions obtain references to safe objects, but do not",
        " perform any memory transformations either. They are the safest to use, because",
        " there is no risk of accidentally consuming the whole object."]


# ------------------------------------------------------------------------------------------ model -> library

SCALARS = {"u8": "u8", "u64": "u64", "i32": "i32", "usize": "usize", "bool": "bool", "u32": "u32"}

S3 = struct("S3", [], [("a", prim("u8")), ("b", prim("u16")), ("c", prim("u64"))])
# further callback element types (C18: several distinct `Callback_c_void__<T>` in one header)
POINT2 = struct("Point2", [], [("x", prim("i32")), ("y", prim("i32"))])
# a user struct with two type parameters: C++ spells it `Pair<CSliceRef<uint8_t>, uintptr_t>` (a comma inside <>), C mangles it
PAIR = struct("Pair", ["A", "B"], [("a", path("A")), ("b", path("B"))], [" A key/value pair."])
ADDR = struct("Addr", [], [("base", prim("u64")), ("len", prim("u32"))], [" A user address range."])


def arg_type(kind):
    """IR type of one method argument kind (see bindgen_model.ARG_KINDS)."""
    if kind in SCALARS:
        return prim(SCALARS[kind])
    if kind == "s3":
        return path("S3")
    if kind == "slice":
        return path("CSliceRef", prim("u8"))
    if kind == "cb":
        return path("OpaqueCallback", path("S3"))
    if kind == "cb_u64":
        return path("OpaqueCallback", prim("u64"))
    if kind == "cb_p2":
        return path("OpaqueCallback", path("Point2"))
    if kind == "cb_p3":
        return path("OpaqueCallback", path("Addr"))
    if kind == "pair":
        return path("Pair", path("CSliceRef", prim("u8")), prim("usize"))
    if kind == "ptr_const":
        return ptr(prim("u8"), True)
    if kind == "ptr_mut":
        return ptr(path("S3"), False)
    if kind == "fnptr":
        return fn(prim("u64"), [(None, prim("u64"))])
    raise ValueError("unknown argument kind %r" % kind)


ARG_NAMES = ["first", "second", "third", "fourth"]

CONT_ARG = {"Box": path("CBox", VOID), "Mut": ptr(VOID, False), "Ref": ptr(VOID, True)}


def ctx_type(ctx):
    if ctx == "none":
        return path("NoContext")
    if ctx == "arc":
        return path("CArc", VOID)
    return path(ctx)  # user-defined context struct


def alias_type(base, cont, ctx):
    """The opaque alias a user writes for (container, context): TBox / TArcBox / TCtxBox<Ctx> / TMut / ..."""
    if ctx == "none":
        return path(base + cont)
    if ctx == "arc":
        return path(base + "Arc" + cont)
    return path(base + "Ctx" + cont, path(ctx))


def _alias_family(name, base_ty, docs):
    """The 19 aliases cglue-gen emits next to `{name}Base<CGlueInst, CGlueCtx>` (traits.rs:1258-1343, trait_groups.rs:1306-1361).
    base_ty(inst, ctx) gives the IR of `{name}Base<inst, ctx>`'s *use*; docs(key) the doc lines or None."""
    T, C, A = path("CGlueT"), path("CGlueCtx"), path("CGlueC")
    nc, cv = path("NoContext"), VOID
    out = []

    def td(n, gen, ty, key):
        out.append(typedef(name + n, gen, ty, docs(key)))
    box, mut, ref = path("CBox", T), ptr(T, False), ptr(T, True)
    td("BaseBox", ["CGlueT"], base_ty(box, nc), "base_box")
    td("BaseCtxBox", ["CGlueT", "CGlueCtx"], base_ty(box, C), "base_ctx_box")
    td("BaseArcBox", ["CGlueT", "CGlueC"], path(name + "BaseCtxBox", T, path("CArc", A)), "base_arc_box")
    td("BaseMut", ["CGlueT"], base_ty(mut, nc), "base_mut")
    td("BaseCtxMut", ["CGlueT", "CGlueCtx"], base_ty(mut, C), "base_ctx_mut")
    td("BaseArcMut", ["CGlueT", "CGlueC"], base_ty(mut, path("CArc", A)), "base_arc_mut")
    td("BaseRef", ["CGlueT"], base_ty(ref, nc), "base_ref")
    td("BaseCtxRef", ["CGlueT", "CGlueCtx"], base_ty(ref, C), "base_ctx_ref")
    td("BaseArcRef", ["CGlueT", "CGlueC"], base_ty(ref, path("CArc", A)), "base_arc_ref")
    td("Box", [], path(name + "BaseBox", cv), "box")
    td("CtxBox", ["CGlueCtx"], path(name + "BaseCtxBox", cv, C), "ctx_box")
    td("ArcBox", [], path(name + "BaseArcBox", cv, cv), "arc_box")
    td("Mut", [], path(name + "BaseMut", cv), "mut")
    td("CtxMut", ["CGlueCtx"], path(name + "BaseCtxMut", cv, C), "ctx_mut")
    td("ArcMut", [], path(name + "BaseArcMut", cv, cv), "arc_mut")
    td("Ref", [], path(name + "BaseRef", cv), "ref")
    td("CtxRef", ["CGlueCtx"], path(name + "BaseCtxRef", cv, C), "ctx_ref")
    td("ArcRef", [], path(name + "BaseArcRef", cv, cv), "arc_ref")
    return out


def _trait_docs(t):
    arc = " with a [`CArc`](cglue::arc::CArc) reference counted context."
    d = {
        "base_box": " Boxed CGlue trait object for trait %s." % t,
        "base_ctx_box": " CtxBoxed CGlue trait object for trait %s with context." % t,
        "base_arc_box": " Boxed CGlue trait object for trait %s%s" % (t, arc),
        "base_mut": " By-mut CGlue trait object for trait %s." % t,
        "base_ctx_mut": " By-mut CGlue trait object for trait %s with a context." % t,
        "base_arc_mut": " By-mut CGlue trait object for trait %s%s" % (t, arc),
        "base_ref": " By-ref CGlue trait object for trait %s." % t,
        "base_ctx_ref": " By-ref CGlue trait object for trait %s with a context." % t,
        "base_arc_ref": " By-ref CGlue trait object for trait %s%s" % (t, arc),
        "base": " Base CGlue trait object for trait %s." % t,
        "box": " Opaque Boxed CGlue trait object for trait %s." % t,
        "ctx_box": " Opaque CtxBoxed CGlue trait object for trait %s with a context." % t,
        "arc_box": " Opaque Boxed CGlue trait object for trait %s%s" % (t, arc),
        "mut": " Opaque by-mut CGlue trait object for trait %s." % t,
        "ctx_mut": " Opaque by-mut CGlue trait object for trait %s with a context." % t,
        "arc_mut": " Opaque by-mut CGlue trait object for trait %s%s" % (t, arc),
        "ref": " Opaque by-ref CGlue trait object for trait %s." % t,
        "ctx_ref": " Opaque by-ref CGlue trait object for trait %s with a context." % t,
        "arc_ref": " Opaque by-ref CGlue trait object for trait %s%s" % (t, arc),
    }
    return lambda key: [d[key]]


def method_fn(m, cont_ty):
    """IR of the vtable field of method m for container type cont_ty (a type; `CGlueC` inside the generic vtable)."""
    recv = {"ref": ptr(cont_ty, True), "mut": ptr(cont_ty, False), "own": cont_ty}[m["recv"]]
    args = [("cont", recv)]
    for i, k in enumerate(m["args"]):
        args.append((m.get("arg_names", ARG_NAMES)[i], arg_type(k)))
    r = m["ret"]
    if isinstance(r, dict):  # wrapped return, only produced by wrapped_methods()
        ret = r["ty"]
    elif r == "void":
        ret = VOID
    elif r == "self":
        ret = cont_ty
    elif r == "s3":
        ret = path("S3")
    elif r == "vptr":
        ret = ptr(prim("c_void"), False)
    elif r == "cvptr":
        ret = ptr(prim("c_void"), True)
    elif r in SCALARS:
        ret = prim(SCALARS[r])
    else:
        raise ValueError("unknown return kind %r" % (r,))
    return fn(ret, args)


def wrapped_methods(w):
    """Methods + RetTmp fields of a trait whose associated types are wrapped with a group (the PluginInner shape):
    #[wrap_with_group(G)] owned returns, #[wrap_with_group_mut(G)] / _ref(G) reference returns stored in RetTmp."""
    g = w["group"]
    ctxp = path("Context")  # what cbindgen keeps of `CGlueC::Context`
    meths, tmp = [], []
    for kind in w["methods"]:
        if kind == "borrow":
            meths.append({"name": "borrow_" + g.lower(), "recv": "mut", "args": [], "ret": {"ty": path(g, path("CBox", VOID), ctxp)}})
        elif kind == "into":
            meths.append({"name": "into_" + g.lower(), "recv": "own", "args": [], "ret": {"ty": path(g, path("CBox", VOID), ctxp)}})
        elif kind == "get_mut":
            n = "mut_" + g.lower()
            meths.append({"name": n, "recv": "mut", "args": [], "ret": {"ty": ptr(path(g, ptr(VOID, False), ctxp), False)}})
            tmp.append((n, path("MaybeUninit", path(g, ptr(VOID, False), path("CGlueCtx")))))
        elif kind == "get_ref":
            n = "ref_" + g.lower()
            meths.append({"name": n, "recv": "ref", "args": [], "ret": {"ty": ptr(path(g, ptr(VOID, True), ctxp), True)}})
            tmp.append((n, path("MaybeUninit", path(g, ptr(VOID, True), path("CGlueCtx")))))
        else:
            raise ValueError(kind)
    return meths, tmp


def trait_methods(tr):
    ms = list(tr["methods"])
    tmp = []
    if tr.get("wrapped"):
        wm, tmp = wrapped_methods(tr["wrapped"])
        ms = wm + ms
    return ms, tmp


def build_library(model):
    """-> (items: OrderedDict name -> item, functions: list) at the Rust level (generic)."""
    items = OrderedDict()

    def add(it):
        items[it["name"]] = it
    T = path("T")
    add(struct("CBox", ["T"], [("instance", ptr(T, False)), ("drop_fn", fn(VOID, [(None, ptr(T, False))]))], DOC_CBOX))
    add(struct("CArc", ["T"], [("instance", ptr(T, True)), ("clone_fn", fn(ptr(T, True), [(None, ptr(T, True))])),
                               ("drop_fn", fn(VOID, [(None, ptr(T, True))]))], DOC_CARC))
    add(struct("CSliceRef", ["T"], [("data", ptr(T, True)), ("len", prim("usize"))], DOC_CSLICEREF))
    add(struct("Callback", ["T", "F"], [("context", ptr(T, False)), ("func", fn(prim("bool"), [(None, ptr(T, False)), (None, path("F"))]))]))
    add(typedef("OpaqueCallback", ["T"], path("Callback", VOID, T)))
    add(struct("CGlueObjContainer", ["T", "C", "R"], [("instance", T), ("context", path("C")), ("ret_tmp", path("R"))], DOC_OBJCONT))
    add(struct("CGlueTraitObj", ["T", "V", "C", "R"], [("vtbl", ptr(path("V"), True)),
                                                     ("container", path("CGlueObjContainer", T, path("C"), path("R")))], DOC_OBJ))
    add(opaque("NoContext", [], DOC_NOCONTEXT))
    add(opaque("MaybeUninit", ["T"]))
    add(dict(S3))
    add(dict(POINT2))
    add(dict(ADDR))
    add(dict(PAIR))
    for c in model.get("custom_contexts", []):
        add(struct(c, [], [("id", prim("u64")), ("refs", ptr(prim("u32"), False))], [" User-defined clone context %s." % c]))

    for tr in model["traits"]:
        t = tr["name"]
        ms, tmp = trait_methods(tr)
        cg = path("CGlueC")
        add(struct(t + "Vtbl", ["CGlueC"], [(m["name"], method_fn(m, cg)) for m in ms], doc_vtbl(t)))
        if tmp:
            add(struct(t + "RetTmp", ["CGlueCtx"], tmp, DOC_RETTMP))
        else:
            add(opaque(t + "RetTmp", ["CGlueCtx"], DOC_RETTMP_ZST))
        docs = _trait_docs(t)
        inst, ctx = path("CGlueInst"), path("CGlueCtx")
        rt = path(t + "RetTmp", ctx)
        add(typedef(t + "Base", ["CGlueInst", "CGlueCtx"],
                    path("CGlueTraitObj", inst, path(t + "Vtbl", path("CGlueObjContainer", inst, ctx, rt)), ctx, rt), docs("base")))
        for a in _alias_family(t, lambda i, c, t=t: path(t + "Base", i, c), docs):
            add(a)

    for g in model.get("groups", []):
        n = g["name"]
        mand, opt = sorted(g["mandatory"]), sorted(g["optional"])
        inst, ctx = path("CGlueInst"), path("CGlueCtx")
        cont = path(n + "Container", inst, ctx)
        desc = " + ".join(["%s < >" % t for t in mand + opt])
        add(struct(n, ["CGlueInst", "CGlueCtx"],
                   [("vtbl_" + t.lower(), ptr(path(t + "Vtbl", cont), True)) for t in mand + opt] + [("container", cont)],
                   doc_group(n, desc)))
        add(struct(n + "Container", ["CGlueInst", "CGlueCtx"],
                   [("instance", inst), ("context", ctx)] + [("ret_tmp_" + t.lower(), path(t + "RetTmp", ctx)) for t in mand + opt]))
        add(typedef(n + "Base", ["CGlueInst", "CGlueCtx"], path(n, inst, ctx)))
        fam = _alias_family(n, lambda i, c, n=n: path(n, i, c), lambda key: None)
        for a in fam:
            # trait_groups.rs: BaseBox = BaseCtxBox<T, NoContext> (unlike trait objects, which go to Base directly)
            if a["name"] == n + "BaseBox":
                a["aliased"] = path(n + "BaseCtxBox", path("CGlueT"), path("NoContext"))
            add(a)

    functions = []
    foreign = model.get("foreign") or []
    fitems, ffuncs = foreign_items(foreign, model)
    for it in fitems:
        add(it)
    if model.get("foreign_first"):
        functions += ffuncs
    for ins in model["instances"]:
        base = ins["trait"] if ins["kind"] == "obj" else ins["group"]
        al = alias_type(base, ins["cont"], ins["ctx"])
        fname = "make_%s_%s" % (base.lower(), (ins["ctx"] if ins["ctx"] in ("none", "arc") else ins["ctx"].lower()) + ins["cont"].lower())
        if model.get("root_style", "uninit") == "uninit":
            arg = ptr(path("MaybeUninit", al), False)
        else:
            arg = ptr(al, False)
        functions.append(function(fname, prim("i32"), [("ok_out", arg)], [" Create the %s object." % mangle(al)]))
    if not model.get("foreign_first"):
        functions += ffuncs
    return items, functions


# ------------------------------------------------------------------------------------------ foreign (non-CGlue) declarations

FOREIGN_KINDS = ["vtblthing", "rettmp_like", "ctx_suffix", "tagged", "func"]


def foreign_items(kinds, model):
    """Unrelated user declarations whose names resemble CGlue patterns. They reach the header only through the
    foreign function(s), exactly as cbindgen would pull them in (dependency order)."""
    its, fns = [], []
    args = []
    if "vtblthing" in kinds:
        its.append(struct("MyVtblThing", [], [("ctx", ptr(VOID, False)), ("run", fn(prim("u32"), [(None, ptr(VOID, False)), (None, prim("u32"))]))],
                          [" A user struct with a function pointer; the name contains `Vtbl` but it is no CGlue vtable."], True))
        args.append(("thing", path("MyVtblThing")))
    if "rettmp_like" in kinds:
        its.append(struct("RetTmp_like", [], [("ret_tmp", prim("u64")), ("context", prim("u32"))], None, True))
        args.append(("tmp", path("RetTmp_like")))
    if "ctx_suffix" in kinds:
        its.append(struct("Render_Context", [], [("id", prim("u32")), ("frame", prim("u64"))],
                          [" User rendering context (the name merely ends in `_Context`)."], True))
        args.append(("rctx", ptr(path("Render_Context"), True)))
    if "tagged" in kinds:
        its.append(struct("Tagged", ["T"], [("tag", prim("u32")), ("value", path("T"))], [" A user generic pairing a tag with a value."], True))
        has_arc = any(i["ctx"] == "arc" for i in model["instances"])
        inner = path("CArc", VOID) if has_arc else prim("u64")
        its.append(typedef("TaggedHandle", [], path("Tagged", inner), None, True))
        args.append(("handle", ptr(path("TaggedHandle"), False)))
    # the runtime helper types used directly by exported functions (a library that exports helpers but no object or group)
    if "runtime_only" in kinds:
        args.append(("boxed", path("CBox", VOID)))
        args.append(("shared", ptr(path("CArc", VOID), True)))
    # users of `const TypeLayout *` (what a crate built with layout checks exports): TypeLayout undeclared (the tool supplies a
    # forward declaration), declared as a struct, or (C++) an alias of a user struct
    if "layout_undeclared" in kinds or "layout_struct" in kinds or "layout_alias" in kinds:
        if "layout_struct" in kinds:
            its.append(struct("TypeLayout", [], [("size", prim("u64")), ("align", prim("u64"))], [" Layout description."], True))
        if "layout_alias" in kinds:
            its.append(struct("LayoutInfo", [], [("size", prim("u64")), ("align", prim("u64"))], [" Layout description."], True))
            its.append(typedef("TypeLayout", [], path("LayoutInfo"), None, True))
        its.append(struct("ModuleHeader", [], [("layout", ptr(path("TypeLayout"), True)), ("version", prim("u32"))], [" What a module exports for a load-time layout check."], True))
        args.append(("header", ptr(path("ModuleHeader"), True)))
    # user declarations whose documentation is not ASCII, resp. mentions words of the other language in the middle of a line
    if "nonascii" in kinds:
        its.append(struct("Mesure", [], [("celsius", prim("u32")), ("kelvin", prim("u64"))],
                          [" Temp\u00e9rature en \u00b0C (mesure \u00abbrute\u00bb, \u00b10.5 K) \u2014 \u6e2c\u5b9a\u5024."], True))
        args.append(("mesure", ptr(path("Mesure"), True)))
    if "cppwords" in kinds:
        its.append(struct("Mixer", [], [("alpha", prim("u32")), ("beta", prim("u32"))],
                          [" Blend two values using alpha = `t` / 255 and beta = 255 - alpha.",
                           " Not meant here: template<typename T> struct Mixer; nor #include <cstdint> nor typedef struct Mixer Mixer;"], True))
        args.append(("mixer", ptr(path("Mixer"), True)))
    # a large number of plain user records (a header well beyond one pipe buffer of 64 KiB), reached through one table struct
    if "bulk" in kinds:
        nrec = 1200
        for k in range(nrec):
            its.append(struct("Rec%04d" % k, [], [("id", prim("u32")), ("value", prim("u64"))], None, True))
        its.append(struct("RecTable", [], [("r%04d" % k, ptr(path("Rec%04d" % k), True)) for k in range(nrec)], [" Table of user records."], True))
        args.append(("recs", ptr(path("RecTable"), True)))
    # one short function per planted type: every declaration stays below cbindgen's line_length (vertical wrapping is not modelled)
    if "func" in kinds:
        fns.append(function("render_frame", prim("u32"), [("frame_no", prim("u32")), ("flags", prim("u64"))], [" Unrelated exported function."], True))
    for n, t in args:
        fns.append(function("use_" + n, VOID, [(n, t)], None, True))
    return its, fns


# ------------------------------------------------------------------------------------------ cbindgen core

class Lib:
    def __init__(self, items, functions, lang, vertical=False):
        self.lang = lang
        # function-pointer fields longer than the line length written one argument per line (newer cbindgen releases lay
        # out over-long function-pointer declarators vertically; the published header of the pinned release does not)
        self.vertical = vertical
        self.functions = functions
        self.items = OrderedDict(items)
        if lang == "c":
            self._monomorphize()

    # ---- C: MaybeUninit<T> -> T, then instantiate every generic use
    def _simplify(self, ty):
        k = ty[0]
        if k == "prim":
            return ty
        if k == "ptr":
            return ("ptr", self._simplify(ty[1]), ty[2])
        if k == "fn":
            return ("fn", self._simplify(ty[1]), tuple((n, self._simplify(t)) for n, t in ty[2]))
        if ty[1] == "MaybeUninit" and len(ty[2]) == 1:
            return self._simplify(ty[2][0])
        return ("path", ty[1], tuple(self._simplify(a) for a in ty[2]))

    def _monomorphize(self):
        generic = self.items
        self.items = OrderedDict()
        for n, it in generic.items():
            if not it["generics"]:
                self.items[n] = None  # placeholder keeps nothing; order is decided later by dependencies
        self._generic = generic

        def resolve(ty):
            k = ty[0]
            if k == "prim":
                return ty
            if k == "ptr":
                return ("ptr", resolve(ty[1]), ty[2])
            if k == "fn":
                return ("fn", resolve(ty[1]), tuple((n, resolve(t)) for n, t in ty[2]))
            args = ty[2]
            if not args:
                return ty
            name = mangle(ty)  # mangled from the full generic spelling (closing brackets depend on nesting)
            g = generic.get(ty[1])
            if g is not None and name not in self.items:
                self.items[name] = None
                self.items[name] = inst(g, args, name)
            return ("path", name, ())

        def inst(g, args, name):
            env = dict(zip(g["generics"], args))
            it = dict(g)
            it["name"], it["generics"], it["generic_name"] = name, [], g["name"]
            if g["kind"] == "struct":
                it["fields"] = [(n, resolve(self._simplify(subst(t, env)))) for n, t in g["fields"]]
            elif g["kind"] == "typedef":
                it["aliased"] = resolve(self._simplify(subst(g["aliased"], env)))
            return it
        for n, it in generic.items():
            if it["generics"]:
                continue
            it = dict(it)
            if it["kind"] == "struct":
                it["fields"] = [(fn_, resolve(self._simplify(t))) for fn_, t in it["fields"]]
            elif it["kind"] == "typedef":
                it["aliased"] = resolve(self._simplify(it["aliased"]))
            self.items[n] = it
        fs = []
        for f in self.functions:
            f = dict(f)
            f["ret"] = resolve(self._simplify(f["ret"]))
            f["args"] = [(n, resolve(self._simplify(t))) for n, t in f["args"]]
            fs.append(f)
        self.functions = fs
        self.resolve = lambda ty: resolve(self._simplify(ty))

    # ---- dependency order
    def ordered_items(self):
        order, seen = [], set()

        def type_deps(ty, params):
            k = ty[0]
            if k == "prim":
                return
            if k == "ptr":
                type_deps(ty[1], params)
                return
            if k == "fn":
                type_deps(ty[1], params)
                for _, t in ty[2]:
                    type_deps(t, params)
                return
            for a in ty[2]:
                type_deps(a, params)
            n = ty[1]
            if n in params:
                return
            it = self.items.get(n)
            if it is not None and n not in seen:
                seen.add(n)
                item_deps(it)
                order.append(it)

        def item_deps(it):
            params = set(it["generics"])
            if it["kind"] == "struct":
                for _, t in it["fields"]:
                    type_deps(t, params)
            elif it["kind"] == "typedef":
                type_deps(it["aliased"], params)
        for f in self.functions:
            type_deps(f["ret"], ())
            for _, t in f["args"]:
                type_deps(t, ())
        # Dependencies::sort(): opaque items first, by path; everything else keeps its order (stable)
        opq = sorted([i for i in order if i["kind"] == "opaque"], key=lambda i: i["name"])
        return opq + [i for i in order if i["kind"] != "opaque"]

    # ---- declarators
    def tag(self, name):
        if self.lang != "c":
            return ""
        it = self.items.get(name)
        return "struct " if it is not None and it["kind"] in ("struct", "opaque") else ""

    def base(self, ty):
        if ty[0] == "prim":
            return PRIMS[ty[1]]
        if ty[0] == "path":
            s = self.tag(ty[1]) + ty[1]
            if ty[2]:
                s += "<" + ", ".join(self.decl(a, "") for a in ty[2]) + ">"
            return s
        raise ValueError(ty)

    def decl(self, ty, ident):
        """C declarator text for `ty ident` in cbindgen's spelling (ident may be '')."""
        k = ty[0]
        if k in ("prim", "path"):
            return self.base(ty) + (" " + ident if ident else "")
        if k == "ptr":
            inner = ty[1]
            if inner[0] == "fn":
                raise ValueError("pointer to function pointer not modelled")
            if inner[0] == "ptr":
                raise ValueError("pointer to pointer not modelled")
            c = "const " if ty[2] else ""
            return c + self.base(inner) + (" *" + ident if ident else "*")
        if k == "fn":
            ret = ty[1]
            args = ", ".join(self.decl(t, n or "") for n, t in ty[2])
            d = "(*%s)(%s)" % (ident, args)
            if ret[0] == "ptr":
                c = "const " if ret[2] else ""
                return c + self.base(ret[1]) + " *" + d
            return self.base(ret) + " " + d
        raise ValueError(ty)

    # ---- C layout of a (monomorphised) type, as the Rust side lays it out: zero-sized / opaque items take no space
    PRIM_SIZE = {"u8": 1, "i8": 1, "bool": 1, "c_char": 1, "u16": 2, "i16": 2, "u32": 4, "i32": 4, "f32": 4,
                 "u64": 8, "i64": 8, "f64": 8, "usize": 8, "isize": 8}

    def size_align(self, ty):
        """-> (size, align) or None when the type mentions something this model cannot size (placeholders, c_void by value)."""
        k = ty[0]
        if k in ("ptr", "fn"):
            return (8, 8)
        if k == "prim":
            n = self.PRIM_SIZE.get(ty[1])
            return None if n is None else (n, n)
        if ty[2]:
            return None  # generic spelling: only monomorphised (C) libraries are sized
        it = self.items.get(ty[1])
        if it is None:
            return None
        if it["kind"] == "opaque":
            return (0, 1)
        if it["kind"] == "typedef":
            return self.size_align(it["aliased"])
        off, al = 0, 1
        for _, t in it["fields"]:
            sa = self.size_align(t)
            if sa is None:
                return None
            s, a = sa
            off = (off + a - 1) // a * a + s
            al = max(al, a)
        return ((off + al - 1) // al * al, al)

    # ---- writers
    def doc(self, it):
        if not it.get("doc"):
            return ""
        return "/**\n" + "".join(" *%s\n" % l for l in it["doc"]) + " */\n"

    def field_text(self, t, f):
        line = "    %s;\n" % self.decl(t, f)
        if not self.vertical or t[0] != "fn" or len(line) <= 101 or len(t[2]) < 2:
            return line
        cut = line.index(")(") + 2
        head = line[:cut]
        args = [self.decl(ty, n or "") for n, ty in t[2]]
        return head + (",\n" + " " * len(head)).join(args) + ");\n"

    def item_text(self, it):
        d = self.doc(it)
        if self.lang == "c":
            n = it["name"]
            if it["kind"] == "struct":
                body = "".join(self.field_text(t, f) for f, t in it["fields"])
                return d + "typedef struct %s {\n%s} %s;\n" % (n, body, n)
            if it["kind"] == "opaque":
                return d + "typedef struct %s %s;\n" % (n, n)
            return d + "typedef %s;\n" % self.decl(it["aliased"], n)
        n = it["name"]
        if it["kind"] == "opaque":
            t = "template<%s>\n" % ", ".join("typename %s = void" % g for g in it["generics"]) if it["generics"] else ""
            return d + t + "struct %s;\n" % n
        t = "template<%s>\n" % ", ".join("typename " + g for g in it["generics"]) if it["generics"] else ""
        if it["kind"] == "struct":
            body = "".join(self.field_text(ty, f) for f, ty in it["fields"])
            return d + t + "struct %s {\n%s};\n" % (n, body)
        return d + t + "using %s = %s;\n" % (n, self.decl(it["aliased"], ""))

    def function_text(self, f):
        args = ", ".join(self.decl(t, n) for n, t in f["args"]) or ("void" if self.lang == "c" else "")
        line = "%s(%s);\n" % (self.decl(f["ret"], f["name"]), args)
        if len(line) > 101:
            raise ValueError("function declaration longer than cbindgen's line_length (wrapping is not modelled): " + line)
        return self.doc(f) + line


def render(model, lang):
    """-> dict(text=header, foreign=[verbatim foreign declaration texts in order], lib=Lib)"""
    items, functions = build_library(model)
    lib = Lib(items, functions, lang, vertical=model.get("fnptr_layout") == "vertical")
    out = []
    guard = model.get("guard")
    if guard:
        out.append("#ifndef %s\n#define %s\n\n" % (guard, guard))
    if lang == "c":
        out.append("#include <stdarg.h>\n#include <stdbool.h>\n#include <stdint.h>\n#include <stdlib.h>\n")
    else:
        out.append("#include <cstdarg>\n#include <cstdint>\n#include <cstdlib>\n#include <ostream>\n#include <new>\n")
    foreign = []
    for it in lib.ordered_items():
        txt = lib.item_text(it)
        if it.get("foreign"):
            foreign.append(txt)
        out.append("\n" + txt)
    compat = lang == "c" and model.get("cpp_compat", True)
    if lib.functions:
        if compat:
            out.append("\n#ifdef __cplusplus\nextern \"C\" {\n#endif // __cplusplus\n")
        elif lang == "cpp":
            out.append("\nextern \"C\" {\n")
        for f in lib.functions:
            txt = lib.function_text(f)
            if f.get("foreign"):
                foreign.append(txt)
            out.append("\n" + txt)
        if compat:
            out.append("\n#ifdef __cplusplus\n} // extern \"C\"\n#endif // __cplusplus\n")
        elif lang == "cpp":
            out.append("\n} // extern \"C\"\n")
    if guard:
        out.append("\n#endif /* %s */\n" % guard if lang == "c" else "\n#endif // %s\n" % guard)
    return {"text": "".join(out), "foreign": foreign, "lib": lib}


# ------------------------------------------------------------------------------------------ reference model: examples/plugin-api

def plugin_api_model():
    """The API of /repo/examples/plugin-api restricted to what the model language can say (CIterator<i32> is replaced by
    a second callback-free method). Used to validate the synthesiser against examples/pregen-headers and examples/c-user-bin."""
    return {
        "traits": [
            {"name": "PluginInner", "methods": [], "wrapped": {"group": "FeaturesGroup", "methods": ["borrow", "into", "get_mut"]}},
            {"name": "MainFeature", "methods": [{"name": "print_self", "recv": "ref", "args": [], "ret": "void"}]},
            {"name": "KeyValueStore", "methods": [
                {"name": "write_key_value", "recv": "mut", "args": ["slice", "usize"], "arg_names": ["name", "val"], "ret": "void"},
                {"name": "get_key_value", "recv": "ref", "args": ["slice"], "arg_names": ["name"], "ret": "usize"}]},
            {"name": "KeyValueDumper", "methods": [
                {"name": "dump_key_values", "recv": "ref", "args": ["cb"], "arg_names": ["callback"], "ret": "void"}]},
            {"name": "Clone", "methods": [{"name": "clone", "recv": "ref", "args": [], "ret": "self"}]},
        ],
        "groups": [{"name": "FeaturesGroup", "mandatory": ["MainFeature"], "optional": ["KeyValueStore", "KeyValueDumper", "Clone"]}],
        "instances": [{"kind": "obj", "trait": "PluginInner", "cont": "Box", "ctx": "arc"}],
    }


if __name__ == "__main__":
    import sys
    lang = sys.argv[1] if len(sys.argv) > 1 else "c"
    sys.stdout.write(render(plugin_api_model(), lang)["text"])
