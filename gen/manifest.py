#!/usr/bin/env python3
"""Regenerates /verif/MANIFEST.json from the table below (python3 gen/manifest.py)."""
import json, os, subprocess, sys

ROOT = os.path.dirname(os.path.dirname(os.path.abspath(__file__)))

# property -> (level category, level text, design ref, level note, technique, engine)
CLAIMS = {
    "C11": ("model_checking",
            "Every operation history up to the depth bound over the CVec alphabet (incl. out-of-range insert/remove, reserve, clone, "
            "element writes, all From<Vec> shapes) is executed on the real CVec in lock-step with a Vec reference model, for seven element "
            "types (incl. zero-sized with destructor, heap-owning, and one whose Clone is not a bitwise copy), over an allocator that always relocates on growth and over one that grows in place inside a size class; contents, length, capacity, panics, per-element drop counts, allocator balance/layout/red zones and the calls made "
            "through the stored reserve_fn/drop_fn are compared after every step. Full enumeration (no state merging) plus a deeper BFS "
            "with canonical-state deduplication. The alphabet includes clone_from into shorter / longer vectors and conversion from vectors with KiB of spare capacity.",
            "DESIGN.md §4 C11",
            "Vec is the reference model; bounded depth and length; no random long sequences.",
            "explicit-state exploration of the real code (exhaustive operation histories vs. reference model)",
            "h_runtime/c11"),
    "C01": ("exploration",
            "Differential exploration over the program grammar G: every member (receiver x argument shape x return shape, every shape also "
            "in position 2, explicit-lifetime and multi-method members; 187 traits quick / 1625 thorough) is compiled through the real "
            "proc-macros with a stateful implementor; every call sequence up to the depth bound over (argument value, return arm), consuming "
            "calls last, is run directly on the implementor and through every container that can carry the trait (Box, ArcBox, Mut, ArcMut, "
            "Ref, ArcRef, CArcSome); returned values, addresses seen, caller-side buffers, the call log (method id, arguments as seen, "
            "instance id, state at entry), final state, drop counts, context count and allocator balance must agree step by step.",
            "DESIGN.md §3, §4 C01",
            "Programs outside G (nested wrapped shapes, custom_impl bodies) and sequences above the depth bound are not covered; group objects "
            "and casts are exercised by the C08 matrix with instance-identifying return values.",
            "bounded exhaustive enumeration of programs x call sequences, differential against direct calls on the real code",
            "h_objects/objs"),
    "C02": ("exploration",
            "Same generated harness as C01, depth 1 over the whole value domain of every wrapped shape in every position the grammar accepts it: "
            "slices (empty, offset, zero-sized elements), strings (empty, non-ASCII, interior and trailing NUL, only-NUL, white-space-framed), Option of a raw pointer, module-path spellings of Option/Result, None/Some and Ok/Err extremes, extreme "
            "integers, impl Into sources, by-value struct, out-parameter, callbacks stopping at each position, iterators of length 0/1/4, fn "
            "pointer, raw pointer, and every return arm; the callee's view (elements, length, address) and the caller's view of the result and "
            "of its own buffers are compared with the direct call. Argument shapes include Option<&str> / Option<&[u8]> (Some of an empty borrow) and a plain associated type as element of wrapped argument shapes.",
            "DESIGN.md §4 C02",
            "Value domains are the listed finite ones.",
            "bounded exhaustive enumeration of inputs x programs, differential against direct calls on the real code",
            "h_objects/objs"),
    "C03": ("exploration",
            "Every trait of the grammar tier, every generated group family, the hand-written structure members (five wrap_with forms) and every "
            "runtime wrapper type x element type (argument, return and fn-pointer-field position) is expanded by the real generator driven as "
            "a library and the printed expansion is compiled with improper_ctypes_definitions/improper_ctypes denied; a positive-control "
            "crate (tuple, nested slice, Rust-ABI fn pointer) must be rejected or the run is a machinery failure; a token-level pass over the same expansions AND over "
            "the library's own built-in external traits (cglue_builtin_ext_traits!(), without features and with cglue-gen's task + futures features) checks "
            "that every vtable field is an extern \"C\" fn pointer whose signature contains no Rust-only type at any depth (pointees included: rustc's "
            "definition lints stop at pointers) and that every generated struct carries repr(C)/transparent. The task-feature C waker type is linted by value with cglue built with task + futures (own positive control); traits using Option<&str> / Option<&[T]> are outside the quantifier and not judged.",
            "DESIGN.md §4 C03",
            "rustc's FFI lints are the yardstick (the property's own wording); programs outside G are not claimed.",
            "exhaustive enumeration of a bounded program grammar, compiler lint as per-program oracle",
            "gen/expand_c03.py + engine/expander"),
    "C05": ("exploration",
            "Host and plugin (cdylib) are built in several variants (stable/nightly x debug/release x -Zrandomize-layout seeds), each with its "
            "own tagging global allocator; for every (host build, plugin build) pair of the tier the host loads the plugin and explores all "
            "lifecycle histories up to the depth bound with creation on one side and use/clone/cast/spawn/consume/drop on the other (objects, "
            "groups, CVec, boxed slice, CBox, CArc, callbacks, iterators, both directions); observations must equal the single-module reference "
            "run, no block may be freed by a module that did not allocate it or with another layout, context count and live-instance counters "
            "must balance, plugin allocations == frees.",
            "DESIGN.md §4 C05",
            "Same target ABI on both sides; quick = 2 pairs, thorough = 36 pairs; unloading while plugin code runs is not modelled.",
            "explicit-state exploration of the real code over a build-configuration matrix, differential against a single-module run",
            "gen/xmod_c05.py + engine_xmod"),
    "C17": ("exploration",
            "API models (1-4 traits, 0-2 groups, 0-4 arguments of 10 kinds, three receivers, seven return kinds incl. Self and raw void pointers, a by-value struct with two type parameters, Box/Mut/Ref, no "
            "context / CArc, several instantiations, name clashes, config keys, C and C++) are rendered by a miniature cbindgen, pushed through "
            "the REAL cglue-bindgen binary (stub cbindgen on PATH) and every generated wrapper is called from a generated mock translation unit "
            "compiled with gcc/g++; each call must reach exactly its vtable slot with the container and the same arguments, return the slot's "
            "result, and consuming wrappers / drop helpers must release instance and context exactly once while holding a context clone across the call (every context clone is a distinct handle in the mock, so a double release is seen even next to a leak). "
            "Ten confirmed tool defects are recorded as known findings; causes that depend on unverifiable details of cbindgen's C++ output are recorded, not judged. Group and trait names built from the generator's own words (Container, Vtbl, CGlue) are part of the model space. Header models include over-long function-pointer fields laid out one argument per line; the C release / clone helpers are driven on every state of the published box and arc fields.",
            "DESIGN.md §4 C17, §5.6",
            "No cbindgen offline: the synthesiser (gen/bindgen_headers.py) is a model of cbindgen 0.20 validated against the published example headers.",
            "exhaustive enumeration of a bounded header grammar through the real tool, executed against mock vtables",
            "gen/bindgen_c17.py"),
    "C18": ("exploration",
            "Same header space plus several context types, wrapped-return structs, planted foreign declarations with CGlue-like names, users of const TypeLayout* (undeclared / struct / C++ alias), all config "
            "combinations and 8 argument layouts: the processed header must compile on its own (gcc -std=c99 / g++ -std=c++11), in C every object type must keep the size the Rust side gives it, R fresh-process "
            "runs must be byte-identical (R=5/25) and a further run over a stale, longer file at the output path must give the same bytes, planted declarations must survive verbatim and in order, the stub cbindgen must receive exactly the "
            "post-`--` arguments minus the output path, and the processed header must land in that path. Includes a header of 1200 user records (beyond one pipe buffer); a tool run that never finishes is a failed run.",
            "DESIGN.md §4 C18, §5.5",
            "Synthesised cbindgen output (see C17).",
            "exhaustive enumeration of a bounded header/config grammar through the real tool, repeated-run and compiler oracles",
            "gen/bindgen_c18.py"),
    "C04": ("exploration",
            "Raw-word view of generated layout: (a) for every trait of G the static vtable is read as machine words: exactly one pointer per "
            "method, word i is method i, and calling word i as a C caller would runs method i once; concrete and opaque objects have equal "
            "size/alignment/bits; (b) for every generated group family x enabled set x container x context the group object is read as words: "
            "vtable pointers in name order (mandatory, then optional, null when absent; every non-null one is called through), then instance, "
            "then context; cast/upcast keep the bits, the final form is mandatory + requested + container. "
            "(c) the expander is run in 5/20 fresh processes and from two crates over every input: the layout signature (ordered field/type lists of every repr(C) struct) must be identical.",
            "DESIGN.md §4 C04",
            "rustc repr(C) is trusted; both sides of a plugin boundary are compared by the layout-signature hash in the C05 harness.",
            "bounded exhaustive enumeration of programs/configurations on the real code (raw-memory oracle)",
            "h_objects/objs"),
    "C06": ("model_checking",
            "Every history up to the depth bound over {create node object / group object (4 enabled sets) / leaf object / CBox / CSliceBox, "
            "plain call, obtain owned child (object, group), obtain borrowed child (ref, mut, group ref), consuming call (plain, returning a "
            "child), check/as_ref/as_mut/cast/into for every subset of the optional traits (failing casts included), clone, upcast, drop} on a "
            "pool of objects is re-executed on the real generated code in lock-step with a model of live payload ids; after every step each "
            "payload's drop count must be 0 while its owner lives and exactly 1 afterwards; teardown checks every id and the allocator "
            "(layout-checked frees, quarantine, red zones, leaks). Full enumeration plus BFS with canonical-state dedup. The same harness is also built against cglue with the rust_void feature (the erased instance type is zero-sized without a destructor).",
            "DESIGN.md §4 C06",
            "Hand-written structure members (one node trait with five wrapped associated types, one group family); bounded depth/pool. "
            "By-reference containers and all generated shapes are covered for drop counts by the C01 harness.",
            "explicit-state exploration of the real code (exhaustive operation histories vs. reference model)",
            "h_life"),
    "C07": ("model_checking",
            "Same history explorer with one shared CArc context: after every step the context's strong count must equal 1 + the number of live "
            "derived objects (owned children, groups, clones, cast/final forms, results of by-value calls) and return to 1 at teardown, the "
            "context payload must be dropped then and never earlier. A further section enumerates every operation sequence over a parent whose "
            "wrapped children are bounded by the trait's lifetime parameter (owned object / group children, Result Ok and Err, drops in both orders). A separate exhaustive section makes the object the last holder and checks, "
            "by a backtrace taken in the context payload's Drop, that a consuming call does not release it while a generated wrapper frame is "
            "on the stack. The borrowed-child leak (known finding) is detected by a probe, reported once, and the model is adjusted so that "
            "every other discrepancy is still a violation.",
            "DESIGN.md §4 C07, §5.1",
            "Release point observed through symbol names in std::backtrace (debug info kept in the harness profile).",
            "explicit-state exploration of the real code (exhaustive operation histories vs. reference model)",
            "h_life"),
    "C08": ("exploration",
            "Complete matrix: generated group families (n = 1..3 quick / 1..4 thorough optional traits, a family without mandatory trait, "
            "aliased generic instantiations, traits with &mut methods, out-of-order declarations, names whose case-folded order differs, the "
            "4-argument cglue_impl_group! form with a Fwd<&mut T> container) x all 2^n implementing types x all 2^n-1 "
            "requested subsets x {check, as_ref, as_mut, cast, into} x {Box, Mut, Ref}; success iff requested subset of enabled; on success "
            "every mandatory and requested method returns the value of this instance and trait, mutations reach the instance, cast+upcast gives "
            "a group with exactly the enabled set (also on the way back through the generated From impl), payload drop counts exact. Groups with built-in "
            "traits (Debug, Display, Clone) in the mandatory list: every operation for every enabled request must be usable and offer the mandatory traits "
            "on its result, decided by rustc with one probe per cell (gen/castprobe_c08.py).",
            "DESIGN.md §4 C08, §9.4b",
            "n <= 4; methods are &self/&mut self returning u64.",
            "exhaustive enumeration of a finite configuration matrix on the real code",
            "h_objects/objs + gen/castprobe_c08.py"),
    "C09": ("exploration",
            "Complete matrix handle kind x payload class x marker x context x form (plain into_opaque / trait_obj! / group_obj!): one probe per "
            "cell asks rustc whether the opaque type has the marker; the twin probe on the concrete handle decides what is allowed; failures must "
            "be E0277 naming the marker; cells whose conversion is rejected are recorded as not expressible. The matrix is swept once per feature configuration of the "
            "cglue crate (default, layout_checks). 180 cells violate the property on "
            "the current tree (known findings, DESIGN 5.2). Std wrappers (Pin, Box, Arc, Option) around the pointer kinds are swept as handle kinds, so that a conversion rule added for one of them is judged like the others.",
            "DESIGN.md §4 C09, §5.2",
            "rustc's auto-trait solver is the oracle per cell; one representative type per payload class.",
            "exhaustive enumeration of a finite configuration matrix, compiler as per-cell oracle",
            "gen/sendsync_c09.py"),
    "C20": ("exploration",
            "For 21 base definitions (13 quick; incl. bases that use every wrapped shape twice, incl. traits reachable only through another trait's wrapped return type / opaque object "
            "argument, callbacks, iterators, element types) every single-edit twin (add/remove/rename/reorder method, argument/return C type, receiver, "
            "int_result toggle, group trait add/remove/reorder, mandatory add) plus identical twins and missing sides is expanded by the real "
            "macros under layout_checks and compared through compare_layouts / VerifyLayout::check in both directions, for every container and "
            "context (thorough); all 9 ordered pairs of VerifyLayout::and; every sequence of up to 3 comparisons in one process (the verdict must not depend on earlier calls); "
            "and every call of a family placed before / inside (other thread, forced through abi_stable's extra-checks hook as a scheduling point) / after the walk of another comparison. Helper methods without a vtable entry (#[skip_func]) added to a trait must leave the verdict Valid.",
            "DESIGN.md §4 C20",
            "abi_stable's comparison is trusted; twins are modules of one crate; edits that keep every C type are recorded, not judged.",
            "exhaustive enumeration of single-edit program pairs on the real code",
            "gen/layout_c20.py + engine_layout/h_layout"),
    "C10": ("model_checking",
            "Sequential half: every history up to the depth bound over {from value/Arc/Option<Arc>, default, clone, take, transpose both ways, "
            "into_opaque, into_arc, drop} on a pool of typed and opaque CArc/CArcSome handles is executed on the real code against a "
            "reference model (multiset of handles per allocation); strong counts, payload drop counts, pointer identity, the stored "
            "function pointers (C view) and allocator balance are checked after every step; full enumeration plus BFS to closure of the "
            "canonical state space; payload types of alignment 8 and 64; two teardown orders (a retained std Arc goes last / the handles "
            "go last, so that the last handle must destroy the payload); an extended alphabet adds opaque handles assembled through the published "
            "layout with another module's clone/drop functions, clone_from, and handles dropped while a panic unwinds. Concurrent half: loom explores all interleavings (preemption-bounded) of 2-3 threads operating on handles "
            "to one allocation over the real arc.rs compiled against loom's Arc, every scenario with and without another owner "
            "(handles-only: the payload must be destroyed exactly once by whichever handle is released last). Payloads that own further arcs (chains with observers, opaque head) are released through nested, re-entrant drops.",
            "DESIGN.md §4 C10",
            "std Arc / loom's Arc model trusted; bounded pools, depths and preemptions.",
            "explicit-state exploration of the real code + loom (DPOR over all interleavings within a preemption bound)",
            "h_runtime/c10 + h_loom_arc"),
    "C12": ("exploration",
            "Exhaustive input enumeration: every sub-slice (offset x length) of a backing buffer for four element types through every "
            "conversion and write path of CSliceRef/CSliceMut; every byte string up to a length bound over an alphabet of UTF-8 boundary "
            "bytes for the &str decision against core::str::from_utf8; every variant of COption/CResult/CTup1-4 with drop-counting, zero-sized "
            "and extreme payloads. After a CSliceMut re-borrow the original view is checked as well.",
            "DESIGN.md §4 C12",
            "from_utf8 is the reference; lengths above the bound not covered.",
            "exhaustive enumeration of a bounded input domain on the real code",
            "h_runtime/c12"),
    "C13": ("exploration",
            "All four integer-result functions on every Ok/Err x shipped error type with drop-counting payloads and a poisoned output slot; "
            "ALL 2^32 raw OS error codes through encode/decode (both tiers); every listed non-OS ErrorKind. Generated half: every trait "
            "of the grammar using int_result / no_int_result / a result alias (with and without payload, droppable payload, io::Error, "
            "fmt::Error) x receivers x call sequences through all containers, differential against the direct call; and every entry marked to "
            "use integer results (method-level, trait-level, alias, both levels in one trait) must have a C signature that returns the i32 code; the raw "
            "entries of a trait-level int_result trait are driven with one re-used poisoned output slot per payload kind (plain, droppable, wrapped object): "
            "Err / Ok / Err, every byte unchanged after a failed call.",
            "DESIGN.md §4 C13",
            "std::io::Error::raw_os_error is the reference for 'same OS code'.",
            "exhaustive enumeration of the complete input domain (2^32 codes) on the real code",
            "h_runtime/c13 + h_objects/objs"),
    "C14": ("exploration",
            "Every string of up to L symbols over {NUL, a, b, 2-byte, 3-byte sequence} through From<&str>, From<String> (exact capacity and 1 / 7 / 64 bytes of spare capacity), From<&[u8]>; the raw "
            "buffer is inspected through the tracking allocator (one block holding the prefix and then its one NUL), all value-semantics "
            "methods are compared with the expected prefix, and the allocation must be freed once with its allocated size. Every input is also placed so that it ends at / starts after an unreadable page: a conversion that reads outside its input kills the process, which is attributed to the case. Strings around every 8- and 16-bit length boundary (up to 131073 bytes) go through the same oracle.",
            "DESIGN.md §4 C14",
            "Inputs longer than the bound not covered; invalid UTF-8 byte slices are outside the property's quantifier.",
            "exhaustive enumeration of a bounded input domain on the real code, crash-isolated",
            "h_runtime/c14"),
    "C15": ("model_checking",
            "Callbacks: every (length, stop position, sink kind, delivery path) cell with drop-counting items, the delivery paths including "
            "feed_into / feed_into_mut / extend from a lazy source passed by_ref (the source must be advanced by exactly the offered items). A second step drives the callback / iterator helpers that the real "
            "cglue-bindgen writes into a C header (dynamic and static collectors, counter, buffer iterator) from C for every item count up to a bound. Iterators: for every source "
            "iterator shape and length, every operation sequence up to a depth over {next through each wrapper constructor, two nexts on one "
            "wrapper, next on the source directly, wrap-and-release} is executed from scratch and compared step by step with a model of the source. The C helper macros written into C headers are driven from C (gcc and clang, -O0 / -O2) for every item count, including buffers whose expression has another static type.",
            "DESIGN.md §4 C15",
            "Bounded lengths/depths.",
            "explicit-state exploration of the real code (all operation sequences up to a depth vs. reference model)",
            "h_runtime/c15 + gen/bindgen_c15.py"),
    "C19": ("model_checking",
            "Sequential half: a scripted future/stream/sink behind trait_obj! is polled with a counting caller-side waker; every history up "
            "to the depth bound over {clone/wake_by_ref of cx.waker(), clone/wake/wake_by_ref/drop of any live foreign-side waker} x {inside a new "
            "poll, inside the same poll, after the poll, after the poll on another OS thread}, plus the caller dropping its own waker while "
            "foreign wakers live, with an ordinary and with a null-data caller waker, an opaque future polled inside another opaque future, and a poll entered from another module (per-poll record assembled through its "
            "published layout with that module's functions; the opaque words must not be interpreted locally), is executed on the real code; after every step "
            "the caller's wake count must equal the wake operations and its refcount must never go below the start value and return to it when "
            "no foreign waker is left; it is never used after its last release and never released while a foreign waker lives. Concurrent half: loom explores all interleavings of 2-3 threads operating on foreign wakers over the real "
            "task/mod.rs compiled against a loom-backed tarc::BaseArc. Stream and Sink::poll_flush are also polled in Ready mode (a wake made during a poll that returns Ready must reach the caller). One poll through the object must enter the implementor's method of the same name exactly once; wakes from destructors run by unwinding and re-entrant release chains are part of the alphabet / sections. Runs in the engine profile and in a prod profile (no debug assertions); a second thread polling again exactly while the last handle of the first family is being released is forced through the caller's release callback.",
            "DESIGN.md §4 C19",
            "Thread hand-off at operation granularity in the history half; loom's model + the tarc shim in the concurrent half; bounded depth.",
            "explicit-state exploration of the real code + loom (DPOR over all interleavings within a preemption bound)",
            "h_task + h_loom_task"),
    "C16": ("exploration",
            "Matrix runtime type x element layout x direction: values made by the Rust API are operated only through #[repr(C)] mirror structs "
            "transcribed from the published header (release, clone, read, grow, append, invoke, advance), and values assembled field by field "
            "are consumed by the Rust API; effects (drop counts, refcounts, contents, call counts) must equal those of the Rust operation; "
            "tag values and payload offsets of COption/CResult are read and written as raw C structs. A C translation unit including the published "
            "bindings.h cross-checks the same values (h_cabi), and a C++ driver operates the runtime-type templates the real cglue-bindgen writes into C++ "
            "headers: container layout (2 x 6 x 7 instance / context / temporary-storage choices) against the plain struct, std::string <-> CSliceRef for "
            "every short byte string over an alphabet with NUL, OpaqueCallback from vector / functor for every item count and stop position. The C++ driver also instantiates the CIterator input-iterator bridge and CPPIterator for every short int sequence, the C driver the STR / REF_SLICE constructors.",
            "DESIGN.md §4 C16, §9.4b",
            "Mirror structs are a faithful transcription of the published declarations; rustc repr(C) == C ABI on this target.",
            "exhaustive enumeration of a finite type/operation matrix on the real code",
            "h_runtime/c16 + gen/cabi_c16.py + gen/bindgen_cpp_c16.py"),
}

NOT_YET = {}

def main():
    props = [json.loads(l) for l in open(os.path.join(ROOT, "properties.jsonl"))]
    checks = []
    na = []
    for p in props:
        pid = p["id"]
        if pid in CLAIMS:
            cat, text, ref, note, tech, engine = CLAIMS[pid]
            checks.append({
                "property_id": pid,
                "quick_cmd": "./check %s --tier quick" % pid,
                "thorough_cmd": "./check %s --tier thorough" % pid,
                "evidence_file": "/verif/evidence/%s.json" % pid,
                "replay_cmd_template": "./check %s --replay {path}" % pid,
                "engine": engine,
                "level_claimed": {"category": cat, "text": text, "design_ref": ref},
                "level_note": note,
                "technique": tech,
            })
        else:
            na.append({"property_id": pid, "reason": NOT_YET.get(pid, "check not built yet in this session (planned, see DESIGN.md §4/§8); not claimed until it exists")})
    hooks_commits = []
    try:
        out = subprocess.run(["git", "-C", "/repo", "log", "--format=%H %s"], stdout=subprocess.PIPE, text=True).stdout
        for line in out.splitlines():
            h, _, subj = line.partition(" ")
            if subj.startswith("verif-hook:"):
                hooks_commits.append(h)
    except Exception:
        pass
    m = {
        "version": 1,
        "setup_cmd": "./check setup",
        "hooks": {
            "guard": "h33p_cglue_verif",
            "enable": "the guard is a rustc cfg set only by the loom harness crates' build scripts (cargo:rustc-cfg=h33p_cglue_verif) which #[path]-include the hooked source file; the normal cglue build never sees it",
            "baseline_off_cmd": "cd /repo && cargo nextest run --workspace --no-fail-fast --offline || cargo test --workspace --no-fail-fast --offline",
            "source_commits": hooks_commits,
            "add_only": True,
        },
        "engines": [
            {"name": "explore", "path": "/verif/engine/explore", "serves_properties": sorted(CLAIMS), "kind_free_text": "history explorer over the real code (full enumeration + canonical-state BFS), crash-isolating driver, replay"},
            {"name": "instr", "path": "/verif/engine/instr", "serves_properties": sorted(CLAIMS), "kind_free_text": "tracking global allocator (layout, double free, red zones, leaks), drop-counting payloads"},
            {"name": "h_runtime", "path": "/verif/engine/h_runtime", "serves_properties": [c for c in sorted(CLAIMS) if CLAIMS[c][5].startswith("h_runtime")], "kind_free_text": "harness binaries for the runtime wrapper types"},
            {"name": "h_objects", "path": "/verif/engine/h_objects", "serves_properties": ["C01", "C02", "C04", "C08", "C13"], "kind_free_text": "generated-program harness: gen/objects_gen.py + gen/groups_gen.py emit shard crates under engine/h_objects/shards (regenerated on every run), h_objbase holds the differential harness"},
            {"name": "sendsync_c09", "path": "/verif/gen/sendsync_c09.py", "serves_properties": ["C09"], "kind_free_text": "probe-crate generator + per-cell rustc runs"},
            {"name": "h_layout", "path": "/verif/engine_layout", "serves_properties": ["C20"], "kind_free_text": "separate cargo workspace (layout_checks / abi_stable); gen/layout_gen.py emits twin modules"},
            {"name": "castprobe_c08", "path": "/verif/gen/castprobe_c08.py", "serves_properties": ["C08"], "kind_free_text": "compile probes (one rustc run per cell, rig of sendsync_c09) for groups with built-in traits in the mandatory list"},
            {"name": "life_void_c06", "path": "/verif/engine_void", "serves_properties": ["C06"], "kind_free_text": "separate cargo workspace: the h_life sources built against cglue with the rust_void feature (gen/life_void_c06.py)"},
            {"name": "bindgen_helpers", "path": "/verif/gen/bindgen_cpp_c16.py", "serves_properties": ["C15", "C16", "C17"], "kind_free_text": "C / C++ drivers over what the real cglue-bindgen writes into headers: helper macros (bindgen_c15.py), release / clone helpers (bindgen_chelpers.py), C++ runtime-type templates (bindgen_cpp_c16.py); gcc, clang, g++, clang++"},
            {"name": "h_life", "path": "/verif/engine/h_life", "serves_properties": ["C06", "C07"], "kind_free_text": "lifecycle history explorer over a tree of generated objects sharing one context"},
            {"name": "expander", "path": "/verif/engine/expander", "serves_properties": ["C03", "C04"], "kind_free_text": "drives cglue_gen as a library: expansion printer + layout signature"},
            {"name": "xmod", "path": "/verif/engine_xmod", "serves_properties": ["C05"], "kind_free_text": "separate cargo workspace: xapi (shared interface + tagging allocator), xplugin, xplugin_so (cdylib), xhost (loader + history explorer)"},
            {"name": "bindgen", "path": "/verif/gen/bindgen_model.py", "serves_properties": ["C17", "C18"], "kind_free_text": "API model enumerators, miniature cbindgen (bindgen_headers.py), mock TU generator (bindgen_mock.py), tool runner with stub cbindgen (bindgen_tool.py)"},
            {"name": "h_task", "path": "/verif/engine/h_task", "serves_properties": ["C19"], "kind_free_text": "history explorer over wakers crossing a cglue Future/Stream/Sink object"},
            {"name": "h_loom_task", "path": "/verif/engine/h_loom_task", "serves_properties": ["C19"], "kind_free_text": "loom model of the real cglue/src/task/mod.rs over a loom-backed tarc shim (engine/tarc_shim)"},
            {"name": "h_loom_arc", "path": "/verif/engine/h_loom_arc", "serves_properties": ["C10"], "kind_free_text": "loom model of the real cglue/src/arc.rs (hook h33p_cglue_verif swaps std Arc for loom Arc)"},
        ],
        "checks": checks,
        "not_applicable": na,
        "notes": "All checks go through ./check <ID>; it rebuilds the harness (path dependencies on /repo/cglue*) from /repo's working tree before running. KNOWN_FINDINGS.txt lists recorded defects; see DESIGN.md.",
    }
    with open(os.path.join(ROOT, "MANIFEST.json"), "w") as f:
        json.dump(m, f, indent=1)
        f.write("\n")
    vt = "/usr/local/bin/python3-vt"
    if os.path.exists(vt):
        subprocess.run([vt, "-c", "import json,jsonschema; jsonschema.validate(json.load(open('%s/MANIFEST.json')), json.load(open('/root/.vp/MANIFEST.schema.json'))); print('manifest valid')" % ROOT], check=True)

if __name__ == "__main__":
    main()
