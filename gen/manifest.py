#!/usr/bin/env python3
"""Regenerates /verif/MANIFEST.json from the table below (python3 gen/manifest.py)."""
import json, os, subprocess, sys

ROOT = os.path.dirname(os.path.dirname(os.path.abspath(__file__)))

# property -> (level category, level text, design ref, level note, technique, engine)
CLAIMS = {
    "C11": ("model_checking",
            "Every operation history up to the depth bound over the CVec alphabet (incl. out-of-range insert/remove, reserve, clone, "
            "element writes, all From<Vec> shapes) is executed on the real CVec in lock-step with a Vec reference model, for five element "
            "types; contents, length, capacity, panics, per-element drop counts, allocator balance/layout/red zones and the calls made "
            "through the stored reserve_fn/drop_fn are compared after every step. Full enumeration (no state merging) plus a deeper BFS "
            "with canonical-state deduplication.",
            "DESIGN.md §4 C11",
            "Vec is the reference model; bounded depth and length; no random long sequences.",
            "explicit-state exploration of the real code (exhaustive operation histories vs. reference model)",
            "h_runtime/c11"),
}

NOT_YET = {}

def main():
    props = [json.loads(l) for l in open(os.path.join(ROOT, "properties.jsonl"))]
    checks = []
    na = []
    for p in props:
        pid = p["id"]
        if pid in CLAIMS:
            cat, text, ref, note, tech, engine = CLAIMS[pid]
            checks.append({
                "property_id": pid,
                "quick_cmd": "./check %s --tier quick" % pid,
                "thorough_cmd": "./check %s --tier thorough" % pid,
                "evidence_file": "/verif/evidence/%s.json" % pid,
                "replay_cmd_template": "./check %s --replay {path}" % pid,
                "engine": engine,
                "level_claimed": {"category": cat, "text": text, "design_ref": ref},
                "level_note": note,
                "technique": tech,
            })
        else:
            na.append({"property_id": pid, "reason": NOT_YET.get(pid, "check not built yet in this session (planned, see DESIGN.md §4/§8); not claimed until it exists")})
    hooks_commits = []
    try:
        out = subprocess.run(["git", "-C", "/repo", "log", "--format=%H %s"], stdout=subprocess.PIPE, text=True).stdout
        for line in out.splitlines():
            h, _, subj = line.partition(" ")
            if subj.startswith("verif-hook:"):
                hooks_commits.append(h)
    except Exception:
        pass
    m = {
        "version": 1,
        "setup_cmd": "./check setup",
        "hooks": {
            "guard": "h33p_cglue_verif",
            "enable": "the guard is a rustc cfg set only by the loom harness crates' build scripts (cargo:rustc-cfg=h33p_cglue_verif) which #[path]-include the hooked source file; the normal cglue build never sees it",
            "baseline_off_cmd": "cd /repo && cargo nextest run --workspace --no-fail-fast --offline || cargo test --workspace --no-fail-fast --offline",
            "source_commits": hooks_commits,
            "add_only": True,
        },
        "engines": [
            {"name": "explore", "path": "/verif/engine/explore", "serves_properties": sorted(CLAIMS), "kind_free_text": "history explorer over the real code (full enumeration + canonical-state BFS), crash-isolating driver, replay"},
            {"name": "instr", "path": "/verif/engine/instr", "serves_properties": sorted(CLAIMS), "kind_free_text": "tracking global allocator (layout, double free, red zones, leaks), drop-counting payloads"},
            {"name": "h_runtime", "path": "/verif/engine/h_runtime", "serves_properties": [c for c in sorted(CLAIMS) if CLAIMS[c][5].startswith("h_runtime")], "kind_free_text": "harness binaries for the runtime wrapper types"},
        ],
        "checks": checks,
        "not_applicable": na,
        "notes": "All checks go through ./check <ID>; it rebuilds the harness (path dependencies on /repo/cglue*) from /repo's working tree before running. KNOWN_FINDINGS.txt lists recorded defects; see DESIGN.md.",
    }
    with open(os.path.join(ROOT, "MANIFEST.json"), "w") as f:
        json.dump(m, f, indent=1)
        f.write("\n")
    vt = "/usr/local/bin/python3-vt"
    if os.path.exists(vt):
        subprocess.run([vt, "-c", "import json,jsonschema; jsonschema.validate(json.load(open('%s/MANIFEST.json')), json.load(open('/root/.vp/MANIFEST.schema.json'))); print('manifest valid')" % ROOT], check=True)

if __name__ == "__main__":
    main()
