"""C05 — objects work across separately compiled modules and compiler versions.

Builds the host (engine_xmod/xhost) and the plugin shared object (engine_xmod/xplugin_so) in several
variants — toolchain x profile x repr(Rust) layout seed — each into its own target directory, and runs
every (host build, plugin build) pair of the tier: the host loads the plugin and replays lifecycle
histories with creation on one side and use/clone/cast/consume/drop on the other, against the
single-module reference (see xhost/src/main.rs for the oracle).
"""
import json
import os
import subprocess
import time

WS = "/verif/engine_xmod"


def variants_for(tier, seed):
    s1 = 1 + (seed % 1000)
    s2 = 7 + (seed % 1000)
    v = {
        "stable-debug": dict(tc=None, release=False, flags=""),
        "nightly-release-s%d" % s1: dict(tc="nightly", release=True, flags="-Zrandomize-layout -Zlayout-seed=%d" % s1),
    }
    if tier == "thorough":
        v.update({
            "stable-release": dict(tc=None, release=True, flags=""),
            "nightly-debug-s%d" % s1: dict(tc="nightly", release=False, flags="-Zrandomize-layout -Zlayout-seed=%d" % s1),
            "nightly-release-s%d" % s2: dict(tc="nightly", release=True, flags="-Zrandomize-layout -Zlayout-seed=%d" % s2),
            "nightly-debug-s%d" % s2: dict(tc="nightly", release=False, flags="-Zrandomize-layout -Zlayout-seed=%d" % s2),
        })
    return v


def build_variant(Ctx, name, spec):
    tdir = os.path.join(Ctx.BUILD, "xmod", name)
    cmd = ["cargo"] + (["+" + spec["tc"]] if spec["tc"] else []) + ["build", "--offline", "-p", "xplugin_so", "-p", "xhost"]
    if spec["release"]:
        cmd.append("--release")
    env = dict(Ctx.ENV)
    env["CARGO_TARGET_DIR"] = tdir
    if spec["flags"]:
        env["RUSTFLAGS"] = spec["flags"]
    else:
        env.pop("RUSTFLAGS", None)
    t0 = time.time()
    p = subprocess.run(cmd, cwd=WS, env=env, stdout=subprocess.PIPE, stderr=subprocess.STDOUT, text=True)
    if p.returncode != 0:
        Ctx.log(p.stdout[-4000:])
        raise Ctx.Machinery("xmod build failed for variant %s" % name)
    Ctx.log("[xmod] built %s (%.1fs)" % (name, time.time() - t0))
    prof = "release" if spec["release"] else "debug"
    return os.path.join(tdir, prof, "xhost"), os.path.join(tdir, prof, "libxplugin_so.so")


def run(prop, tier, replay, Ctx):
    seed = int(Ctx.ENV.get("VERIF_SEED", "0") or 0)
    if replay is not None:
        body = json.load(open(replay))
        tier = body.get("tier", tier)
        pair = body["case"].get("pair")
        vs = variants_for(tier, body["case"].get("seed", seed))
        if pair is None or pair[0] not in vs or pair[1] not in vs:
            vs = variants_for("thorough", body["case"].get("seed", seed))
        host, _ = build_variant(Ctx, pair[0], vs[pair[0]])
        _, plug = build_variant(Ctx, pair[1], vs[pair[1]])
        p = subprocess.run([host, "--plugin", plug, "--pair", "/".join(pair), "--replay", replay], env=Ctx.ENV)
        rc = p.returncode
        if rc < 0:
            p2 = subprocess.run([host, "--plugin", plug, "--pair", "/".join(pair), "--replay", replay], env=Ctx.ENV, stdout=subprocess.DEVNULL)
            rc = 1 if p2.returncode == rc else 2
        return ("replay", rc)
    vs = variants_for(tier, seed)
    built = {}
    for name, spec in vs.items():
        built[name] = build_variant(Ctx, name, spec)
    names = list(vs)
    if tier == "quick":
        pairs = [(names[0], names[1]), (names[1], names[0])]
    else:
        pairs = [(a, b) for a in names for b in names]
    os.makedirs(os.path.join(Ctx.BUILD, "reports"), exist_ok=True)
    t0 = time.time()
    procs = []
    for (h, pl) in pairs:
        out = os.path.join(Ctx.BUILD, "reports", "C05-%s--%s.json" % (h, pl))
        if os.path.exists(out):
            os.remove(out)
        cmd = [built[h][0], "--plugin", built[pl][1], "--pair", "%s/%s" % (h, pl), "--tier", tier, "--out", out]
        procs.append(((h, pl), out, subprocess.Popen(cmd, env=Ctx.ENV)))
    merged = None
    for (h, pl), out, p in procs:
        rc = p.wait()
        if rc != 0 or not os.path.exists(out):
            raise Ctx.Machinery("xhost (host %s, plugin %s) exited with %s and no report" % (h, pl, rc))
        rep = json.load(open(out))
        for s in rep["coverage"]["sections"]:
            s["pair"] = "%s/%s" % (h, pl)
            s["section"] = "%s[%s/%s]" % (s["section"], h, pl)
        for v in rep["violation_records"]:
            v["case"]["pair"] = [h, pl]
            v["case"]["seed"] = seed
        for smp in rep["coverage"]["samples"]:
            smp["pair"] = "%s/%s" % (h, pl)
        if merged is None:
            merged = rep
        else:
            c, d = merged["coverage"], rep["coverage"]
            for k in ("evaluations", "distinct_nontrivial", "states", "transitions", "traces_validated_against_impl"):
                c[k] = c.get(k, 0) + d.get(k, 0)
            c["exhaustive"] = c["exhaustive"] and d["exhaustive"]
            c["sections"] += d["sections"]
            c["samples"] = (c["samples"] + d["samples"])[:12]
            # same signature from several pairs: keep the first, count all
            for v in rep["violation_records"]:
                for w in merged["violation_records"]:
                    if w["signature"] == v["signature"]:
                        w["count"] += v["count"]
                        break
                else:
                    merged["violation_records"].append(v)
    merged["coverage"]["pairs"] = ["%s/%s" % p for p in pairs]
    merged["coverage"]["build_variants"] = {k: ("%s %s %s" % (v["tc"] or "stable", "release" if v["release"] else "debug", v["flags"])).strip() for k, v in vs.items()}
    merged["coverage"]["rule"] = "one history exploration per (host build, plugin build) pair: " + merged["coverage"]["rule"]
    merged["wall_s"] = round(time.time() - t0, 3)
    return ("report", merged)
