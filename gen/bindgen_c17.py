"""C17 - generated C/C++ wrappers forward to the right slot with the right arguments.

Bounded exhaustive exploration: every API model of the tier's space (bindgen_model.c17_cases) is rendered to a
cbindgen-shaped header (bindgen_headers), pushed through the REAL cglue-bindgen binary (stub `cbindgen` on PATH), and the
processed header is exercised by a generated mock translation unit (bindgen_mock) compiled with gcc -std=c99 / g++ -std=c++11.

Oracle per header (every clause is checked for every object/group instance and every vtable entry):
 1. the tool succeeds and the processed header + mock compile without errors (and without non-benign warnings in the header);
 2. for every vtable entry a wrapper exists that is callable on the instance (missing = violation, never a skip); C additionally:
    a `*_drop` helper exists for every instance; a wrapper for a Self-returning entry returns the instance's own type;
 3. calling the wrapper records exactly one slot call, of exactly that entry, with `cont` = &obj.container (by-value: the
    object's container), every argument unchanged and in order, and returns the slot's sentinel (Self: a container holding the
    slot's instance/context, reported separately: whether the returned object's vtable pointers are those of the source);
 4. resources (the mock hands out a distinct handle per context clone, so double releases and leaks are told apart): consuming wrappers see a context count >= 2 inside the slot (a clone is alive across the call); afterwards the
    context count is what ownership implies (0 once everything is released), never negative; the instance is released exactly
    once (by the consuming slot, the C `*_drop` helper or the C++ destructor) and never twice.
"""
import json
import os
import shutil
import sys
import time
from concurrent.futures import ProcessPoolExecutor

sys.path.insert(0, os.path.dirname(os.path.abspath(__file__)))

import bindgen_headers as H  # noqa: E402
import bindgen_mock as M  # noqa: E402
import bindgen_model as BM  # noqa: E402
import bindgen_tool as TL  # noqa: E402
from pyreport import Report, digest  # noqa: E402

ASSUMPTIONS = [
    "cbindgen is not available offline: input headers are synthesised by gen/bindgen_headers.py, a miniature cbindgen 0.20 "
    "(item IR of the cglue/cglue-gen definitions, monomorphisation + name mangling, dependency-ordered emission, style=both) "
    "that reproduces the type names, item order and struct bodies of examples/pregen-headers; a violation is only as real as that model",
    "wrappers are discovered in the processed header (name ends with the entry name, self parameter accepts the object); "
    "the tool's naming scheme itself is not judged",
    "gcc/g++ 12 at -O0 are the C99/C++11 arbiters; warnings of the classes %s are counted but not judged" % ", ".join(sorted(M.BENIGN_WARNINGS)),
    "wrapped-return (RetTmp) entries are compiled but not called by the mock; custom context types are outside C17 (see C18)",
]


def _absent_or_early(kind_absent, kind_early, defining_text):
    """the same compiler message has two different causes: the type is nowhere in the header, or it is defined further down"""
    return lambda m, hdr: (kind_early if (defining_text % m.groupdict()) in hdr else kind_absent) % m.groupdict()


CAUSES = [
    (r"unknown type name .(?P<t>CBox_c_void|CArc_c_void).", _absent_or_early("helper_for_absent_type:%(t)s", "type_used_before_definition:%(t)s", "typedef struct %(t)s {")),
    (r"unknown type name .(u8|u16|u32|u64|i32|i64|usize|bool).", lambda m, hdr: "callback_over_primitive"),
    (r".CGlueTraitObj. is not a class template", _absent_or_early("traitobj_spec_without_primary", "traitobj_spec_before_primary", "struct CGlueTraitObj {")),
    (r"::context. has incomplete type", lambda m, hdr: "nocontext_incomplete_type"),
    (r".RustMaybeUninit. does not name a type", _absent_or_early("rustmaybeuninit_undefined", "rustmaybeuninit_used_before_definition", "RustMaybeUninit {")),
    (r"expected (primary-)?expression before", lambda m, hdr: "fnptr_argument_misparsed" if __import__("re").search(r"\w\)\(\w+\)\);", hdr) else None),
    (r"no default argument for .CGlueCtx.|template argument 2 is invalid", lambda m, hdr: "default_container_without_default_context"),
    (r".NoContext. does not name a type", lambda m, hdr: "default_context_falls_back_to_undeclared_nocontext"),
]


def compile_cause(first_error_line, header_text=""):
    """stable name of the root cause of a compile failure: a table of recognised causes (each tied to a condition on the header,
    so that an unrelated regression producing the same compiler message gets a different name), else the normalised first message"""
    import re
    for rx, f in CAUSES:
        m = re.search(rx, first_error_line)
        if m:
            c = f(m, header_text)
            if c:
                return c
    m = M.DIAG_RE.search(first_error_line)
    return M.normalise_msg(m.group("msg") if m else first_error_line)


def form_of(info, entry=None):
    f = "obj" if info["kind"] == "obj" else "group"
    if entry is not None and entry.get("clash"):
        f += ":clash"
    if entry is not None and entry["m"]["ret"] == "self":
        f += ":selfret"
    if not info["first_of_family"]:
        f += ":variant2"
    return f


def expected_end(lang, info, entry, is_dtor=False):
    arc, box = info["ctx"] == "arc", info["cont"] == "Box"
    selfret = entry is not None and entry["m"]["ret"] == "self"
    if lang == "cpp":
        return {"count": 0, "d1": 1 if box else 0, "d2": 1 if (box and selfret) else 0}
    if entry is None:
        return {"count": 0, "d1": 1 if box else 0, "d2": 0}
    if entry["m"]["recv"] == "own":
        return {"count": (1 if selfret else 0) if arc else 0, "d1": 1 if box else 0, "d2": 0}
    return {"count": (1 + (1 if selfret else 0)) if arc else 0, "d1": 0, "d2": 0}


def evaluate(case, infos, calls, findings, cr, processed_name, processed_text=""):
    """-> (violations [(sig, desc)], obs)"""
    lang = case["lang"]
    V = []
    errors, warns, benign = M.classify_diagnostics(cr["diag"] or "", processed_name)
    if cr["compiled"]:
        # (warnings of a translation unit that does not compile are cascades of its first error, which is reported below)
        for flag, line in warns:
            V.append(("compile_warning:%s:%s" % (lang, flag), line))
    for kind, info, w, desc in findings:
        if kind == "self_return_type_mismatch":
            V.append(("self_return_type_mismatch:%s:%s" % (lang, form_of(info)), desc))
        else:
            V.append(("%s:%s:%s" % (kind, lang, form_of(info)), desc))
    # 2. wrapper existence (static: a wrapper that targets the entry and is callable on the instance)
    for info in infos:
        for e in info["entries"]:
            if not any(c["inst"] is info and c["entry"] is e for c in calls):
                if any(k == "self_return_type_mismatch" and i is info for k, i, w, d in findings) and e["m"]["ret"] == "self":
                    continue
                V.append(("missing_wrapper:%s:%s" % (lang, form_of(info, e)),
                          "no wrapper in the processed header invokes (%s)->%s of %s" % (e["field"], e["m"]["name"], info["decl"])))
        # (a trait whose own consuming entry is called `drop` occupies the helper's name: the property asks for a wrapper per entry,
        #  which exists; whether a separate release helper should exist next to it is not judged)
        own_drop = any(e["m"]["name"] == "drop" for e in info["entries"])
        if lang == "c" and not own_drop and not any(c["inst"] is info and c["entry"] is None for c in calls):
            V.append(("missing_wrapper:c:%s:drop" % form_of(info), "no *_drop helper accepts %s by value" % info["decl"]))
    if not cr["compiled"]:
        # only the first error is the finding, the rest is cascade (all lines go into the description)
        for where, cls, line in errors[:1]:
            V.append(("compile_error:%s:%s:%s" % (lang, where, compile_cause(line, processed_text)), "\n".join(l for _, _, l in errors[:4])))
        if not errors:
            V.append(("compile_error:%s:unparsed" % lang, (cr["diag"] or "")[:400]))
        return V, {"compiled": False, "errors": sorted(set(c for _, c, _ in errors)), "benign": benign}
    blocks, done = M.parse_log(cr["log"] or "")
    outcome = []
    for c in calls:
        info, w, e = c["inst"], c["w"], c["entry"]
        b = blocks.get(c["n"])
        what = "%s on %s" % (w["name"] if w else "destructor", info["decl"])
        if b is None or b["end"] is None:
            V.append(("mock_crash:%s" % lang, "the mock died (rc=%s) in or before the call of %s" % (cr["rc"], what)))
            break
        slots = [ev for ev in b["events"] + b["after"] if ev["ev"] == "slot"]
        if e is None:
            if slots:
                V.append(("slot_calls:%s:drop" % lang, "%s invoked %d vtable slots" % (what, len(slots))))
        else:
            m = e["m"]
            fname = m["name"]
            if not (w["name"] == fname or w["name"].endswith("_" + fname)):
                V.append(("wrapper_name:%s" % lang, "wrapper %s invokes entry %s" % (w["name"], fname)))
            if len(slots) != 1:
                V.append(("slot_calls:%s:%d" % (lang, len(slots)), "%s recorded %d slot calls instead of 1" % (what, len(slots))))
            else:
                s = slots[0]
                if int(s["k"]) != e["k"]:
                    V.append(("wrong_slot:%s:%s" % (lang, form_of(info, e)), "%s reached slot %s, expected %d (%s.%s)" % (what, s["k"], e["k"], e["trait"], fname)))
                if s.get("cont") != "ok":
                    V.append(("wrong_container:%s:%s" % (lang, m["recv"]), "%s passed a container that is not the object's" % what))
                exp = "".join(M.arg_expected(k, p) for p, k in enumerate(m["args"]))
                if s.get("args", "") != exp:
                    V.append(("wrong_args:%s:%dargs" % (lang, len(m["args"])), "%s forwarded args %s, expected %s" % (what, s.get("args"), exp)))
                if info["ctx"] == "arc":
                    cnt = int(s.get("ctxcount", "0"))
                    if m["recv"] == "own" and cnt < 2:
                        V.append(("ctx_not_held:%s" % lang, "%s: context refcount inside the consuming slot is %d (< 2): no clone is kept alive across the call" % (what, cnt)))
                    if cnt < 1:
                        V.append(("ctx_over_release:%s:%s" % (lang, m["recv"]), "%s: context refcount inside the slot is %d" % (what, cnt)))
                if m["ret"] == "self":
                    r = dict(kv.split("=") for kv in (b["ret"] or "").split(" ")[1:] if "=" in kv)
                    if r.get("inst") != "ok" or (info["ctx"] == "arc" and r.get("ctx") != "ok"):
                        V.append(("wrong_return:%s:self" % lang, "%s returned a container that is not the slot's result: %s" % (what, b["ret"])))
                    # EVERY vtable pointer of the returned object is compared with the source object's
                    missing = [f for f, _ in info["fields"] if f not in r]
                    bad = [f for f, _ in info["fields"] if r.get(f) != "ok"]
                    if missing:
                        V.append(("mock_crash:%s" % lang, "RET line of %s lacks vtable fields %s" % (what, ",".join(missing))))
                    elif bad:
                        V.append(("self_return_vtbl_uninit:%s:%s" % (lang, "obj" if info["kind"] == "obj" else "group"),
                                  "%s returned an object whose vtable pointer(s) %s (of %d) are not the source object's (uninitialised / null)" % (
                                      what, ",".join(bad), len(info["fields"]))))
                    fu = c.get("followup")
                    if fu is not None and not bad and not missing:
                        e2 = fu["entry"]
                        rs = [ev for ev in b["revents"] if ev["ev"] == "slot"]
                        exp2 = "".join(M.arg_expected(k, p) for p, k in enumerate(e2["m"]["args"]))
                        if (len(rs) != 1 or int(rs[0]["k"]) != e2["k"] or rs[0].get("cont") != "ok" or rs[0].get("args", "") != exp2
                                or b["rret"] != M.ret_expected(e2["m"]["ret"], e2["k"])):
                            V.append(("returned_object_unusable:%s:%s" % (lang, "obj" if info["kind"] == "obj" else "group"),
                                      "calling %s (%s.%s) on the object returned by %s recorded %r / returned %r" % (
                                          fu["w"]["name"], e2["trait"], e2["m"]["name"], what, rs, b["rret"])))
                else:
                    exp = M.ret_expected(m["ret"], e["k"])
                    if b["ret"] != exp:
                        V.append(("wrong_return:%s:%s" % (lang, m["ret"]), "%s returned %s, slot sentinel is %s" % (what, b["ret"], exp)))
        exp = expected_end(lang, info, e, c.get("dtor", False))
        end = {k: int(v) for k, v in b["end"].items()}
        kindtag = "dtor" if c.get("dtor") else ("drop" if e is None else e["m"]["recv"])
        if end["under"] or end["count"] < exp["count"]:
            V.append(("ctx_over_release:%s:%s" % (lang, kindtag), "%s: context refcount ends at %d (expected %d, underflow=%d)" % (what, end["count"], exp["count"], end["under"])))
        elif end["count"] > exp["count"]:
            V.append(("ctx_leak:%s:%s" % (lang, kindtag), "%s: context refcount ends at %d, expected %d: a context reference is never released" % (what, end["count"], exp["count"])))
        if end.get("dbl", 0):
            V.append(("ctx_double_release:%s:%s" % (lang, kindtag), "%s: %d context handle(s) were released twice (every clone of the context is a distinct handle in the mock; a leak elsewhere does not hide this)" % (what, end["dbl"])))
        if end.get("late", 0) and kindtag in ("drop", "dtor"):
            V.append(("instance_released_after_context:%s:%s" % (lang, kindtag), "%s: the instance's drop function ran after the object's last context reference had been released (the context is what keeps the instance's code loaded: instance first, then context)" % what))
        for d in ("d1", "d2"):
            if end[d] < exp[d]:
                V.append(("instance_not_released:%s:%s" % (lang, kindtag), "%s: instance %s released %d times, expected %d" % (what, d, end[d], exp[d])))
            elif end[d] > exp[d]:
                V.append(("instance_double_release:%s:%s" % (lang, kindtag), "%s: instance %s released %d times, expected %d" % (what, d, end[d], exp[d])))
        outcome.append((kindtag, len(slots), b["ret"], tuple(sorted(end.items()))))
    obs = {"compiled": True, "calls": len(calls), "outcomes": sorted(set(map(str, outcome))), "benign": benign, "done": done}
    return V, obs


def run_case(case, exe, stubdir, workroot, keep=False):
    """One case, fresh directory, fresh processes. -> dict(violations, obs, machinery)"""
    lang = case["lang"]
    wd = os.path.join(workroot, "c17-" + digest(case) + "-%d" % os.getpid())
    shutil.rmtree(wd, ignore_errors=True)
    os.makedirs(wd)
    try:
        r = H.render(case["model"], lang)
        res = TL.run_tool(exe, stubdir, wd, r["text"], case.get("config"))
        if res["stub_argv"] is None:
            return {"machinery": "stub cbindgen was not called (rc=%s, stderr=%s)" % (res["rc"], res["stderr"][:300])}
        if res["rc"] != 0 or not res["output"]:
            err = (res["stderr"].strip().split("\n") or [""])[-1]
            return {"violations": [("tool_failed:%s:%s" % (lang, M.normalise_msg(err)), "cglue-bindgen exited with %s: %s" % (res["rc"], res["stderr"][:400]))],
                    "obs": {"tool_rc": res["rc"]}}
        pname = "processed.h" if lang == "c" else "processed.hpp"
        with open(os.path.join(wd, pname), "w") as f:
            f.write(res["output"])
        src, calls, findings, infos = M.generate(case, r["lib"], pname, res["output"])
        sname = "mock.c" if lang == "c" else "mock.cpp"
        with open(os.path.join(wd, sname), "w") as f:
            f.write(src)
        cr = M.compile_and_run(lang, wd, sname)
        V, obs = evaluate(case, infos, calls, findings, cr, pname, res["output"])
        obs["entries"] = sum(len(i["entries"]) for i in infos)
        return {"violations": V, "obs": obs}
    finally:
        if not keep:
            shutil.rmtree(wd, ignore_errors=True)


def _work(a):
    case, exe, stubdir, workroot = a
    try:
        return run_case(case, exe, stubdir, workroot)
    except Exception as ex:  # generator bug: machinery, not a verdict
        import traceback
        return {"machinery": "exception in worker: %s\n%s" % (ex, traceback.format_exc()[-1500:])}


def add_violation(rep, section, sig, desc, case):
    """merge an additional signature of an already recorded case (same logic as Report.record, without counting the case twice)"""
    for v in rep.violations:
        if v["signature"] == sig and v["section"] == section:
            v["count"] += 1
            if len(json.dumps(case)) < len(json.dumps(v["case"])):
                v["case"], v["desc"] = case, desc
            return
    rep.violations.append({"section": section, "signature": sig, "desc": desc, "case": case, "count": 1})


def setup(Ctx):
    TL.check_compilers(Ctx)
    exe = TL.build_tool(Ctx)
    stubdir = TL.make_stub_dir(Ctx)
    workroot = os.path.join(TL.scratch(Ctx), "work")
    os.makedirs(workroot, exist_ok=True)
    return exe, stubdir, workroot


def run(prop, tier, replay, Ctx):
    exe, stubdir, workroot = setup(Ctx)
    if replay is not None:
        with open(replay) as f:
            body = json.load(f)
        case, sig = body["case"], body.get("signature")
        hits = []
        for _ in range(2):
            r = run_case(case, exe, stubdir, workroot)
            if "machinery" in r:
                raise Ctx.Machinery(r["machinery"])
            sigs = [s for s, _ in r["violations"]]
            hits.append((sig in sigs) if sig else bool(sigs))
            for s, d in r["violations"]:
                if sig is None or s == sig:
                    print("replay: %s: %s" % (s, d[:300]))
        return ("replay", 1 if all(hits) else (0 if not any(hits) else 2))
    rep = Report(prop, tier, "exploration", os.environ.get("VERIF_SEED", 0))
    for a in ASSUMPTIONS:
        rep.assume(a)
    cases = BM.c17_cases(tier)
    t0 = time.time()
    jobs = [(c, exe, stubdir, workroot) for _, _, c in cases]
    with ProcessPoolExecutor(max_workers=min(16, os.cpu_count() or 4)) as pool:
        results = list(pool.map(_work, jobs, chunksize=1))
    rules = {
        "slice": "one-factor-at-a-time slice around a 2-trait/1-group baseline: every argument kind, 0..4 arguments, receiver x return, "
                 "container x context (object and group), several variants per trait, 1..4 traits, 0..2 groups, name clashes, nested names, "
                 "Self-returning entries, header switches; C and C++",
        "config": "the three config keys (quick: each alone + matching pairs; thorough: all 24 combinations) on a header with matching and non-matching objects",
        "signatures": "full product receiver(3) x return(5) x argument list (all 111 lists of length <= 2 over 10 kinds + 8 lists of length 3-4), packed 5 entries "
                      "per vtable, x container(3) x context(2) x form(object, mandatory in group, optional in group) x language(2)",
        "structure": "full product traits(1..4) x groups(0..2) x shared method name x second (container,context) variant x 25 configs x language(2)",
    }
    entries = wrappers = 0
    unjudged = {}
    for (section, label, case), r in zip(cases, results):
        if "machinery" in r:
            raise Ctx.Machinery("%s (case %s)" % (r["machinery"], json.dumps(case)[:300]))
        V, unj = TL.split_judged(r["violations"])
        for k, n in unj.items():
            unjudged[k] = unjudged.get(k, 0) + n
        obs = r["obs"]
        entries += obs.get("entries", 0)
        wrappers += obs.get("calls", 0)
        first = V[0] if V else None
        rep.record(section, case, {"obs": obs, "sigs": sorted(set(s for s, _ in V))}, True, first)
        seen = {first[0]} if first else set()
        for s, d in V[1:]:
            if s not in seen:
                seen.add(s)
                add_violation(rep, section, s, d, case)
    for s in rep.order:
        rep.rule(s, rules.get(s, ""))
    rep.note(rep.order[0], "unjudged_observations", unjudged)
    rep.assume("causes listed in bindgen_tool.UNJUDGED are recorded, not judged: they depend on cbindgen's C++ template / alias rendering, which cannot be confirmed offline; a header that fails to compile for such a cause contributes no further checks")
    rep.note("slice", "vtable_entries_checked", entries)
    rep.note("slice", "wrapper_calls_executed", wrappers)
    rep.note("slice", "enumeration_wall_s", round(time.time() - t0, 1))
    return ("report", rep.build())
