"""MANIFEST.setup_cmd: build every engine once so that quick checks start warm."""
import subprocess, os


def run(Ctx, CHECKS):
    os.makedirs(Ctx.BUILD, exist_ok=True)
    Ctx.ensure_generated()
    # the main engine workspace: one cargo invocation per package keeps feature sets apart
    for pkg in ["h_runtime", "h_loom_arc", "h_task", "h_loom_task", "expander", "h_objects", "h_life"]:
        p = subprocess.run(["cargo", "build", "--offline", "--release", "-p", pkg], cwd=Ctx.ENGINE, env=Ctx.ENV)
        if p.returncode != 0:
            return 2
    # python-driven engines build in their own workspaces/target dirs: warm them by one quick run each
    # (the verdicts of these warm-up runs are ignored here; the checks themselves are run afterwards)
    for mod, prop in [("expand_c03", "C03"), ("sendsync_c09", "C09"), ("layout_c20", "C20"), ("xmod_c05", "C05"), ("bindgen_c17", "C17"), ("castprobe_c08", "C08"), ("life_void_c06", "C06")]:
        try:
            m = __import__(mod)
            m.run(prop, "quick", None, Ctx)
        except Exception as e:  # noqa
            Ctx.log("[setup] warm-up of %s failed: %s" % (mod, e))
    return 0
