"""MANIFEST.setup_cmd: build every engine once so that quick checks start warm."""
import subprocess, os


def run(Ctx, CHECKS):
    os.makedirs(Ctx.BUILD, exist_ok=True)
    Ctx.ensure_generated()
    # one cargo invocation per workspace package keeps feature sets apart
    pkgs = [("h_runtime", None), ("h_loom_arc", None), ("h_task", None), ("h_loom_task", None), ("expander", None), ("h_objects", None), ("h_life", None)]
    for pkg, feats in pkgs:
        cmd = ["cargo", "build", "--offline", "--release", "-p", pkg]
        if feats:
            cmd += ["--features", feats]
        p = subprocess.run(cmd, cwd=Ctx.ENGINE, env=Ctx.ENV)
        if p.returncode != 0:
            return 2
    return 0
