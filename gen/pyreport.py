"""Report builder for python engines; produces the same JSON shape as the Rust `explore::Cx::report`.

A python engine is a module in /verif/gen with

    def run(prop, tier, replay, Ctx):
        # replay is None            -> explore, return ("report", report_dict)
        # replay is a path (str)    -> re-execute that one case twice, return ("replay", rc)
        #                              rc: 1 = violation reproduced, 0 = no violation, 2 = flaky / machinery

registered in /verif/check as  py_step("<module>").
`Ctx` (see /verif/check) gives ROOT, BUILD, TARGET, ENV, ENGINE, cargo_build(...), log(...),
Machinery (exception for machinery failures), known_signatures(prop).

Violations: each has a *signature* (stable, no addresses / temp paths; it is what KNOWN_FINDINGS.txt
lists as key=<signature>), a description and a `case` (JSON: everything needed to re-run exactly that
case). /verif/check writes the replay file {property, engine, section, signature, desc, case} and prints
the VIOLATION / KNOWN-FINDING lines; engines never print those themselves.
"""
import hashlib
import json
import time


def digest(obj):
    return hashlib.sha1(json.dumps(obj, sort_keys=True, default=str).encode()).hexdigest()[:16]


class Report:
    def __init__(self, prop, tier, level, seed=0):
        self.prop, self.tier, self.level, self.seed = prop, tier, level, int(seed or 0)
        self.t0 = time.time()
        self.sections = {}
        self.order = []
        self.violations = []
        self.assumptions = []

    def _sec(self, name):
        if name not in self.sections:
            self.order.append(name)
            self.sections[name] = {"evaluations": 0, "nontrivial": 0, "obs": set(), "samples": [], "rule": "",
                                   "exhaustive": True, "caps": [], "notes": {}, "states": 0, "transitions": 0}
        return self.sections[name]

    def rule(self, section, text):
        self._sec(section)["rule"] = text

    def note(self, section, key, value):
        self._sec(section)["notes"][key] = value

    def cap_hit(self, section, what):
        s = self._sec(section)
        s["exhaustive"] = False
        s["caps"].append(what)

    def add_states(self, section, states, transitions):
        s = self._sec(section)
        s["states"] += states
        s["transitions"] += transitions

    def assume(self, text):
        if text not in self.assumptions:
            self.assumptions.append(text)

    def record(self, section, case, obs=None, nontrivial=True, violation=None):
        """violation: None or (signature, description). obs: anything JSON-able describing the outcome."""
        s = self._sec(section)
        s["evaluations"] += 1
        if nontrivial:
            s["nontrivial"] += 1
            s["obs"].add(digest(obs if obs is not None else case))
        n = s["evaluations"]
        if violation is None and (n <= 3 or (n & (n - 1) == 0 and len(s["samples"]) < 10)):
            s["samples"].append(case)
        if violation is not None:
            sig, desc = violation
            for v in self.violations:
                if v["signature"] == sig and v["section"] == section:
                    v["count"] += 1
                    if len(json.dumps(case)) < len(json.dumps(v["case"])):
                        v["case"], v["desc"] = case, desc
                    break
            else:
                self.violations.append({"section": section, "signature": sig, "desc": desc, "case": case, "count": 1})
            return True
        return False

    def build(self):
        cov = {"evaluations": 0, "distinct_nontrivial": 0, "states": 0, "transitions": 0, "traces_validated_against_impl": 0,
               "rule": "", "samples": [], "exhaustive": True, "sections": []}
        rules = []
        for name in self.order:
            s = self.sections[name]
            cov["evaluations"] += s["evaluations"]
            cov["distinct_nontrivial"] += len(s["obs"])
            cov["states"] += s["states"]
            cov["transitions"] += s["transitions"]
            cov["exhaustive"] = cov["exhaustive"] and s["exhaustive"]
            for smp in s["samples"][:4]:
                cov["samples"].append({"section": name, "case": smp})
            if s["rule"]:
                rules.append("[%s] %s" % (name, s["rule"]))
            o = {"section": name, "evaluations": s["evaluations"], "nontrivial": s["nontrivial"],
                 "distinct_outcomes": len(s["obs"]), "exhaustive": s["exhaustive"]}
            if s["states"]:
                o["states"], o["transitions"] = s["states"], s["transitions"]
            if s["caps"]:
                o["caps_hit"] = s["caps"]
            o.update(s["notes"])
            cov["sections"].append(o)
        cov["rule"] = " | ".join(rules)
        cov["traces_validated_against_impl"] = cov["evaluations"]
        return {
            "property_id": self.prop, "tier": self.tier, "seed": self.seed, "level": self.level,
            "wall_s": round(time.time() - self.t0, 3), "assumptions": self.assumptions,
            "coverage": cov, "violation_records": self.violations,
        }
