"""C16 / C17, C side: the release / clone helpers for boxes and arcs that cglue-bindgen writes into every C header.

`cont_box_drop(CBox_c_void *)`, `ctx_arc_clone(CArc_c_void *)`, `ctx_arc_drop(CArc_c_void *)` are what every generated
`<object>_drop` helper and every consuming wrapper is built from.  A header is rendered, pushed through the REAL tool and a C
driver calls the helpers on EVERY state of the published fields:

    box   instance {NULL, set} x drop_fn {NULL, set}
    arc   instance {NULL, set} x clone_fn {NULL, set} x drop_fn {NULL, set}   (clone only where clone_fn is set)

Oracle (what the Rust types do): a drop function is called exactly once, with the instance, iff both it and the instance
are present - a box / arc without a drop function (borrowed or static payload, `CBox(T *instance)` of the C++ header, `None` in
Rust) is released without any call and without touching memory; clone calls clone_fn once and copies both function
pointers.  The slice constructors STR / REF_SLICE are applied to a literal, to `const char *` values of several
lengths, to a partially filled `char[256]` and to byte arrays: the slice has the C string's / the given length and the argument's
address.  gcc and clang, -O0 and -O2.
"""
import json
import os
import shutil
import subprocess
import sys

sys.path.insert(0, os.path.dirname(os.path.abspath(__file__)))

import bindgen_headers as H  # noqa: E402
import bindgen_model as BM  # noqa: E402
import bindgen_tool as TL  # noqa: E402
from bindgen_c17 import setup  # noqa: E402
from pyreport import Report  # noqa: E402

COMPILERS = [c for c in ("gcc", "clang") if shutil.which(c)]

DRIVER = r'''#include <stdio.h>
#include <stdlib.h>
#include <stdint.h>
#include <stdbool.h>
#include <string.h>
#include "processed.h"

static int g_drops, g_clones;
static const void *g_last;
static int g_payload = 7;
static void my_box_drop(void *p) { g_drops++; g_last = p; }
static void my_arc_drop(const void *p) { g_drops++; g_last = p; }
static int g_other = 8;
/* a clone function may hand out another instance pointer for the new handle */
static const void *my_arc_clone(const void *p) { g_clones++; g_last = p; return &g_other; }

int main(void) {
    int i, d, c;
    for (i = 0; i < 2; i++) for (d = 0; d < 2; d++) {
        CBox_c_void b;
        memset(&b, 0, sizeof b);
        b.instance = i ? (void *)&g_payload : NULL;
        b.drop_fn = d ? my_box_drop : NULL;
        g_drops = 0; g_last = NULL;
        cont_box_drop(&b);
        {
            int want = (i && d) ? 1 : 0;
            int ok = g_drops == want && (!want || g_last == (const void *)&g_payload);
            printf("CASE box_drop instance=%d drop_fn=%d x %s calls=%d\n", i, d, ok ? "ok" : "bad", g_drops);
        }
    }
    for (i = 0; i < 2; i++) for (c = 0; c < 2; c++) for (d = 0; d < 2; d++) {
        CArc_c_void a;
        memset(&a, 0, sizeof a);
        a.instance = i ? (const void *)&g_payload : NULL;
        a.clone_fn = c ? my_arc_clone : NULL;
        a.drop_fn = d ? my_arc_drop : NULL;
        g_drops = 0; g_clones = 0; g_last = NULL;
        ctx_arc_drop(&a);
        {
            int want = (i && d) ? 1 : 0;
            int ok = g_drops == want && g_clones == 0 && (!want || g_last == (const void *)&g_payload);
            printf("CASE arc_drop instance=%d drop_fn=%d clone_fn=%d %s calls=%d\n", i, d, c, ok ? "ok" : "bad", g_drops);
        }
        if (c && i) {
            CArc_c_void k;
            g_drops = 0; g_clones = 0;
            k = ctx_arc_clone(&a);
            {
                int ok = g_clones == 1 && g_drops == 0 && g_last == a.instance && k.instance == (const void *)&g_other && k.clone_fn == a.clone_fn && k.drop_fn == a.drop_fn;
                printf("CASE arc_clone instance=%d drop_fn=%d clone_fn=%d %s calls=%d\n", i, d, c, ok ? "ok" : "bad", g_clones);
            }
        }
    }
    {
        /* slice constructors: STR takes the C string's length, whatever the static type of its argument is */
        const char *lit_ptr = "a string of twenty-seven ch";
        const char *one = "x";
        const char *empty = "";
        char key[256];
        unsigned char bytes[5] = {1, 2, 3, 4, 5};
        struct CSliceRef_u8 r;
        size_t k;
        memset(key, 'Z', sizeof key);
        strcpy(key, "abcdef");
        r = STR("literal");
        printf("CASE str literal x x %s len=%zu\n", (r.len == 7 && memcmp(r.data, "literal", 7) == 0) ? "ok" : "bad", (size_t)r.len);
        r = STR(lit_ptr);
        printf("CASE str pointer27 x x %s len=%zu\n", (r.len == 27 && (const char *)r.data == lit_ptr) ? "ok" : "bad", (size_t)r.len);
        r = STR(one);
        printf("CASE str pointer1 x x %s len=%zu\n", (r.len == 1 && (const char *)r.data == one) ? "ok" : "bad", (size_t)r.len);
        r = STR(empty);
        printf("CASE str pointer0 x x %s len=%zu\n", (r.len == 0) ? "ok" : "bad", (size_t)r.len);
        r = STR(key);
        printf("CASE str buffer256 x x %s len=%zu\n", (r.len == 6 && (const char *)r.data == key) ? "ok" : "bad", (size_t)r.len);
        for (k = 0; k <= 5; k++) {
            r = REF_SLICE(u8, bytes, k);
            printf("CASE ref_slice len%zu x x %s len=%zu\n", k, (r.len == k && r.data == bytes) ? "ok" : "bad", (size_t)r.len);
        }
    }
    printf("DONE\n");
    return 0;
}
'''


def model():
    return BM.wrapped_model(["arc"], None)


def run_once(exe, stubdir, workroot, keep=False):
    wd = os.path.join(workroot, "chelp-%d" % os.getpid())
    shutil.rmtree(wd, ignore_errors=True)
    os.makedirs(wd)
    try:
        r = H.render(model(), "c")
        res = TL.run_tool(exe, stubdir, wd, r["text"], None)
        if res["stub_argv"] is None or res["rc"] != 0 or not res["output"]:
            return {"machinery": "cglue-bindgen did not produce a header (rc=%s, stderr=%s)" % (res["rc"], res["stderr"][:300])}
        with open(os.path.join(wd, "processed.h"), "w") as f:
            f.write(res["output"])
        with open(os.path.join(wd, "driver.c"), "w") as f:
            f.write(DRIVER)
        outs = {}
        for cc in COMPILERS:
            for opt in ("-O0", "-O2"):
                exe_c = os.path.join(wd, "driver-" + cc + opt)
                p = subprocess.run([cc, "-std=gnu99", opt, "-o", exe_c, "driver.c"], cwd=wd, stdout=subprocess.PIPE, stderr=subprocess.STDOUT, text=True)
                if p.returncode != 0:
                    return {"compile_error": p.stdout[-1500:]}
                q = subprocess.run([exe_c], cwd=wd, stdout=subprocess.PIPE, stderr=subprocess.STDOUT, text=True, timeout=120)
                outs[cc + " " + opt] = (q.returncode, q.stdout)
        return {"outs": outs}
    finally:
        if not keep:
            shutil.rmtree(wd, ignore_errors=True)


def parse(text):
    cases = []
    for ln in text.splitlines():
        if ln.startswith("CASE "):
            f = ln.split()
            cases.append({"helper": f[1], "key": " ".join(f[1:5]), "ok": f[5] == "ok", "detail": " ".join(f[6:])})
    return cases, text.rstrip().endswith("DONE")


def run(prop, tier, replay, Ctx):
    exe, stubdir, workroot = setup(Ctx)
    if replay is not None:
        with open(replay) as f:
            body = json.load(f)
        hits = []
        for _ in range(2):
            r = run_once(exe, stubdir, workroot)
            if "machinery" in r:
                raise Ctx.Machinery(r["machinery"])
            bad = "compile_error" in r
            if not bad:
                for opt, (rc, text) in r["outs"].items():
                    cs, done = parse(text)
                    bad = bad or rc != 0 or not done or any(not c["ok"] for c in cs)
            hits.append(bad)
        return ("replay", 1 if all(hits) else (0 if not any(hits) else 2))
    rep = Report(prop, tier, "exploration", os.environ.get("VERIF_SEED", 0))
    rep.assume("cbindgen is not available offline: the input header is synthesised (gen/bindgen_headers.py); the helpers under test are emitted by the real cglue-bindgen built from /repo")
    sec = "c_header_release_helpers"
    rep.rule(sec, "cont_box_drop / ctx_arc_drop / ctx_arc_clone of the processed C header on every state of the published fields (instance x drop_fn, "
                  "instance x clone_fn x drop_fn; NULL or set): a drop function is called exactly once with the instance iff both are present, never "
                  "otherwise and never through a NULL pointer; clone calls clone_fn once and copies the function pointers; STR / REF_SLICE on a literal, on const char * values, on a partially "
                  "filled char[256] and on byte arrays give the C string's / the given length; gcc and clang, -O0 and -O2")
    r = run_once(exe, stubdir, workroot)
    if "machinery" in r:
        raise Ctx.Machinery(r["machinery"])
    if "compile_error" in r:
        rep.record(sec, {"helper": "all"}, None, True, ("chelper16:compile_error", "the driver using the header's release helpers does not compile:\n" + r["compile_error"][-600:]))
        return ("report", rep.build())
    for opt, (rc, text) in sorted(r["outs"].items()):
        cases, done = parse(text)
        seen = set(c["key"] for c in cases)
        for c in cases:
            v = None if c["ok"] else ("chelper16:%s" % c["helper"], "%s (%s): %s - not what releasing / cloning the Rust value does" % (c["key"], opt, c["detail"]))
            rep.record(sec, {"case": c["key"], "opt": opt}, {"c": c["key"], "d": c["detail"]}, True, v)
        if rc != 0 or not done:
            rep.record(sec, {"helper": "all", "opt": opt}, None, True,
                       ("chelper16:crash", "the release-helper driver (%s) died with rc=%s after %d of 16 cases (last completed: %s): a helper went through a NULL function pointer or touched memory it was not given" % (
                           opt, rc, len(cases), cases[-1]["key"] if cases else "none")))
    return ("report", rep.build())
