#!/usr/bin/env python3
"""Stand-alone driver for the bindgen engines (C17 / C18) that does not need an entry in /verif/check:

    python3 /verif/gen/bindgen_try.py C17 quick            # run, print summary + violations, write replays to .build/bindgen/replays
    python3 /verif/gen/bindgen_try.py C18 thorough
    python3 /verif/gen/bindgen_try.py C17 --replay FILE    # exit code 1 = reproduced, 0 = not, 2 = flaky
    python3 /verif/gen/bindgen_try.py show c|cpp           # plugin-api reference header: raw and processed
"""
import importlib.machinery
import importlib.util
import json
import os
import sys
import time

sys.path.insert(0, "/verif")
sys.path.insert(0, "/verif/gen")


def load_check():
    loader = importlib.machinery.SourceFileLoader("verif_check", "/verif/check")
    spec = importlib.util.spec_from_loader("verif_check", loader)
    mod = importlib.util.module_from_spec(spec)
    loader.exec_module(mod)
    return mod


def main():
    chk = load_check()
    Ctx = chk.Ctx
    a = sys.argv[1:]
    if a and a[0] == "show":
        import bindgen_headers as H
        import bindgen_tool as TL
        lang = a[1] if len(a) > 1 else "c"
        exe, stub = TL.build_tool(Ctx), TL.make_stub_dir(Ctx)
        r = H.render(H.plugin_api_model(), lang)
        res = TL.run_tool(exe, stub, os.path.join(TL.scratch(Ctx), "show"), r["text"], {"default_container": "Box", "default_context": "Arc"})
        print(res["rc"], res["stderr"], file=sys.stderr)
        sys.stdout.write(res["output"] or "")
        return 0
    prop = a[0]
    mod = __import__({"C17": "bindgen_c17", "C18": "bindgen_c18"}[prop])
    try:
        if "--replay" in a:
            kind, rc = mod.run(prop, "quick", a[a.index("--replay") + 1], Ctx)
            print("replay rc =", rc)
            return rc
        tier = a[1] if len(a) > 1 else "quick"
        t0 = time.time()
        kind, rep = mod.run(prop, tier, None, Ctx)
    except chk.Machinery as e:
        print("MACHINERY FAILURE:", e)
        return 2
    wall = time.time() - t0
    cov = rep["coverage"]
    print("[%s %s] wall=%.1fs evaluations=%d distinct=%d exhaustive=%s" % (prop, tier, wall, cov["evaluations"], cov["distinct_nontrivial"], cov["exhaustive"]))
    for s in cov["sections"]:
        print("   section", json.dumps(s))
    known = Ctx.known_signatures(prop)
    rdir = os.path.join(Ctx.BUILD, "bindgen", "replays")
    os.makedirs(rdir, exist_ok=True)
    for v in rep["violation_records"]:
        body = {"property": prop, "engine": mod.__name__, "section": v["section"], "signature": v["signature"], "desc": v["desc"], "case": v["case"]}
        pth = os.path.join(rdir, "%s-%s.json" % (prop, "".join(c if c.isalnum() else "_" for c in v["signature"])[:80]))
        with open(pth, "w") as f:
            json.dump(body, f, indent=1)
        print("%s [%s] %s x%d\n      %s\n      replay: %s" % ("KNOWN" if v["signature"] in known else "VIOLATION", v["section"], v["signature"], v["count"],
                                                            (v["desc"] or "")[:600].replace("\n", "\n      "), pth))
    return 1 if rep["violation_records"] else 0


if __name__ == "__main__":
    sys.exit(main())
