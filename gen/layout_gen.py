#!/usr/bin/env python3
"""C20 generator: base definitions x single edits -> twin Rust modules + case table.

abi_stable's layout comparison identifies types by name + package (not module path), so a base
definition and each edited twin live in different modules of ONE shard crate and are compared
through `cglue::trait_group::compare_layouts` / `VerifyLayout::check`.

Output (all regenerated on every run, deterministic, no timestamps):
    <out>/h_layout/Cargo.toml             dependency path to cglue from VERIF_REPO_DIR, one dep per shard
    <out>/h_layout/src/generated.rs       `pub static TABLE: &[Entry]`
    <out>/shards/<crate>/{Cargo.toml,src/lib.rs}

Shard = (base, chunk of its edits); every shard re-expands the base (`mod a`) itself, so every
comparison is between two independently expanded definitions of one package. Quick shards are always
built; thorough-only shards are optional dependencies behind the cargo feature `thorough`, and the
non-Box containers are `#[cfg(feature = "thorough")]` inside the shards.

Element / payload edits: bases `cb_arg`, `iter_arg`, `elems`, `grp_cb` carry `OpaqueCallback<T>`, `CIterator<T>`,
`&[T]`, `Option<T>`, `Result<T, ()>`; the edit kinds `arg_elem` / `ret_elem` change only T (u32 -> u64, u32 -> the
#[repr(C)] struct `Pair`) and are judged like any other C type change.

Call-sequence families (`FAMILIES`, section `sequences` of the harness): per family the base A, its identical
twin A', one single-edit twin B and an unrelated base C; the harness enumerates all call sequences of length
<= SEQ_DEPTH over them in one process (the verdict must not depend on earlier calls).

The expectation of an edit is decided HERE on the level of C types (the level the property speaks
about): an edit is *judged* (verdict must not be Valid) iff it changes a method's presence, name,
order, receiver kind, an argument's or the return value's C type, or the set / order of a group's
traits. Source edits that keep every C type (`&[u8]` -> `&str`, a parameter rename, toggling
`int_result` on a trait without `Result` returns, dropping a marker supertrait, listing a group's traits
in another order) are emitted too, but as `Observe`: recorded, never judged.
"""
import copy
import json
import os
import sys

# ---------------------------------------------------------------------------------------------
# C type model of the argument / return shapes used here

CTYPE = {
    None: "void",
    "u64": "u64", "u32": "u32", "i64": "i64", "u8": "u8",
    "usize": "usize",
    "&u64": "&u64", "&mut u64": "&mut u64", "&mut u32": "&mut u32",
    "&[u8]": "CSliceRef<u8>", "&[u16]": "CSliceRef<u16>", "&str": "CSliceRef<u8>",
    "&mut [u8]": "CSliceMut<u8>", "&mut [u16]": "CSliceMut<u16>",
    "Option<u64>": "COption<u64>", "Option<u32>": "COption<u32>",
    "&[u32]": "CSliceRef<u32>", "&[u64]": "CSliceRef<u64>", "&[Pair]": "CSliceRef<Pair>",
    "Option<Pair>": "COption<Pair>",
    "OpaqueCallback<u32>": "OpaqueCallback<u32>", "OpaqueCallback<u64>": "OpaqueCallback<u64>",
    "OpaqueCallback<Pair>": "OpaqueCallback<Pair>",
    "CIterator<u32>": "CIterator<u32>", "CIterator<u64>": "CIterator<u64>", "CIterator<Pair>": "CIterator<Pair>",
    "X": "u32",  # the generic base is instantiated with X = u32
    "Self::Ret": "InnerBox",
    "&mut InnerBox<'static>": "&mut InnerBox",
    # a payload box: the pointee is part of the C interface
    "CBox<'static, u32>": "CBox<u32>", "CBox<'static, u64>": "CBox<u64>", "CBox<'static, Pair>": "CBox<Pair>",
}


def ctype(ty, int_result):
    if ty is not None and ty.startswith("Result<"):
        ok = ty[len("Result<"):].split(",")[0].strip()
        if int_result:
            return "i32" + ("" if ok == "()" else "+out:" + ok)
        return "C" + ty.replace(" ", "")
    return CTYPE[ty]


# replacement candidates (the first ones change the C type, some deliberately do not)
ARG_REPL = {
    "u64": ["u32", "i64", "&u64", "usize"],
    "u32": ["u64", "u8"],
    "&[u8]": ["&[u16]", "&mut [u8]", "&str", "u64"],
    "&str": ["&[u8]", "&[u16]"],
    "Option<u64>": ["Option<u32>", "u64"],
    "&mut u64": ["&u64", "&mut u32"],
    "X": ["u64", "u32"],
    # element / payload type of the wrapped shapes (`Pair` is a #[repr(C)] struct of two u32)
    "OpaqueCallback<u32>": ["OpaqueCallback<u64>", "OpaqueCallback<Pair>", "CIterator<u32>"],
    "CIterator<u32>": ["CIterator<u64>", "CIterator<Pair>", "OpaqueCallback<u32>"],
    "&[u32]": ["&[u64]", "&[Pair]"],
    "Option<u32>": ["Option<u64>", "Option<Pair>"],
    "CBox<'static, u32>": ["CBox<'static, u64>", "CBox<'static, Pair>", "u32"],
}
RET_REPL = {
    None: ["u64"],
    "u64": [None, "u32", "i64", "usize"],
    "u32": [None, "u64"],
    "&[u8]": ["&[u16]", "&str", "u64"],
    "Option<u64>": ["Option<u32>", "u64"],
    "Result<u64, ()>": ["Result<u32, ()>", "Result<(), ()>", "u64"],
    "X": ["u64", "u32"],
    "Self::Ret": [],
    "Result<u32, ()>": ["Result<u64, ()>", "Result<Pair, ()>", "Result<u32, u8>"],
    "Option<u32>": ["Option<u64>", "Option<Pair>"],
    "CBox<'static, u32>": ["CBox<'static, u64>", "CBox<'static, Pair>"],
}


def outer(ty):
    """Type constructor of a shape: an edit that keeps it and changes the C type is an element/payload edit."""
    if ty is None:
        return None
    if ty.startswith("&mut ["):
        return "&mut []"
    if ty.startswith("&["):
        return "&[]"
    if "<" in ty:
        return ty.split("<")[0]
    return None
RECVS = ["&self", "&mut self", "self"]


class Meth:
    def __init__(self, name, recv, args=(), ret=None, custom=False, skip=False, raw=None):
        self.name, self.recv, self.args, self.ret = name, recv, [list(a) for a in args], ret
        # raw: (lifetime binder, parameter text) written verbatim - methods with several named lifetimes; such parameters are
        # not edited (args stays empty), name / receiver / return type / position are
        self.raw = raw
        # skip: a Rust-side helper with a default body that gets no vtable entry (#[skip_func])
        self.skip = skip
        # custom: the C side of the method is hand-written with #[custom_impl] (same C argument / return types as the Rust
        # signature, default bodies); every edit of the signature is an edit of the hand-written C signature
        self.custom = custom

    def render(self):
        if self.skip:
            return "#[skip_func]\n    fn %s(&self) -> u32 { 0 }" % self.name
        if self.custom:
            cargs = "".join(" %s: %s," % (n, t) for n, t in self.args)
            sig = "fn %s(%s%s)%s;" % (self.name, self.recv, "".join(", %s: %s" % (n, t) for n, t in self.args), "" if self.ret is None else " -> " + self.ret)
            return "#[custom_impl({%s }, %s, { }, { }, { },)]\n    %s" % (cargs, self.ret or "()", sig)
        if self.raw:
            return "fn %s%s(%s, %s)%s;" % (self.name, self.raw[0], self.recv, self.raw[1], "" if self.ret is None else " -> " + self.ret)
        is_ref_ret = self.ret is not None and self.ret.startswith("&")
        recv, ret, lt = self.recv, self.ret, ""
        if is_ref_ret:
            if recv == "self":
                raise ValueError("reference return from a consuming method")
            lt = "<'a>"
            recv = recv.replace("&", "&'a ", 1)
            ret = ret.replace("&", "&'a ", 1)
        args = "".join(", %s: %s" % (n, t) for n, t in self.args)
        return "fn %s%s(%s%s)%s;" % (self.name, lt, recv, args, "" if ret is None else " -> " + ret)


class Trait:
    def __init__(self, name, methods, generics="", inst="", int_result=False, supers="", assoc=""):
        self.name, self.methods, self.generics, self.inst = name, methods, generics, inst
        self.int_result, self.supers, self.assoc = int_result, supers, assoc

    def render(self):
        out = ["#[cglue_trait]"]
        if self.int_result:
            out.append("#[int_result]")
        out.append("pub trait %s%s%s {" % (self.name, self.generics, (": " + self.supers) if self.supers else ""))
        if self.assoc:
            out.append("    " + self.assoc)
        for m in self.methods:
            out.append("    " + m.render())
        out.append("}")
        return "\n".join(out)


class Def:
    """One definition: helper traits + either a main trait or a group over the traits."""

    def __init__(self, traits, main=None, group=None, edits=None):
        self.edits = edits            # None, or a function Def -> list of edits replacing the generic edit generators
        self.traits = traits          # list of Trait, in source order
        self.main = main              # name of the trait whose object types are compared, or
        self.group = group            # (name, [mandatory names], [optional names])

    def trait(self, name):
        for t in self.traits:
            if t.name == name:
                return t
        raise KeyError(name)

    def render(self):
        parts = [t.render() for t in self.traits]
        if self.group:
            name, mand, opt = self.group
            m = mand[0] if len(mand) == 1 else "{ %s }" % ", ".join(mand)
            parts.append("cglue_trait_group!(%s, %s, { %s });" % (name, m, ", ".join(opt)))
        return "\n".join(parts)

    def opaque(self, cont):
        """Rust type of the opaque object/group in container `cont`."""
        if self.group:
            return "%s%s<'static>" % (self.group[0], cont)
        t = self.trait(self.main)
        return "%s%s<'static%s>" % (t.name, cont, (", " + t.inst) if t.inst else "")


def one(name, recv, args=(), ret=None, **kw):
    return Def([Trait("Tr", [Meth(name, recv, args, ret)], **kw)], main="Tr")


def simple_trait(name, meth):
    return Trait(name, [Meth(meth, "&self", [("a", "u64")], "u64")])


BASES = [
    # (base name, quick?, Def)
    ("ref_u64", True, one("m0", "&self", [("a", "u64")], "u64")),
    ("mut_slice", True, one("m0", "&mut self", [("a", "&[u8]"), ("b", "u32")], "u32")),
    ("ref_retslice", True, one("m0", "&self", [("a", "&[u8]")], "&[u8]")),
    ("three", True, Def([Trait("Tr", [Meth("m0", "&self", [("a", "u64")], "u64"),
                                      Meth("m1", "&mut self", [("a", "&[u8]")], None),
                                      Meth("m2", "self", [], "u32")])], main="Tr")),
    ("intres", True, one("m0", "&self", [("a", "u64")], "Result<u64, ()>", int_result=True)),
    ("grp3", True, Def([simple_trait("Ta", "a0"), simple_trait("Tb", "b0"), simple_trait("Tc", "c0")],
                       group=("Grp", ["Ta"], ["Tb", "Tc"]))),
    ("cb_arg", True, one("m0", "&self", [("a", "OpaqueCallback<u32>")], None)),
    ("iter_arg", True, one("m0", "&mut self", [("a", "CIterator<u32>")], "u32")),
    ("elems", True, one("m0", "&self", [("a", "&[u32]"), ("b", "Option<u32>")], "Result<u32, ()>")),
    ("grp_cb", False, Def([Trait("Ta", [Meth("a0", "&self", [("a", "OpaqueCallback<u32>")], None)]),
                           Trait("Tb", [Meth("b0", "&self", [("a", "CIterator<u32>")], "Option<u32>")])],
                          group=("Grp", ["Ta"], ["Tb"]))),
    ("own_opt", False, one("m0", "self", [("a", "Option<u64>")], "u64")),
    ("mut_unit", False, one("m0", "&mut self", [], None)),
    ("str_outparam", False, one("m0", "&self", [("a", "&str"), ("b", "&mut u64")], "Option<u64>")),
    ("generic", False, one("m0", "&self", [("a", "X")], "X", generics="<X>", inst="u32")),
    ("wrapped", False, Def([simple_trait("Inner", "i0"),
                            Trait("Tr", [Meth("m0", "&self", [], "Self::Ret")],
                                  assoc="#[wrap_with_obj(Inner)] type Ret: Inner + 'static;")], main="Tr")),
    # a trait whose vtable is reachable only THROUGH another trait's method signature: as a wrapped associated return
    # type and as an opaque object argument; the edits are made to the inner trait (3 methods, two of them with the
    # same signature, so that renames and reorders change names only)
    ("wrapped3", True, Def([Trait("Inner", [Meth("i0", "&self", [], "u32"), Meth("i1", "&self", [], "u32"), Meth("i2", "&self", [("a", "u64")], "u64")]),
                            Trait("Tr", [Meth("m0", "&self", [], "Self::Ret")],
                                  assoc="#[wrap_with_obj(Inner)] type Ret: Inner + 'static;")], main="Tr")),
    ("arg_obj", True, Def([Trait("Inner", [Meth("i0", "&self", [], "u32"), Meth("i1", "&self", [], "u32"), Meth("i2", "&self", [("a", "u64")], "u64")]),
                           Trait("Tr", [Meth("m0", "&mut self", [("obj", "&mut InnerBox<'static>")], "u32")])], main="Tr")),
    # every wrapped shape used TWICE (identical signatures): an edit of the later use must be seen although an equal
    # type was already compared earlier in the same walk
    ("twice", True, Def([Trait("Tr", [Meth("m0", "&self", [("a", "&[u32]"), ("b", "Option<u32>")], "Result<u32, ()>"),
                                      Meth("m1", "&self", [("a", "&[u32]"), ("b", "Option<u32>")], "Result<u32, ()>"),
                                      Meth("m2", "&mut self", [("a", "OpaqueCallback<u32>"), ("b", "CIterator<u32>")], "Option<u32>"),
                                      Meth("m3", "&mut self", [("a", "OpaqueCallback<u32>"), ("b", "CIterator<u32>")], "Option<u32>")])], main="Tr")),
    ("grp_res", True, Def([Trait("Ta", [Meth("a0", "&self", [("a", "&[u32]")], "Result<u32, ()>")]),
                           Trait("Tb", [Meth("b0", "&self", [("a", "&[u32]")], "Result<u32, ()>")])],
                          group=("Grp", ["Ta"], ["Tb"]))),
    ("boxed", True, Def([Trait("Tr", [Meth("m0", "&mut self", [("a", "CBox<'static, u32>")], "u32"),
                                      Meth("m1", "&self", [], "CBox<'static, u32>")])], main="Tr")),
    ("custom", True, Def([Trait("Tr", [Meth("m0", "&self", [("a", "u32")], "u32", custom=True),
                                       Meth("m1", "&self", [("a", "u64")], "u64")])], main="Tr")),
    # methods with several named lifetimes, each used more than once: the lifetime numbering inside the description of a function
    # pointer must be the same for every expansion of the same text (identical twin = Valid), every edit is still seen
    ("lifetimes", True, Def([Trait("Tr", [
        Meth("m0", "&self", ret="u32", raw=("<'a, 'b, 'c>", "a: &'a u32, a2: &'a u32, b: &'b u32, b2: &'b u32, c: &'c u32, c2: &'c u32")),
        Meth("m1", "&mut self", ret=None, raw=("<'x, 'y, 'z>", "a: &'x u32, a2: &'x u32, b: &'y u32, b2: &'y u32, c: &'z u32, c2: &'z u32")),
        Meth("m2", "&self", ret="u64", raw=("<'x, 'y, 'z>", "a: &'x u64, b: &'y u64, c: &'z u64, a2: &'x u64, b2: &'y u64, c2: &'z u64")),
        Meth("m3", "&mut self", ret="u32", raw=("<'p, 'q, 'r>", "a: &'r u8, a2: &'r u8, b: &'q u8, b2: &'q u8, c: &'p u8, c2: &'p u8"))])], main="Tr")),
    # one generic trait instantiated TWICE in a group (aliased): an edit of the type argument of either instantiation is seen
    ("grp_gen2", True, Def([Trait("Tg", [Meth("g0", "&self", [("a", "X")], "X")], generics="<X>")],
                           group=("Grp", ["Tg<u32> = Ga", "Tg<u64> = Gb"], []), edits=lambda d: gen2_edits(d, 1))),
    ("grp_gen2_opt", True, Def([Trait("Tg", [Meth("g0", "&self", [("a", "X")], "X")], generics="<X>")],
                               group=("Grp", ["Tg<u32> = Ga"], ["Tg<u64> = Gb"]), edits=lambda d: gen2_edits(d, 2))),
    ("super_send", False, one("m0", "&self", [("a", "u64")], "u64", supers="Send")),
    ("grp5", False, Def([simple_trait("Ta", "a0"), simple_trait("Tb", "b0"), simple_trait("Tc", "c0"),
                         simple_trait("Td", "d0"), simple_trait("Te", "e0")],
                        group=("Grp", ["Ta", "Tb"], ["Tc", "Td", "Te"]))),
]

CONTAINERS = [  # (suffix of the generated alias, container, context)
    ("Box", "Box", "none"), ("ArcBox", "Box", "CArc<c_void>"),
    ("Mut", "Mut", "none"), ("ArcMut", "Mut", "CArc<c_void>"),
    ("Ref", "Ref", "none"), ("ArcRef", "Ref", "CArc<c_void>"),
]

VALID, NOT_VALID, UNKNOWN, OBSERVE = "Valid", "NotValid", "Unknown", "Observe"


# ---------------------------------------------------------------------------------------------
# edits

def trait_edits(d, tname, prefix="", kprefix=""):
    """All single edits of trait `tname` inside definition d -> list of (edit name, kind, Def, expect, note)."""
    out = []
    base_t = d.trait(tname)

    def variant(f):
        nd = copy.deepcopy(d)
        f(nd.trait(tname))
        return nd

    def emit(name, kind, f, expect=NOT_VALID, note=""):
        try:
            nd = variant(f)
            nd.render()
        except ValueError:
            return  # ill-typed combination (reference returned from a consuming method)
        out.append((prefix + name, kprefix + kind, nd, expect, note))

    # a Rust-side helper without a vtable entry: the C-visible interface is the same, the verdict must stay Valid
    emit("add_skip_func_last", "add_helper", lambda t: t.methods.append(Meth("zz_helper", "&self", skip=True)), VALID,
         "a #[skip_func] method with a default body has no vtable entry: identical C-visible interface")
    emit("add_skip_func_first", "add_helper", lambda t: t.methods.insert(0, Meth("aa_helper", "&self", skip=True)), VALID,
         "a #[skip_func] method with a default body has no vtable entry: identical C-visible interface")
    emit("add_last", "add", lambda t: t.methods.append(Meth("zz_added", "&self", [], "u32")))
    emit("add_first", "add", lambda t: t.methods.insert(0, Meth("aa_added", "&self", [], "u32")))
    for i, m in enumerate(base_t.methods):
        if len(base_t.methods) > 1:
            emit("remove:%d" % i, "remove", lambda t, i=i: t.methods.pop(i))
        emit("rename:%d" % i, "rename", lambda t, i=i: setattr(t.methods[i], "name", t.methods[i].name + "_renamed"))
        if i + 1 < len(base_t.methods):
            def swap(t, i=i):
                t.methods[i], t.methods[i + 1] = t.methods[i + 1], t.methods[i]
            emit("reorder:%d" % i, "reorder", swap)
        for j, (pn, pt) in enumerate(m.args):
            for new in ARG_REPL.get(pt, []):
                same = ctype(new, base_t.int_result) == ctype(pt, base_t.int_result)
                elem = outer(pt) is not None and outer(pt) == outer(new)
                emit("arg:%d.%d:%s" % (i, j, new), "arg_same_ctype" if same else ("arg_elem" if elem else "arg"),
                     lambda t, i=i, j=j, new=new: t.methods[i].args[j].__setitem__(1, new),
                     OBSERVE if same else NOT_VALID,
                     "%s -> %s keeps the C type %s" % (pt, new, ctype(pt, False)) if same else "")
            emit("param_rename:%d.%d" % (i, j), "param_rename",
                 lambda t, i=i, j=j: t.methods[i].args[j].__setitem__(0, t.methods[i].args[j][0] + "_renamed"),
                 OBSERVE, "parameter name only; no C type changes")
        for new in RET_REPL.get(m.ret, []):
            same = ctype(new, base_t.int_result) == ctype(m.ret, base_t.int_result)
            elem = outer(m.ret) is not None and outer(m.ret) == outer(new)
            emit("ret:%d:%s" % (i, new), "ret_same_ctype" if same else ("ret_elem" if elem else "ret"),
                 lambda t, i=i, new=new: setattr(t.methods[i], "ret", new),
                 OBSERVE if same else NOT_VALID,
                 "%s -> %s keeps the C type" % (m.ret, new) if same else "")
        for new in RECVS:
            if new != m.recv:
                emit("recv:%d:%s" % (i, new), "recv", lambda t, i=i, new=new: setattr(t.methods[i], "recv", new))
    has_result = any(m.ret is not None and m.ret.startswith("Result<") for m in base_t.methods)
    emit("toggle_int_result", "int_result" if has_result else "int_result_no_result_method",
         lambda t: setattr(t, "int_result", not t.int_result),
         NOT_VALID if has_result else OBSERVE,
         "" if has_result else "no method returns Result: the attribute changes no C type")
    if base_t.supers:
        emit("drop_supertrait", "supertrait", lambda t: setattr(t, "supers", ""), OBSERVE,
             "marker supertrait only; no C-visible item changes")
    return out


def new_trait(name):
    return simple_trait(name, name.lower() + "0")


def group_edits(d):
    out = []
    gname, mand, opt = d.group

    def emit(name, kind, f, expect=NOT_VALID, note=""):
        nd = copy.deepcopy(d)
        f(nd)
        out.append((name, kind, nd, expect, note))

    def add_opt(nd, tn):
        nd.traits.append(new_trait(tn))
        nd.group[2].append(tn)

    # generated groups order their vtables by trait name: add one that sorts last and one that sorts first
    emit("add_optional:Tzz", "add_optional", lambda nd: add_opt(nd, "Tzz"))
    emit("add_optional:Taa", "add_optional", lambda nd: add_opt(nd, "Taa"))
    for tn in opt:
        def rm(nd, tn=tn):
            nd.group[2].remove(tn)
        emit("remove_optional:%s" % tn, "remove_optional", rm)
    # reorder by renaming: the first optional trait gets a name that sorts after all others
    def ren(nd, old, new):
        t = nd.trait(old)
        t.name = new
        for lst in (nd.group[1], nd.group[2]):
            for k, n in enumerate(lst):
                if n == old:
                    lst[k] = new
    emit("reorder_optional:%s->Tzy" % opt[0], "reorder_optional", lambda nd: ren(nd, opt[0], "Tzy"))
    emit("reorder_mandatory:%s->Tzy" % mand[0], "reorder_mandatory", lambda nd: ren(nd, mand[0], "Tzy"))

    def add_mand(nd):
        nd.traits.append(new_trait("Tmm"))
        nd.group[1].append("Tmm")
    emit("add_mandatory:Tmm", "add_mandatory", add_mand)

    def swap_listing(nd):
        nd.group[2].reverse()
    emit("list_optional_reversed", "listing_order", swap_listing, OBSERVE,
         "same traits listed in another order in the macro call; generated order is by name")

    def opt_to_mand(nd):
        nd.group[1].append(nd.group[2].pop(0))
    emit("optional_to_mandatory:%s" % opt[0], "optional_to_mandatory", opt_to_mand, OBSERVE,
         "same set of traits; one vtable reference becomes non-nullable")
    # edits inside member traits (one mandatory, one optional): method-level changes seen through the group
    for tn in (mand[0], opt[-1]):
        for (n, k, nd, e, note) in trait_edits(d, tn, prefix="member:%s:" % tn, kprefix="member_"):
            if k[len("member_"):] in ("rename", "recv", "arg", "ret", "arg_elem", "ret_elem", "add"):
                out.append((n, k, nd, e, note))
    return out


def gen2_edits(d, second_list):
    """group with two aliased instantiations of one generic trait: type-argument edits of the first / the second one"""
    out = []

    def emit(name, lst, old, new):
        nd = copy.deepcopy(d)
        l = nd.group[lst]
        l[l.index(old)] = new
        out.append((name, "generic_instantiation", nd, NOT_VALID, ""))
    emit("second:u64->i64", second_list, "Tg<u64> = Gb", "Tg<i64> = Gb")
    emit("second:u64->u8", second_list, "Tg<u64> = Gb", "Tg<u8> = Gb")
    emit("second:u64->u16", second_list, "Tg<u64> = Gb", "Tg<u16> = Gb")
    emit("first:u32->i32", 1, "Tg<u32> = Ga", "Tg<i32> = Ga")
    emit("first:u32->u8", 1, "Tg<u32> = Ga", "Tg<u8> = Ga")
    return out


def edits_of(d):
    if d.edits is not None:
        return d.edits(d)
    if d.group:
        return group_edits(d)
    out = trait_edits(d, d.main)
    for t in d.traits:
        if t.name != d.main:
            # helper trait of a wrapped associated type: its object is the return C type of the main trait
            for (n, k, nd, e, note) in trait_edits(d, t.name, prefix="inner:", kprefix="inner_"):
                if k[len("inner_"):] in ("rename", "recv", "arg", "ret", "arg_elem", "ret_elem", "add", "reorder", "remove"):
                    out.append((n, k, nd, e, note))
    return out


# ---------------------------------------------------------------------------------------------
# emission

# (family base, unrelated base, in quick tier): both must be quick bases
SEQ_FAMILIES = [("ref_u64", "mut_slice", True), ("grp3", "three", True), ("cb_arg", "iter_arg", False)]
SEQ_DEPTH = {"quick": 3, "thorough": 3}

CHUNK = 6   # edited twins per shard crate (plus the base): keeps every rustc process short


def rust_str(s):
    return json.dumps(s)


def module(modname, d):
    lines = ["pub mod %s {" % modname,
             "    #![allow(unused, clippy::all)]",
             "    use abi_stable::{type_layout::TypeLayout, StableAbi};",
             "    use cglue::prelude::v1::*;",
             "    use cglue::trait_group::VerifyLayout;",
             "    use super::Pair;"]
    for ln in d.render().split("\n"):
        lines.append("    " + ln)
    lines.append("    pub fn layout(k: u8) -> &'static TypeLayout {")
    lines.append("        match k {")
    for k, (suffix, _c, _x) in enumerate(CONTAINERS):
        if k == 1:
            lines.append("            #[cfg(feature = \"thorough\")]")
            lines.append("            1..=5 => match k {")
        ind = "            " if k == 0 else "                "
        lines.append("%s%d => <%s as StableAbi>::LAYOUT," % (ind, k, d.opaque(suffix)))
    lines.append("                _ => unreachable!(),")
    lines.append("            },")
    lines.append("            _ => panic!(\"container {} not compiled in\", k),")
    lines.append("        }")
    lines.append("    }")
    lines.append("    pub fn check(k: u8, l: Option<&'static TypeLayout>) -> VerifyLayout {")
    lines.append("        match k {")
    for k, (suffix, _c, _x) in enumerate(CONTAINERS):
        if k == 1:
            lines.append("            #[cfg(feature = \"thorough\")]")
            lines.append("            1..=5 => match k {")
        ind = "            " if k == 0 else "                "
        lines.append("%s%d => VerifyLayout::check::<%s>(l)," % (ind, k, d.opaque(suffix)))
    lines.append("                _ => unreachable!(),")
    lines.append("            },")
    lines.append("            _ => panic!(\"container {} not compiled in\", k),")
    lines.append("        }")
    lines.append("    }")
    lines.append("}")
    return "\n".join(lines)


def build_plan():
    """-> list of shards: dict(crate, base, quick, base_def, twins=[(modname, edit, kind, def, expect, note)])"""
    shards = []
    for bi, (bname, quick, d) in enumerate(BASES):
        twins = [("identical", "identical", copy.deepcopy(d), VALID, "")] + edits_of(d)
        names = [t[0] for t in twins]
        assert len(set(names)) == len(names), names
        for ci in range(0, len(twins), CHUNK):
            chunk = twins[ci:ci + CHUNK]
            shards.append({
                "crate": "lay_%s_%02d" % (bname, ci // CHUNK), "base": bname, "quick": quick, "base_def": d,
                "twins": [("e%02d" % (ci + k), n, kind, nd, e, note) for k, (n, kind, nd, e, note) in enumerate(chunk)],
            })
    return shards


def write_if_changed(path, text):
    os.makedirs(os.path.dirname(path), exist_ok=True)
    try:
        with open(path) as f:
            if f.read() == text:
                return False
    except OSError:
        pass
    with open(path, "w") as f:
        f.write(text)
    return True


def generate(out_dir, repo_dir="/repo", explore_dir="/verif/engine/explore"):
    shards = build_plan()
    shard_root = os.path.join(out_dir, "shards")
    wanted = set()
    for sh in shards:
        cdir = os.path.join(shard_root, sh["crate"])
        wanted.add(sh["crate"])
        cargo = "\n".join([
            "# generated by /verif/gen/layout_gen.py - do not edit",
            "[package]", "name = \"%s\"" % sh["crate"], "version = \"0.1.0\"", "edition = \"2021\"", "",
            "[features]", "thorough = []", "",
            "[dependencies]",
            "cglue = { path = \"%s/cglue\", features = [\"layout_checks\"] }" % repo_dir,
            "abi_stable = \"0.10\"", ""])
        write_if_changed(os.path.join(cdir, "Cargo.toml"), cargo)
        src = ["// generated by /verif/gen/layout_gen.py - do not edit",
               "// base `%s` and %d single-edit twins; every module is an independent macro expansion" % (sh["base"], len(sh["twins"])),
               "/// element / payload type used by the element-type edits (same item for the base and its twins)",
               "#[repr(C)]", "#[derive(::abi_stable::StableAbi, Clone, Copy)]", "pub struct Pair(pub u32, pub u32);",
               module("a", sh["base_def"])]
        for (mod, edit, kind, nd, e, note) in sh["twins"]:
            src.append("// edit: %s" % edit)
            src.append(module(mod, nd))
        write_if_changed(os.path.join(cdir, "src", "lib.rs"), "\n".join(src) + "\n")
    # remove stale shard crates
    if os.path.isdir(shard_root):
        import shutil
        for n in os.listdir(shard_root):
            if n not in wanted:
                shutil.rmtree(os.path.join(shard_root, n))
    # harness crate manifest
    deps, feat = [], []
    for sh in shards:
        if sh["quick"]:
            deps.append("%s = { path = \"../shards/%s\" }" % (sh["crate"], sh["crate"]))
            feat.append("\"%s/thorough\"" % sh["crate"])
        else:
            deps.append("%s = { path = \"../shards/%s\", optional = true, features = [\"thorough\"] }" % (sh["crate"], sh["crate"]))
            feat.append("\"dep:%s\"" % sh["crate"])
    cargo = "\n".join([
        "# generated by /verif/gen/layout_gen.py - do not edit",
        "[package]", "name = \"h_layout\"", "version = \"0.1.0\"", "edition = \"2021\"", "",
        "[features]", "thorough = [%s]" % ", ".join(feat), "",
        "[dependencies]",
        "cglue = { path = \"%s/cglue\", features = [\"layout_checks\"] }" % repo_dir,
        "abi_stable = \"0.10\"",
        "explore = { path = \"%s\" }" % explore_dir,
        "serde_json = \"1\""] + deps + [""])
    write_if_changed(os.path.join(out_dir, "h_layout", "Cargo.toml"), cargo)
    # case table
    rows = []
    n_cases = {"quick": 0, "thorough": 0}
    for sh in shards:
        src_a = sh["base_def"].render()
        for (mod, edit, kind, nd, e, note) in sh["twins"]:
            src_b = nd.render()
            for k, (suffix, cont, ctx) in enumerate(CONTAINERS):
                q = sh["quick"] and k == 0
                cfg = "" if q else "#[cfg(feature = \"thorough\")] "
                cid = "%s/%s/%s" % (sh["base"], edit, suffix)
                rows.append(
                    "    %sEntry { id: %s, base: %s, edit: %s, kind: %s, container: %s, context: %s, quick: %s, "
                    "layouts: || (Some(%s::a::layout(%d)), Some(%s::%s::layout(%d))), check_a: |l| %s::a::check(%d, l), "
                    "expect: Expect::%s, note: %s, src_a: %s, src_b: %s }," % (
                        cfg, rust_str(cid), rust_str(sh["base"]), rust_str(edit), rust_str(kind), rust_str(cont), rust_str(ctx),
                        "true" if q else "false", sh["crate"], k, sh["crate"], mod, k, sh["crate"], k,
                        e, rust_str(note), rust_str(src_a), rust_str(src_b)))
                n_cases["thorough"] += 1
                n_cases["quick"] += 1 if q else 0
    # missing side: one triple per (base, container)
    first_shard = {}
    for sh in shards:
        first_shard.setdefault(sh["base"], sh)
    for bname, sh in first_shard.items():
        src_a = sh["base_def"].render()
        for k, (suffix, cont, ctx) in enumerate(CONTAINERS):
            q = sh["quick"] and k == 0
            cfg = "" if q else "#[cfg(feature = \"thorough\")] "
            for (edit, lay) in (("missing:found", "(Some(%s::a::layout(%d)), None)" % (sh["crate"], k)),
                                ("missing:expected", "(None, Some(%s::a::layout(%d)))" % (sh["crate"], k)),
                                ("missing:both", "(None, None)")):
                cid = "%s/%s/%s" % (bname, edit, suffix)
                rows.append(
                    "    %sEntry { id: %s, base: %s, edit: %s, kind: \"missing\", container: %s, context: %s, quick: %s, "
                    "layouts: || %s, check_a: |l| %s::a::check(%d, l), expect: Expect::Unknown, note: \"\", src_a: %s, src_b: \"\" }," % (
                        cfg, rust_str(cid), rust_str(bname), rust_str(edit), rust_str(cont), rust_str(ctx), "true" if q else "false",
                        lay, sh["crate"], k, rust_str(src_a)))
                n_cases["thorough"] += 1
                n_cases["quick"] += 1 if q else 0
    # call-sequence families: A (base), A' (identical twin), B (single-edit twin), C (unrelated base)
    fam_rows = []
    n_seq = {"quick": 0, "thorough": 0}
    n_overlap = {"quick": 0, "thorough": 0}
    n_ops = 5 * 5 + 4 * 5   # compare_layouts over {A, A', B, C, missing}^2 + check::<T>(found) for 4 types x 5 found
    for (fname, other, fquick) in SEQ_FAMILIES:
        sh, osh = first_shard[fname], first_shard[other]
        assert sh["quick"] and osh["quick"], "sequence families use quick bases (Box container is always compiled)"
        ident = [t for t in sh["twins"] if t[1] == "identical"][0]
        judged = [t for t in sh["twins"] if t[4] == NOT_VALID]
        pref = [t for t in judged if t[2] in ("arg", "recv", "ret", "arg_elem", "remove_optional")]
        edit = (pref or judged)[0]
        members = [
            ("A", "base `%s`" % fname, 0, "%s::a" % sh["crate"], sh["base_def"].render()),
            ("A'", "identical twin of `%s`" % fname, 0, "%s::%s" % (sh["crate"], ident[0]), ident[3].render()),
            ("B", "`%s` with edit `%s`" % (fname, edit[1]), 1, "%s::%s" % (sh["crate"], edit[0]), edit[3].render()),
            ("C", "unrelated base `%s`" % other, 2, "%s::a" % osh["crate"], osh["base_def"].render()),
        ]
        ms = ", ".join(
            "Member { label: %s, what: %s, class: %d, layout: || %s::layout(0), check: |l| %s::check(0, l), src: %s }" % (
                rust_str(l), rust_str(w), c, path, path, rust_str(src)) for (l, w, c, path, src) in members)
        fam_rows.append("    Family { name: %s, quick: %s, members: [%s] }," % (rust_str(fname), "true" if fquick else "false", ms))
        for tier in ("quick", "thorough"):
            if tier == "thorough" or fquick:
                n_seq[tier] += sum(n_ops ** k for k in range(1, SEQ_DEPTH[tier] + 1))
                n_overlap[tier] += n_ops * 3
    gen = "\n".join([
        "// generated by /verif/gen/layout_gen.py - do not edit",
        "// %d bases, %d shard crates, cases: quick %d / thorough %d" % (len(BASES), len(shards), n_cases["quick"], n_cases["thorough"]),
        "pub const N_BASES_QUICK: usize = %d;" % sum(1 for b in BASES if b[1]),
        "pub const N_BASES_ALL: usize = %d;" % len(BASES),
        "pub const SEQ_DEPTH_QUICK: usize = %d;" % SEQ_DEPTH["quick"],
        "pub const SEQ_DEPTH_THOROUGH: usize = %d;" % SEQ_DEPTH["thorough"],
        "use crate::{Entry, Expect, Family, Member};",
        "pub static TABLE: &[Entry] = &["] + rows + ["];",
        "pub static FAMILIES: &[Family] = &["] + fam_rows + ["];", ""])
    write_if_changed(os.path.join(out_dir, "h_layout", "src", "generated.rs"), gen)
    return {"bases": len(BASES), "shards": len(shards), "quick_shards": sum(1 for s in shards if s["quick"]),
            "twins": sum(len(s["twins"]) for s in shards), "cases": n_cases, "sequences": n_seq, "overlap": n_overlap}


if __name__ == "__main__":
    out = sys.argv[1] if len(sys.argv) > 1 else "/verif/engine_layout"
    print(json.dumps(generate(out, os.environ.get("VERIF_REPO_DIR", "/repo"))))
